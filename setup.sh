#!/bin/sh
# Build the framework from files on disk only (offline).
set -e
cd "$(dirname "$0")"
export CARGO_NET_OFFLINE=true
[ -f harness/Cargo.lock ] || cp /repo/Cargo.lock harness/Cargo.lock
python3 tools/build_all.py < /dev/null
(cd harness && cargo build --release --offline --bins < /dev/null)
