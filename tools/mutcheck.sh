#!/bin/sh
# tools/mutcheck.sh <patch-file|--revert <commit>> <Cnn> [more Cnn...]
# Run checks against a scratch worktree of /repo with a change applied, WITHOUT touching /repo
# (other workers build from it). Scratch: /tmp/wt_$MUT_TAG (worktree), /tmp/hx_$MUT_TAG (harness copy, own target/);
# MUT_TAG defaults to `mut` — set a different tag to run several in parallel.
set -e
ROOT="$(cd "$(dirname "$0")/.." && pwd)"
TAG="${MUT_TAG:-mut}"; WT=/tmp/wt_$TAG; HX=/tmp/hx_$TAG
git -C /repo worktree remove --force $WT 2>/dev/null || true
rm -rf $WT
git -C /repo worktree add -q --detach $WT HEAD
if [ "$1" = "--revert" ]; then
  git -C $WT revert --no-commit "$2" ; shift 2
else
  git -C $WT apply "$1"; shift
fi
mkdir -p $HX
rsync -a --delete --exclude target "$ROOT/harness/" $HX/
sed -i "s#/repo/#$WT/#g" $HX/Cargo.toml
cp $WT/Cargo.lock $HX/Cargo.lock
rc=0
for p in "$@"; do
  VERIF_HARNESS_DIR=$HX "$ROOT/check" "$p" || rc=$?
done
git -C /repo worktree remove --force $WT
echo "mutcheck exit=$rc (scratch harness target kept in $HX/target for reuse; rm -rf $HX when done)"
exit $rc
