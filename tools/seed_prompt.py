#!/usr/bin/env python3
"""Print the prompt for a seeded-change sub-agent: only the property's own text + scratch paths."""
import json, sys
pid, k = sys.argv[1], sys.argv[2]
hint = sys.argv[3] if len(sys.argv) > 3 else ""
p = [json.loads(l) for l in open('/verif/properties.jsonl') if json.loads(l)['id'] == pid][0]
print(f"""You are helping evaluate a verification effort for the Rust project in /repo (Shadylukin/Neumann: a multi-model database with its own Raft, 2PC, WALs, engines). Your task is to SEED A REALISTIC DEFECT: produce a change to the source that BREAKS the semantic property below while the code still COMPILES and the project's EXISTING TESTS STILL PASS, plus a demonstration (a small test or program) that fails with your change and passes without it.

Property {pid} — {p['title']}
Statement: {p['statement']}
Quantifier: {p['quantifier']['text']}
Anchored in: {', '.join(p['anchors']['files'])}

Rules:
* Work ONLY in your own scratch git worktree: run `git -C /repo worktree add --detach /tmp/seed_{pid}_{k} HEAD` and edit files there. NEVER edit anything under /repo itself, and do NOT read or use anything under /verif (the change must be independent of the existing verification machinery).
* The change must be the kind of mistake a real refactoring or optimisation could introduce (an off-by-one, a dropped guard, a reordered pair of steps, a cache not invalidated on one path, a comparison flipped for a corner case, a missing fsync / persist-before-reply, two sites that each look fine alone …), 1–30 changed lines, in the anchored files (or code they call). It must need something SPECIFIC to manifest — a particular interleaving, a crash or fault at a particular point, a multi-step sequence of operations, an unusual input, or two cooperating sites — NOT something ordinary use would expose at once. {hint}
* It must still compile and pass the existing tests of every crate you touched: run `CARGO_TARGET_DIR=/tmp/seed_target_{pid}_{k} cargo test -p <crate> --offline` in the worktree (tests whose names contain `readonly`, `permission_denied`, `disk_full`, `truncate_error_handling`, `append_returns_io_error_on_failure` fail in this sandbox even without your change because we run as root, and tests named `test_no_resize_stall` are timing-flaky under load: ignore those). If an existing test catches your change, pick a different change.
* Demonstration: a Rust integration test file (placed under the touched crate's `tests/` directory in your worktree, e.g. `tests/seed_demo.rs`) or a small example program that FAILS with your change applied and PASSES on the unchanged code (verify both: run it with the change, then save your change with `git diff > /tmp/seed_{pid}_{k}.patch`, undo it with `git apply -R /tmp/seed_{pid}_{k}.patch`, run the demo without it, and re-apply with `git apply /tmp/seed_{pid}_{k}.patch` — do NOT use `git stash`: the stash is shared between all worktrees of /repo and other people are working in other worktrees). Keep the demo deterministic.
* Deliver in /tmp/seed_out/{pid}_{k}/ : `patch.diff` (= `git -C /tmp/seed_{pid}_{k} diff` of the SOURCE change only, without the demo file), the demo file(s), and `meta.json` with keys: property, files_changed, what_the_change_does, what_it_needs_to_manifest, how_to_run_demo (exact command), demo_result_with_change, demo_result_without_change, existing_tests_run (commands + pass counts).
* When done remove your worktree and build output: `git -C /repo worktree remove --force /tmp/seed_{pid}_{k}; rm -rf /tmp/seed_target_{pid}_{k}`.
Final answer: a 5-line summary (what you changed, what it needs to manifest, demo results with/without, tests run).""")
