#!/bin/sh
# tools/benign_validate.sh <Cnn> : run the property's quick check against each harmless change in
# /tmp/benign_out/<Cnn>/{a,b,c}.diff in a scratch worktree; a green check is the expected outcome.
p="$1"; d=/tmp/benign_out/$p
cd "$(dirname "$0")/.."
for k in a b c; do
  [ -f "$d/$k.diff" ] || { echo "$p/$k: no patch"; continue; }
  MUT_TAG=bn_$p tools/mutcheck.sh "$d/$k.diff" "$p" > "$d/$k.check.txt" 2>&1
  rc=$?
  echo "$p/$k rc=$rc $(grep -E '^VIOLATION|^check ' "$d/$k.check.txt" | head -3 | tr '\n' ' ' | cut -c1-300)"
done
rm -rf /tmp/hx_bn_$p
