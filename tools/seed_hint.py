#!/usr/bin/env python3
"""Print a diversification hint for a new seeded-change agent: one line per earlier seed of the property
(taken from the seeds' own meta.json — what earlier agents delivered, nothing about the checks)."""
import json, glob, os, sys
pid = sys.argv[1]
out = []
for d in sorted(glob.glob(f'/verif/seeded/{pid}_*')):
    m = json.load(open(d + '/meta.json'))
    w = str(m.get('what_the_change_does', '')).replace('\n', ' ')
    out.append('(' + os.path.basename(d) + ') ' + w[:220])
print("Earlier rounds already produced the following changes for this property; choose a DIFFERENT mechanism, function and failure mode (ideally in a different anchored file or a different public operation), not a variation of these: " + ' ;; '.join(out))
