#!/bin/sh
# tools/baseline_check.sh : run the pinned baseline suite (guard OFF: no --cfg neumann_verif) on /repo's
# working tree in a scratch target dir and list every stable_pass test that did not pass.
set -u
T=${BASELINE_TARGET:-/tmp/baseline_target}
cd /repo
rm -f /repo/target/nextest/pb/junit.xml
CARGO_NET_OFFLINE=true CARGO_TARGET_DIR="$T" cargo nextest run --workspace --no-fail-fast \
  --tool-config-file pb:/w/lib/nextest.toml --profile pb --test-threads 8 --offline > /tmp/baseline_run.log 2>&1
echo "nextest rc=$?"
python3 /w/lib/parse_tests.py --kind junit --glob /repo/target/nextest/pb/junit.xml --out /tmp/baseline_parsed.json
python3 - <<'PY'
import json
b=json.load(open('/root/.vp/BASELINE.json'))
r=json.load(open('/tmp/baseline_parsed.json'))
passed=set(r.get('passed',[])); stable=set(b['stable_pass'])
missing=sorted(stable-passed)
print(f"stable_pass={len(stable)} passed_now={len(passed)} stable_not_passed={len(missing)}")
for m in missing[:50]: print("  NOT PASSED:", m)
PY
