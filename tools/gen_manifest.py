#!/usr/bin/env python3
"""Regenerate /verif/MANIFEST.json from areas/*.json and tools/manifest_base.json."""
import json, glob, os
ROOT = os.path.dirname(os.path.dirname(os.path.abspath(__file__)))
base = json.load(open(os.path.join(ROOT, "tools", "manifest_base.json")))
props = [json.loads(l)["id"] for l in open(os.path.join(ROOT, "properties.jsonl"))]
checks, claimed = [], set()
engines = {}
for f in sorted(glob.glob(os.path.join(ROOT, "areas", "C*.json"))):
    c = json.load(open(f))
    pid = c["property_id"]; claimed.add(pid)
    checks.append({
        "property_id": pid,
        "quick_cmd": f"./check {pid} --tier quick",
        "thorough_cmd": f"./check {pid} --tier thorough",
        "evidence_file": f"/verif/evidence/{pid}.json",
        "replay_cmd_template": f"./check {pid} --replay {{path}}",
        "engine": c["area"],
        "level_claimed": {"category": "proof", "text": c["level_text"], "design_ref": c.get("design_ref", "")},
        "level_note": c["level_note"],
        "technique": c["technique"],
    })
    e = engines.setdefault(c["area"], {"name": c["area"], "path": f"lean/NeumannModel/{c['area']} + harness/src/bin/{c['harness_bin']}.rs",
                                        "serves_properties": [], "kind_free_text": "Lean 4 model + theorems; Rust differential correspondence harness"})
    e["serves_properties"].append(pid)
na_reasons = base.pop("not_applicable_reasons", {})
na = [{"property_id": p, "reason": na_reasons.get(p, "not yet built in this round (see DESIGN.md §7); will be claimed when its model, theorems and correspondence exist")} for p in props if p not in claimed]
m = dict(base)
m["engines"] = list(engines.values())
m["checks"] = checks
m["not_applicable"] = na
json.dump(m, open(os.path.join(ROOT, "MANIFEST.json"), "w"), indent=1)
print(f"MANIFEST.json: {len(checks)} checks, {len(na)} not_applicable")
