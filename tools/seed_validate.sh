#!/bin/sh
# tools/seed_validate.sh <Cnn_k> : run the property's check against the seeded change in a scratch worktree
# (never touches /repo) and record the outcome next to the seed.
id="$1"; prop="${id%%_*}"
d=/tmp/seed_out/$id
[ -f "$d/patch.diff" ] || { echo "no patch for $id"; exit 2; }
cd "$(dirname "$0")/.."
tools/mutcheck.sh "$d/patch.diff" "$prop" > "$d/check_output.txt" 2>&1
rc=$?
grep -E "^VIOLATION|^check |KNOWN-FINDING-NOT|exit 2" "$d/check_output.txt" | head -12 > "$d/check_result.txt"
echo "rc=$rc" >> "$d/check_result.txt"
cat "$d/check_result.txt"
