#!/usr/bin/env python3
"""tools/seed_keep.py <Cnn_k> : copy a validated seeded change from /tmp/seed_out/<id>/ to /verif/seeded/<id>/
(patch.diff, demo files, meta.json with the check's verdict lines added as `check_result`)."""
import json, os, shutil, sys
sid = sys.argv[1]
src, dst = f'/tmp/seed_out/{sid}', f'/verif/seeded/{sid}'
os.makedirs(dst, exist_ok=True)
for root, _, files in os.walk(src):
    for f in files:
        if f in ('check_output.txt', 'check_result.txt') or f.endswith('.log'):
            continue
        rel = os.path.relpath(os.path.join(root, f), src)
        os.makedirs(os.path.dirname(os.path.join(dst, rel)) or dst, exist_ok=True)
        shutil.copy(os.path.join(root, f), os.path.join(dst, rel))
m = json.load(open(f'{dst}/meta.json'))
res = [l.rstrip('\n') for l in open(f'{src}/check_result.txt')] if os.path.exists(f'{src}/check_result.txt') else []
m['check_result'] = res
json.dump(m, open(f'{dst}/meta.json', 'w'), indent=1)
print(sid, '->', dst, '|', ' '.join(res)[:200])
