#!/bin/sh
# tools/seed_revalidate_all.sh [ids...] : re-run every seeded change against the current checks in a scratch
# worktree (never touches /repo) and print one verdict line per seed; results in /tmp/seed_reval/<id>.txt
ROOT="$(cd "$(dirname "$0")/.." && pwd)"
mkdir -p /tmp/seed_reval
ids="$*"; [ -n "$ids" ] || ids=$(ls "$ROOT/seeded" | grep -E '^C[0-9]+_[0-9]+$')
for id in $ids; do
  prop="${id%%_*}"
  MUT_TAG=${REVAL_TAG:-reval} "$ROOT/tools/mutcheck.sh" "$ROOT/seeded/$id/patch.diff" "$prop" > /tmp/seed_reval/$id.txt 2>&1 < /dev/null
  v=$(grep -E "^VIOLATION" /tmp/seed_reval/$id.txt | head -1)
  if [ -z "$v" ]; then echo "$id MISSED"; elif echo "$v" | grep -q no-failing-input-found; then echo "$id caught-no-input"; else echo "$id caught"; fi
done
rm -rf /tmp/hx_${REVAL_TAG:-reval}
