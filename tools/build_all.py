#!/usr/bin/env python3
"""Build every Lean target named by areas/*.json (Props modules + drivers)."""
import json, glob, os, subprocess, sys
ROOT = os.path.dirname(os.path.dirname(os.path.abspath(__file__)))
targets = []
for f in sorted(glob.glob(os.path.join(ROOT, "areas", "C*.json"))):
    c = json.load(open(f))
    for t in c["lean_props"] + [c["driver"]]:
        if t not in targets: targets.append(t)
sys.exit(subprocess.call(["lake", "build"] + targets, cwd=os.path.join(ROOT, "lean")))
