#!/usr/bin/env python3
"""Print the prompt for a HARMLESS-change sub-agent: property text + scratch paths only. The patches it
delivers preserve the property; they are used to measure false alarms of the checks."""
import json, sys
pid = sys.argv[1]
p = [json.loads(l) for l in open('/verif/properties.jsonl') if json.loads(l)['id'] == pid][0]
print(f"""You are helping evaluate a verification effort for the Rust project in /repo (Shadylukin/Neumann: a multi-model database with its own Raft, 2PC, WALs, engines). Your task is the opposite of bug seeding: produce THREE realistic, HARMLESS changes to the source — the kind of refactoring, optimisation or housekeeping commits a maintainer makes every week — each of which touches the code the semantic property below is anchored in, still compiles, passes the existing tests, and KEEPS THE PROPERTY TRUE. They will be used to measure whether the verification raises false alarms.

Property {pid} — {p['title']}
Statement: {p['statement']}
Quantifier: {p['quantifier']['text']}
Anchored in: {', '.join(p['anchors']['files'])}
Mechanisms the property rests on: {json.dumps(p['anchors'].get('mechanism', []))}

Deliver three independent patches (each against the unchanged HEAD, not stacked):
 (a) a PURE REFACTOR of one of the mechanisms above: same behaviour on every input, different code shape (extract a helper, replace a loop by iterator combinators or the reverse, early returns instead of nested ifs, rename locals/private fns, reorder independent statements, change a private data structure to an equivalent one). 10-60 changed lines.
 (b) an OPTIMISATION or internal policy change that alters only behaviour the property does NOT constrain: e.g. iteration/processing order where the result is a set, capacity / batch-size / buffer-size / pre-allocation constants, which of several equally valid internal ids or slots is chosen, caching that is correctly invalidated, doing a check earlier so an invalid request fails faster with the same error, lock scope narrowed where that is provably safe. Be careful that it really keeps the property for EVERY input/interleaving/crash point the quantifier names — argue it in meta.json. 5-40 changed lines.
 (c) a change of INCIDENTAL OBSERVABLE DETAIL the property does not speak about: wording of an error message (same error variant), extra tracing/log lines, a new metrics counter, Debug/Display formatting, an added doc comment plus a new `#[must_use]`, an extra defensive `debug_assert!` that cannot fire, an additional field with a default in a private struct. 3-30 changed lines.
Rules:
* Work ONLY in your own scratch git worktree: `git -C /repo worktree add --detach /tmp/benign_{pid} HEAD`; edit files there. NEVER edit anything under /repo itself and do NOT read or use anything under /verif.
* Each patch must compile and pass the existing tests of every crate it touches: `CARGO_TARGET_DIR=/tmp/benign_target_{pid} cargo test -p <crate> --offline` in the worktree (tests whose names contain `readonly`, `permission_denied`, `disk_full`, `truncate_error_handling`, `append_returns_io_error_on_failure` fail in this sandbox without any change because we run as root; `test_no_resize_stall` and `test_jepsen_wal_recovery_partition_then_crash` are timing-flaky under load: ignore those). Produce each patch with `git diff > file`, then `git apply -R file` before starting the next one (do NOT use `git stash`, `git reset` or `git checkout` of paths you did not change: the repository is shared with other worktrees).
* Do not change public function signatures, file formats, wire formats or WAL record layouts, and do not touch tests.
* Deliver in /tmp/benign_out/{pid}/ : `a.diff`, `b.diff`, `c.diff` and `meta.json` = {{"a": {{"files": [...], "what": "...", "why_property_still_holds": "...", "tests_run": "..."}}, "b": {{...}}, "c": {{...}}}}.
* When done: `git -C /repo worktree remove --force /tmp/benign_{pid}; rm -rf /tmp/benign_target_{pid}`.
Final answer: three lines, one per patch (what it changes, tests run).""")
