#!/bin/sh
# tools/seed_applycheck.sh : every seeded patch must apply to /repo's HEAD with `git -C /repo apply`
rc=0
for d in "$(cd "$(dirname "$0")/.." && pwd)"/seeded/*/; do
  [ -f "$d/patch.diff" ] || continue
  git -C /repo apply --check "$d/patch.diff" 2>/dev/null || { echo "DOES NOT APPLY: $(basename "$d")"; rc=1; }
done
[ $rc = 0 ] && echo "all seeded patches apply to /repo HEAD"
exit $rc
