//! Deterministic scheduler for real threads, driven by the `tensor_store::verif::yield_point`
//! hook (compiled into /repo's crates with `--cfg neumann_verif`).
//!
//! Every worker thread parks at each store-operation boundary; the controller lets exactly one
//! parked thread continue at a time, chosen by `choose` (a PRNG, or a script produced by the Lean
//! model as a witness interleaving).  A worker that blocks on a real lock held by a parked thread
//! never reaches its next yield point; after `stall` the controller treats it as blocked and
//! schedules among the parked ones (this is the only time-dependent part and it is reported in
//! the returned trace as `blocked`).
use std::sync::{Arc, Condvar, Mutex};
use std::time::Duration;

#[derive(Clone, Debug, PartialEq)]
enum Status {
    Running,
    Parked(&'static str, String),
    Done,
}

struct State {
    status: Vec<Status>,
    grant: Option<usize>,
}

/// One scheduling decision: which thread ran from which yield point.
#[derive(Clone, Debug)]
pub struct Step {
    pub thread: usize,
    pub site: &'static str,
    pub key: String,
    pub blocked: Vec<usize>,
}

/// What `choose` sees: the parked threads (thread index, site, key).
pub type Parked = Vec<(usize, &'static str, String)>;

/// Run `tasks` as real threads under the controller. `choose(step_no, &parked)` returns an index
/// INTO `parked`. Returns the schedule that was executed.
pub fn run_threads(
    tasks: Vec<Box<dyn FnOnce() + Send + 'static>>,
    mut choose: impl FnMut(usize, &Parked) -> usize,
) -> Vec<Step> {
    let n = tasks.len();
    let shared = Arc::new((
        Mutex::new(State { status: vec![Status::Running; n], grant: None }),
        Condvar::new(),
    ));
    let mut handles = Vec::new();
    for (i, task) in tasks.into_iter().enumerate() {
        let sh = shared.clone();
        handles.push(std::thread::spawn(move || {
            let sh2 = sh.clone();
            let park = move |site: &'static str, key: &str| {
                let (m, cv) = &*sh2;
                let mut st = m.lock().unwrap();
                st.status[i] = Status::Parked(site, key.to_string());
                cv.notify_all();
                while st.grant != Some(i) {
                    st = cv.wait(st).unwrap();
                }
                st.grant = None;
                st.status[i] = Status::Running;
                cv.notify_all();
            };
            park("thread.start", "");
            let p2 = park.clone();
            tensor_store::verif::set_yield_hook(Some(Box::new(move |s, k| p2(s, k))));
            let r = std::panic::catch_unwind(std::panic::AssertUnwindSafe(task));
            tensor_store::verif::set_yield_hook(None);
            let (m, cv) = &*sh;
            let mut st = m.lock().unwrap();
            st.status[i] = Status::Done;
            cv.notify_all();
            drop(st);
            if let Err(e) = r {
                std::panic::resume_unwind(e);
            }
        }));
    }
    let stall = Duration::from_millis(30);
    let mut trace = Vec::new();
    let (m, cv) = &*shared;
    let mut step_no = 0usize;
    loop {
        let mut st = m.lock().unwrap();
        // wait until nobody is running (or the runners are stalled on a real lock)
        loop {
            let running = st.status.iter().filter(|s| **s == Status::Running).count();
            if st.grant.is_none() && running == 0 {
                break;
            }
            let (g, timeout) = cv.wait_timeout(st, stall).unwrap();
            st = g;
            if timeout.timed_out() && st.grant.is_none() {
                let parked = st.status.iter().any(|s| matches!(s, Status::Parked(..)));
                if parked {
                    break; // runners are blocked on locks held by parked threads
                }
            }
        }
        if st.status.iter().all(|s| *s == Status::Done) {
            break;
        }
        let parked: Parked = st
            .status
            .iter()
            .enumerate()
            .filter_map(|(i, s)| match s {
                Status::Parked(site, key) => Some((i, *site, key.clone())),
                _ => None,
            })
            .collect();
        if parked.is_empty() {
            // only blocked runners left: wait for them
            drop(st);
            std::thread::sleep(Duration::from_millis(1));
            continue;
        }
        let blocked: Vec<usize> = st
            .status
            .iter()
            .enumerate()
            .filter(|(_, s)| **s == Status::Running)
            .map(|(i, _)| i)
            .collect();
        let k = choose(step_no, &parked) % parked.len();
        let (t, site, key) = parked[k].clone();
        trace.push(Step { thread: t, site, key, blocked });
        st.grant = Some(t);
        step_no += 1;
        cv.notify_all();
    }
    for h in handles {
        let _ = h.join();
    }
    trace
}
