//! Shared harness core: one PRNG, the pipe to the compiled Lean model driver,
//! canonicalisation helpers, and the run report every `corr_<area>` binary
//! writes for `/verif/check`.
//!
//! Contract of a `corr_<area>` binary:
//!   corr_x --seed N --tier quick|thorough --driver <path to drv_x> --out <report.json>
//!          [--replay <file>]
//! It exits 0 always (unless it crashed); the decision is made by `check`
//! from the report.  A report holds
//!   * `disagreements`: model-vs-implementation differences (correspondence),
//!   * `violations`:    implementation-vs-property failures (oracle), each with
//!                      a machine-computed `class` used to match known findings,
//!   * coverage counts and samples.

pub mod sched;

use std::collections::{BTreeMap, BTreeSet};
use std::io::{BufRead, BufReader, Write};
use std::process::{Child, ChildStdin, ChildStdout, Command, Stdio};

use serde_json::{json, Value};

// ---------------------------------------------------------------- PRNG

/// xoshiro256** seeded through splitmix64. Every random choice of a run
/// derives from one of these (forked deterministically per stream).
#[derive(Clone, Debug)]
pub struct Rng {
    s: [u64; 4],
}

fn splitmix(x: &mut u64) -> u64 {
    *x = x.wrapping_add(0x9E37_79B9_7F4A_7C15);
    let mut z = *x;
    z = (z ^ (z >> 30)).wrapping_mul(0xBF58_476D_1CE4_E5B9);
    z = (z ^ (z >> 27)).wrapping_mul(0x94D0_49BB_1331_11EB);
    z ^ (z >> 31)
}

impl Rng {
    pub fn new(seed: u64) -> Self {
        let mut x = seed;
        Rng {
            s: [
                splitmix(&mut x),
                splitmix(&mut x),
                splitmix(&mut x),
                splitmix(&mut x),
            ],
        }
    }
    /// Independent child generator: adding draws in one stream never shifts another.
    pub fn fork(&self, tag: &str) -> Rng {
        let mut h: u64 = 0xcbf2_9ce4_8422_2325;
        for b in tag.bytes() {
            h ^= u64::from(b);
            h = h.wrapping_mul(0x0000_0100_0000_01B3);
        }
        Rng::new(self.s[0] ^ h.rotate_left(17) ^ self.s[2])
    }
    pub fn next_u64(&mut self) -> u64 {
        let r = self.s[1].wrapping_mul(5).rotate_left(7).wrapping_mul(9);
        let t = self.s[1] << 17;
        self.s[2] ^= self.s[0];
        self.s[3] ^= self.s[1];
        self.s[1] ^= self.s[2];
        self.s[0] ^= self.s[3];
        self.s[2] ^= t;
        self.s[3] = self.s[3].rotate_left(45);
        r
    }
    /// Uniform in `0..n` (n > 0).
    pub fn below(&mut self, n: u64) -> u64 {
        if n == 0 {
            return 0;
        }
        self.next_u64() % n
    }
    pub fn range(&mut self, lo: i64, hi: i64) -> i64 {
        lo + self.below((hi - lo + 1) as u64) as i64
    }
    pub fn chance(&mut self, num: u64, den: u64) -> bool {
        self.below(den) < num
    }
    pub fn pick<'a, T>(&mut self, xs: &'a [T]) -> &'a T {
        &xs[self.below(xs.len() as u64) as usize]
    }
    pub fn bytes(&mut self, n: usize) -> Vec<u8> {
        (0..n).map(|_| self.next_u64() as u8).collect()
    }
    pub fn shuffle<T>(&mut self, xs: &mut [T]) {
        for i in (1..xs.len()).rev() {
            let j = self.below(i as u64 + 1) as usize;
            xs.swap(i, j);
        }
    }
}

// ---------------------------------------------------------------- hex

pub fn hex(bytes: &[u8]) -> String {
    if bytes.is_empty() {
        return "-".to_string();
    }
    let mut s = String::with_capacity(bytes.len() * 2);
    for b in bytes {
        s.push_str(&format!("{b:02x}"));
    }
    s
}

pub fn unhex(s: &str) -> Vec<u8> {
    if s == "-" {
        return Vec::new();
    }
    (0..s.len() / 2)
        .map(|i| u8::from_str_radix(&s[2 * i..2 * i + 2], 16).unwrap_or(0))
        .collect()
}

pub fn fnv(s: &str) -> u64 {
    let mut h: u64 = 0xcbf2_9ce4_8422_2325;
    for b in s.bytes() {
        h ^= u64::from(b);
        h = h.wrapping_mul(0x0000_0100_0000_01B3);
    }
    h
}

// ---------------------------------------------------------------- model pipe

/// The compiled Lean driver, spoken to over a one-line-in / one-line-out protocol.
pub struct Model {
    child: Child,
    stdin: ChildStdin,
    stdout: BufReader<ChildStdout>,
    pub lines: u64,
}

impl Model {
    pub fn spawn(driver: &str) -> Model {
        let mut child = Command::new(driver)
            .stdin(Stdio::piped())
            .stdout(Stdio::piped())
            .spawn()
            .unwrap_or_else(|e| panic!("cannot start model driver {driver}: {e}"));
        let stdin = child.stdin.take().unwrap();
        let stdout = BufReader::new(child.stdout.take().unwrap());
        Model {
            child,
            stdin,
            stdout,
            lines: 0,
        }
    }
    /// Send one operation line, get the model's one-line answer.
    pub fn ask(&mut self, line: &str) -> String {
        debug_assert!(!line.contains('\n'));
        self.stdin.write_all(line.as_bytes()).unwrap();
        self.stdin.write_all(b"\n").unwrap();
        self.stdin.flush().unwrap();
        let mut out = String::new();
        let n = self.stdout.read_line(&mut out).unwrap_or(0);
        if n == 0 {
            return "<model-driver-died>".to_string();
        }
        self.lines += 1;
        out.trim_end().to_string()
    }
}

impl Drop for Model {
    fn drop(&mut self) {
        let _ = self.child.kill();
        let _ = self.child.wait();
    }
}

// ---------------------------------------------------------------- args

#[derive(Clone, Debug)]
pub struct Args {
    pub seed: u64,
    pub thorough: bool,
    pub driver: String,
    pub out: String,
    pub replay: Option<String>,
    pub extra: Vec<String>,
}

pub fn parse_args() -> Args {
    let mut a = Args {
        seed: 1,
        thorough: false,
        driver: String::new(),
        out: String::new(),
        replay: None,
        extra: vec![],
    };
    let v: Vec<String> = std::env::args().skip(1).collect();
    let mut i = 0;
    while i < v.len() {
        match v[i].as_str() {
            "--seed" => {
                a.seed = v[i + 1].parse().unwrap_or(1);
                i += 1;
            }
            "--tier" => {
                a.thorough = v[i + 1] == "thorough";
                i += 1;
            }
            "--driver" => {
                a.driver = v[i + 1].clone();
                i += 1;
            }
            "--out" => {
                a.out = v[i + 1].clone();
                i += 1;
            }
            "--replay" => {
                a.replay = Some(v[i + 1].clone());
                i += 1;
            }
            other => a.extra.push(other.to_string()),
        }
        i += 1;
    }
    a
}

// ---------------------------------------------------------------- report

/// What a correspondence run saw. `check` turns it into the evidence file and
/// the exit status.
#[derive(Default)]
pub struct Report {
    pub evaluations: u64,
    distinct: BTreeSet<u64>,
    pub rule: String,
    pub samples: Vec<Value>,
    pub streams: BTreeMap<String, (u64, u64)>,
    pub disagreements: Vec<Value>,
    pub violations: Vec<Value>,
    pub distribution: BTreeMap<String, u64>,
    pub notes: Vec<String>,
    pub observations: Vec<Value>,
    pub expected_branches: Vec<String>,
}

impl Report {
    pub fn new(rule: &str) -> Self {
        Report {
            rule: rule.to_string(),
            ..Default::default()
        }
    }
    /// Count one executed case in `stream`; `nontrivial_key` is the canonical
    /// text of the case when it is non-trivial by the run's rule.
    pub fn case(&mut self, stream: &str, nontrivial_key: Option<&str>) {
        self.evaluations += 1;
        self.streams.entry(stream.to_string()).or_insert((0, 0)).0 += 1;
        if let Some(k) = nontrivial_key {
            self.distinct.insert(fnv(&format!("{stream}|{k}")));
        }
    }
    pub fn sample(&mut self, v: Value) {
        if self.samples.len() < 12 {
            self.samples.push(v);
        }
    }
    pub fn hit(&mut self, key: &str) {
        *self.distribution.entry(key.to_string()).or_insert(0) += 1;
    }
    pub fn hit_n(&mut self, key: &str, n: u64) {
        *self.distribution.entry(key.to_string()).or_insert(0) += n;
    }
    /// Model and implementation answered differently on the same input.
    pub fn disagree(&mut self, stream: &str, input: Value, imp: &str, model: &str) {
        self.streams.entry(stream.to_string()).or_insert((0, 0)).1 += 1;
        if self.disagreements.len() < 20 {
            self.disagreements.push(json!({
                "stream": stream, "input": input, "impl": imp, "model": model
            }));
        }
    }
    /// Compare and record; returns true when equal.
    pub fn compare(&mut self, stream: &str, input: impl FnOnce() -> Value, imp: &str, model: &str) -> bool {
        if imp == model {
            true
        } else {
            self.disagree(stream, input(), imp, model);
            false
        }
    }
    /// The implementation itself breaks the property on `input`.
    /// `class` = "<site>/<kind>", computed from the failing trace, used to
    /// match `known_findings.jsonl`.
    pub fn violation(&mut self, class: &str, what: &str, input: Value) {
        // at most 3 failing inputs are kept per class (and 400 in all), so that a class that fires
        // on many inputs can never crowd a NEW class out of the report
        let same = self.violations.iter().filter(|v| v["class"] == class).count();
        self.hit(&format!("violations.{class}"));
        if same < 3 && self.violations.len() < 400 {
            self.violations.push(json!({"class": class, "what": what, "input": input}));
        }
    }
    pub fn observe(&mut self, v: Value) {
        if self.observations.len() < 20 {
            self.observations.push(v);
        }
    }
    pub fn note(&mut self, s: &str) {
        self.notes.push(s.to_string());
    }
    pub fn distinct_nontrivial(&self) -> usize {
        self.distinct.len()
    }
    pub fn to_json(&self) -> Value {
        let uncovered: Vec<&String> = self
            .expected_branches
            .iter()
            .filter(|b| !self.distribution.contains_key(*b))
            .collect();
        json!({
            "evaluations": self.evaluations,
            "distinct_nontrivial": self.distinct.len(),
            "rule": self.rule,
            "samples": self.samples,
            "streams": self.streams.iter().map(|(k,(c,d))| (k.clone(), json!({"cases": c, "disagreements": d}))).collect::<BTreeMap<_,_>>(),
            "disagreements": self.disagreements,
            "disagreement_count": self.streams.values().map(|x| x.1).sum::<u64>(),
            "violations": self.violations,
            "distribution": self.distribution,
            "uncovered_model_branches": uncovered,
            "observations": self.observations,
            "notes": self.notes,
        })
    }
    pub fn write(&self, path: &str) {
        let s = serde_json::to_string_pretty(&self.to_json()).unwrap();
        if path.is_empty() {
            println!("{s}");
        } else {
            std::fs::write(path, s).unwrap();
        }
    }
}

/// Run `f` catching panics; returns Err(message) on panic.
pub fn guarded<T>(f: impl FnOnce() -> T + std::panic::UnwindSafe) -> Result<T, String> {
    std::panic::catch_unwind(f).map_err(|e| {
        if let Some(s) = e.downcast_ref::<&str>() {
            (*s).to_string()
        } else if let Some(s) = e.downcast_ref::<String>() {
            s.clone()
        } else {
            "panic".to_string()
        }
    })
}

/// ddmin-style shrinking of an op list: `fails(ops)` must be deterministic.
pub fn shrink_list<T: Clone>(ops: &[T], fails: &mut dyn FnMut(&[T]) -> bool) -> Vec<T> {
    let mut cur: Vec<T> = ops.to_vec();
    let mut chunk = cur.len() / 2;
    while chunk >= 1 {
        let mut i = 0;
        let mut progressed = false;
        while i < cur.len() {
            let mut cand = cur.clone();
            let end = (i + chunk).min(cand.len());
            cand.drain(i..end);
            if !cand.is_empty() && fails(&cand) {
                cur = cand;
                progressed = true;
            } else {
                i += chunk;
            }
        }
        if !progressed {
            chunk /= 2;
        }
    }
    cur
}
