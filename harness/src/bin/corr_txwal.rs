//! C13 correspondence + oracles: the real `DistributedTxCoordinator` with a real `TxWal` on a
//! temp file, crashed at byte granularity and restarted, against the Lean TxWal model.
//!
//! Streams
//!   coord.op        every coordinator call: result | WAL records appended | memory digest
//!   coord.restart   restart on a cut file: replayed log | recovered memory
//!   recover.class   `TxRecoveryState::from_wal` classification vs model `recover <bytes>`
//!   wal.valid_len   file length after `TxWal::open` vs model `valid_len`
//!   wal.replay      direct `TxWal::{open,append,replay}` with cuts vs model `replay`
//!   crc / frame     crc32fast + on-disk frame layout vs the model's
//! Oracles (evaluated on the real coordinator only, classes are machine computed):
//!   logged outcome never reversed, acknowledged records survive reopen+append (torn tail),
//!   prepared transactions come back with their accepted votes and can be completed,
//!   forgotten transactions hold no locks, completed transactions' locks are released.
use nverif::*;
use serde_json::{json, Value};
use std::collections::{BTreeMap, HashSet};
use std::path::{Path, PathBuf};
use std::time::{Duration, SystemTime, UNIX_EPOCH};
use tensor_chain::network::Transport;
use tensor_chain::raft_wal::WalConfig;
use tensor_chain::{
    ConsensusConfig, ConsensusManager, DeltaVector, DistributedTxConfig, DistributedTxCoordinator,
    MemoryTransport, PrepareVote, PrepareVoteKind, TxOutcome, TxPhase, TxRecoveryState, TxWal,
    TxWalEntry, VoteRecordError,
};

const FAKE_TX_REAL: u64 = 0x7fff_0000_0000_0001;
const FAKE_TX_C: u64 = 900;
const FAKE_H_REAL: u64 = 0x7fff_0000_0000_1000;
const FAKE_H_C: u64 = 1000;
const GUARD_MS: u64 = 30;
const NEVER_MS: u64 = 3_600_000;

fn now_ms() -> u64 {
    SystemTime::now().duration_since(UNIX_EPOCH).unwrap_or_default().as_millis() as u64
}

fn phase_num(p: TxPhase) -> u8 {
    match p {
        TxPhase::Preparing => 0,
        TxPhase::Prepared => 1,
        TxPhase::Committing => 2,
        TxPhase::Committed => 3,
        TxPhase::Aborting => 4,
        TxPhase::Aborted => 5,
        _ => 9,
    }
}

fn show_list(v: &[usize]) -> String {
    if v.is_empty() {
        "-".into()
    } else {
        v.iter().map(|x| x.to_string()).collect::<Vec<_>>().join(",")
    }
}

fn wal_cfg() -> WalConfig {
    WalConfig { pre_check_space: false, ..WalConfig::default() }
}

// ------------------------------------------------------------------ script

#[derive(Clone, Debug, PartialEq)]
enum V {
    YesLocked,
    YesFake(u64),
    No,
    Conflict,
}

#[derive(Clone, Debug, PartialEq)]
enum Cut {
    Full,
    /// `back` records from the end, `delta` bytes relative to that record boundary
    Boundary { back: usize, delta: i64 },
    /// per-mille position in the file
    Frac(u64),
    Exact(usize),
}

#[derive(Clone, Debug, PartialEq)]
enum Op {
    Begin { parts: Vec<usize>, xflag: bool },
    Vote { t: usize, shard: usize, v: V },
    Commit(usize),
    Abort(usize),
    CCommit(usize),
    CAbort(usize),
    Cleanup,
    Flush,
    RecoverLive,
    Sleep(u64),
    /// crash, cut, restart with the given prepare timeout / max_concurrent
    Crash { cut: Cut, timeout: u64, maxc: usize },
}

fn op_json(o: &Op) -> Value {
    json!(format!("{o:?}"))
}

// ------------------------------------------------------------------ bookkeeping

#[derive(Clone, Debug)]
struct TxInfo {
    real: u64,
    parts: Vec<usize>,
    xflag: bool,
    /// votes the live coordinator accepted (shard -> canonical vote string)
    accepted: BTreeMap<usize, String>,
    /// a vote for this tx was written to the WAL but rejected by `record_vote`
    rejected_logged: bool,
    yes_count: usize,
}

#[derive(Clone, Debug)]
struct HandleInfo {
    real: u64,
    key: String,
    tx_c: u64,
}

#[derive(Clone, Debug)]
struct Rec {
    token: String,
    end: usize,
}

#[derive(Clone, Default)]
struct Book {
    txs: Vec<TxInfo>,
    handles: Vec<HandleInfo>,
    /// every record the harness saw being appended and that is still in the file
    recs: Vec<Rec>,
    file_len: usize,
    /// a crash of this scenario left a torn (incomplete) final frame behind
    torn_tail_seen: bool,
    key_seq: u64,
    /// outcomes whose TxComplete record is in the file: canonical tx -> 'c' | 'a'
    durable: BTreeMap<u64, char>,
}

impl Book {
    fn tx_c(&self, real: u64) -> u64 {
        if real == FAKE_TX_REAL {
            return FAKE_TX_C;
        }
        self.txs.iter().position(|t| t.real == real).map(|i| i as u64 + 1).unwrap_or(999)
    }
    fn tx_real(&self, t: usize) -> u64 {
        self.txs.get(t).map(|x| x.real).unwrap_or(FAKE_TX_REAL)
    }
    fn tx_can(&self, t: usize) -> u64 {
        if t < self.txs.len() {
            t as u64 + 1
        } else {
            FAKE_TX_C
        }
    }
    fn h_c(&self, real: u64) -> u64 {
        if real >= FAKE_H_REAL {
            return FAKE_H_C + (real - FAKE_H_REAL);
        }
        self.handles.iter().position(|h| h.real == real).map(|i| i as u64 + 1).unwrap_or(9999)
    }
    fn token(&self, e: &TxWalEntry) -> String {
        match e {
            TxWalEntry::TxBegin { tx_id, participants } => {
                format!("B:{}:{}", self.tx_c(*tx_id), show_list(participants))
            }
            TxWalEntry::PrepareVote { tx_id, shard, vote } => format!(
                "V:{}:{}:{}",
                self.tx_c(*tx_id),
                shard,
                match vote {
                    PrepareVoteKind::Yes { lock_handle } => format!("y{}", self.h_c(*lock_handle)),
                    _ => "n".to_string(),
                }
            ),
            TxWalEntry::PhaseChange { tx_id, from, to } => {
                format!("P:{}:{}:{}", self.tx_c(*tx_id), phase_num(*from), phase_num(*to))
            }
            TxWalEntry::TxComplete { tx_id, outcome } => format!(
                "C:{}:{}",
                self.tx_c(*tx_id),
                match outcome {
                    TxOutcome::Committed => "c",
                    _ => "a",
                }
            ),
            TxWalEntry::LockRelease { tx_id, lock_handle } => {
                format!("L:{}:{}", self.tx_c(*tx_id), self.h_c(*lock_handle))
            }
            TxWalEntry::AllLocksReleased { tx_id } => format!("R:{}", self.tx_c(*tx_id)),
            TxWalEntry::AbortIntent { tx_id, reason, shards } => {
                format!("I:{}:{}:{}", self.tx_c(*tx_id), reason.replace(' ', "_"), show_list(shards))
            }
            _ => "?".to_string(),
        }
    }
}

/// complete frames of `bytes` starting at `from`: (start, end, payload)
fn frames(bytes: &[u8], from: usize) -> Vec<(usize, usize, Vec<u8>)> {
    let mut out = vec![];
    let mut pos = from;
    while pos + 8 <= bytes.len() {
        let len = u32::from_le_bytes([bytes[pos], bytes[pos + 1], bytes[pos + 2], bytes[pos + 3]]) as usize;
        if pos + 8 + len > bytes.len() {
            break;
        }
        out.push((pos, pos + 8 + len, bytes[pos + 8..pos + 8 + len].to_vec()));
        pos += 8 + len;
    }
    out
}

/// sort runs of consecutive LockRelease / AbortIntent tokens (hash-map iteration order)
fn canon_runs(tokens: &[String]) -> String {
    let mut out: Vec<String> = vec![];
    let mut i = 0;
    while i < tokens.len() {
        let k = tokens[i].as_bytes()[0];
        if k == b'L' || k == b'I' {
            let mut j = i;
            while j < tokens.len() && tokens[j].as_bytes()[0] == k {
                j += 1;
            }
            let mut run = tokens[i..j].to_vec();
            run.sort();
            out.extend(run);
            i = j;
        } else {
            out.push(tokens[i].clone());
            i += 1;
        }
    }
    if out.is_empty() {
        "-".into()
    } else {
        out.join(" ")
    }
}

fn canon_model_answer(ans: &str, strip_phase_digit: bool) -> String {
    // "<res> | <tokens> | pending=[..] locks=[..] aborts=[..]"
    let parts: Vec<&str> = ans.splitn(3, " | ").collect();
    if parts.len() != 3 {
        return ans.to_string();
    }
    let mut res = parts[0].to_string();
    if strip_phase_digit && res.starts_with("wrong_phase") {
        res = "wrong_phase".into();
    }
    let toks: Vec<String> = if parts[1] == "-" { vec![] } else { parts[1].split(' ').map(|s| s.to_string()).collect() };
    let digest = parts[2].split(" aborts=").next().unwrap_or("").to_string();
    format!("{res} | {} | {digest}", canon_runs(&toks))
}

// ------------------------------------------------------------------ the world

struct World {
    _dir: tempfile::TempDir,
    path: PathBuf,
    coord: Option<DistributedTxCoordinator>,
    timeout: u64,
    maxc: usize,
    book: Book,
    defined: HashSet<Vec<u8>>,
    trace: Vec<String>,
    rt: tokio::runtime::Runtime,
    transport: MemoryTransport,
    /// clock could not be pinned down (machine stall): drop the scenario, never report it
    clock_unsure: bool,
    crashes: usize,
    /// the op being executed (its line is appended to `trace` only when it is done)
    cur: String,
}

fn tmp_dir() -> tempfile::TempDir {
    if Path::new("/dev/shm").is_dir() {
        tempfile::tempdir_in("/dev/shm").unwrap()
    } else {
        tempfile::tempdir().unwrap()
    }
}

fn new_coord(path: &Path, timeout: u64, maxc: usize) -> (DistributedTxCoordinator, Result<Vec<TxWalEntry>, String>, u64) {
    let wal = TxWal::open_with_config(path, wal_cfg()).expect("open wal");
    let len_after_open = std::fs::metadata(path).map(|m| m.len()).unwrap_or(0);
    let replayed = wal.replay().map_err(|e| e.to_string());
    let cfg = DistributedTxConfig { prepare_timeout_ms: timeout, max_concurrent: maxc, ..DistributedTxConfig::default() };
    let c = DistributedTxCoordinator::new(ConsensusManager::new(ConsensusConfig::default()), cfg).with_wal(wal);
    (c, replayed, len_after_open)
}

impl World {
    fn new(timeout: u64, maxc: usize, m: &mut Model) -> World {
        let dir = tmp_dir();
        let path = dir.path().join("tx.wal");
        let (c, _, _) = new_coord(&path, timeout, maxc);
        m.ask(&format!("new {timeout} {maxc}"));
        World {
            _dir: dir,
            path,
            coord: Some(c),
            timeout,
            maxc,
            book: Book::default(),
            defined: HashSet::new(),
            trace: vec![format!("new {timeout} {maxc}")],
            rt: tokio::runtime::Builder::new_current_thread().enable_all().build().unwrap(),
            transport: MemoryTransport::new("coord".to_string()),
            clock_unsure: false,
            crashes: 0,
            cur: String::new(),
        }
    }

    fn c(&self) -> &DistributedTxCoordinator {
        self.coord.as_ref().unwrap()
    }

    fn file(&self) -> Vec<u8> {
        std::fs::read(&self.path).unwrap_or_default()
    }

    /// teach the model every payload of `bytes[from..]`; returns tokens with end offsets
    fn learn(&mut self, bytes: &[u8], from: usize, m: &mut Model) -> Vec<Rec> {
        let mut out = vec![];
        for (_, end, p) in frames(bytes, from) {
            let token = match bitcode::deserialize::<TxWalEntry>(&p) {
                Ok(e) => self.book.token(&e),
                Err(_) => "?".to_string(),
            };
            if token != "?" && self.defined.insert(p.clone()) {
                m.ask(&format!("def {} {}", hex(&p), token));
            }
            out.push(Rec { token, end });
        }
        out
    }

    fn digest(&self) -> String {
        let c = self.c();
        let mut ps = vec![];
        let mut ids: Vec<(u64, u64)> = self.book.txs.iter().enumerate().map(|(i, t)| (i as u64 + 1, t.real)).collect();
        ids.push((FAKE_TX_C, FAKE_TX_REAL));
        let mut found = 0;
        for (cid, real) in ids {
            if let Some(tx) = c.get(real) {
                found += 1;
                let mut vs: Vec<(usize, String)> = tx
                    .votes
                    .iter()
                    .map(|(s, v)| {
                        (
                            *s,
                            match v {
                                PrepareVote::Yes { lock_handle, .. } => format!("y{}", self.book.h_c(*lock_handle)),
                                PrepareVote::No { .. } => "n".to_string(),
                                PrepareVote::Conflict { .. } => "c".to_string(),
                                _ => "?".to_string(),
                            },
                        )
                    })
                    .collect();
                vs.sort();
                let vstr = if vs.is_empty() {
                    "-".to_string()
                } else {
                    vs.iter().map(|(s, v)| format!("{s}.{v}")).collect::<Vec<_>>().join("/")
                };
                ps.push(format!("{cid}:{}:{}:{vstr}:{}", phase_num(tx.phase), show_list(&tx.participants), tx.timeout_ms));
            }
        }
        let extra = if found != c.pending_count() { format!("?count{}", c.pending_count()) } else { String::new() };
        let mut ls: Vec<(u64, u64)> = vec![];
        for (i, h) in self.book.handles.iter().enumerate() {
            if let Some(holder) = c.lock_manager().lock_holder(&h.key) {
                ls.push((self.book.tx_c(holder), i as u64 + 1));
            }
        }
        ls.sort();
        format!(
            "pending=[{}]{extra} locks=[{}]",
            ps.join(";"),
            ls.iter().map(|(t, h)| format!("{t}.{h}")).collect::<Vec<_>>().join(";")
        )
    }

    /// started_at / timeout of everything pending, for the clock guard
    fn pending_clocks(&self) -> Vec<(u64, u64)> {
        let c = self.c();
        let mut v = vec![];
        for t in &self.book.txs {
            if let Some(tx) = c.get(t.real) {
                v.push((tx.started_at, tx.timeout_ms));
            }
        }
        v
    }
}

struct Ctx<'a> {
    m: &'a mut Model,
    rep: &'a mut Report,
    stream_prefix: &'a str,
}

fn violation(cx: &mut Ctx, w: &World, class: &str, what: &str, extra: Value) {
    cx.rep.violation(class, what, json!({"trace": w.trace, "during": w.cur, "detail": extra}));
}

/// run one op on the real coordinator and on the model; compare; evaluate oracles
fn exec(w: &mut World, op: &Op, cx: &mut Ctx) {
    if w.clock_unsure {
        return;
    }
    let before_len = w.book.file_len;
    w.cur = format!("{op:?}");
    let stream = format!("{}coord.op", cx.stream_prefix);
    let mut strip = false;
    let (line, impl_res): (String, String) = match op {
        Op::Begin { parts, xflag } => {
            cx.rep.hit("op.begin");
            match w.c().begin(&"n1".to_string(), parts) {
                Ok(tx) => {
                    w.book.txs.push(TxInfo {
                        real: tx.tx_id,
                        parts: parts.clone(),
                        xflag: *xflag,
                        accepted: BTreeMap::new(),
                        rejected_logged: false,
                        yes_count: 0,
                    });
                    (format!("begin {} {} {}", w.book.txs.len(), show_list(parts), tx.started_at), "ok".into())
                }
                Err(_) => {
                    cx.rep.hit("res.too_many");
                    (format!("begin {} {} {}", w.book.txs.len() + 1, show_list(parts), now_ms()), "too_many".into())
                }
            }
        }
        Op::Vote { t, shard, v } => {
            cx.rep.hit("op.vote");
            let real = w.book.tx_real(*t);
            let can = w.book.tx_can(*t);
            let xflag = w.book.txs.get(*t).map(|x| x.xflag).unwrap_or(false);
            let delta = || {
                if xflag {
                    DeltaVector::new(&[1.0, 0.0], ["shared".to_string()].into_iter().collect(), real)
                } else {
                    DeltaVector::zero(0)
                }
            };
            let (vote, vstr) = match v {
                V::YesLocked => {
                    // a real lock on a fresh key, as `handle_prepare` would take it
                    w.book.key_seq += 1;
                    let key = format!("k{}", w.book.key_seq);
                    let h = w.c().lock_manager().try_lock(real, &[key.clone()]).expect("fresh key");
                    w.book.handles.push(HandleInfo { real: h, key, tx_c: can });
                    let hc = w.book.handles.len() as u64;
                    let la = cx.m.ask(&format!("lock {can} {hc}"));
                    w.trace.push(format!("lock {can} {hc}"));
                    let d = w.digest();
                    cx.rep.compare(&stream, || json!({"trace": w.trace}), &format!("ok | - | {d}"), &canon_model_answer(&la, false));
                    cx.rep.hit("vote.yes_locked");
                    (PrepareVote::Yes { lock_handle: h, delta: delta() }, format!("y{hc}"))
                }
                V::YesFake(k) => {
                    cx.rep.hit("vote.yes_fake");
                    (PrepareVote::Yes { lock_handle: FAKE_H_REAL + k, delta: delta() }, format!("y{}", FAKE_H_C + k))
                }
                V::No => {
                    cx.rep.hit("vote.no");
                    (PrepareVote::No { reason: "no".into() }, "n".to_string())
                }
                V::Conflict => {
                    cx.rep.hit("vote.conflict");
                    (PrepareVote::Conflict { similarity: 1.0, conflicting_tx: 1 }, "c".to_string())
                }
            };
            let is_yes = vstr.starts_with('y');
            let r = w.c().record_vote(real, *shard, vote);
            let res = match &r {
                Ok(Some(p)) => format!("phase{}", phase_num(*p)),
                Ok(None) => "voted".to_string(),
                Err(VoteRecordError::TxNotFound(_)) => "not_found".to_string(),
                Err(VoteRecordError::WrongPhase { actual, .. }) => format!("wrong_phase{}", phase_num(*actual)),
                Err(VoteRecordError::DuplicateVote { .. }) => "duplicate".to_string(),
            };
            cx.rep.hit(&format!("res.vote.{}", res.trim_end_matches(char::is_numeric)));
            let mut xbit = 0;
            if let Some(ti) = w.book.txs.get_mut(*t) {
                if r.is_ok() {
                    ti.accepted.insert(*shard, vstr.clone());
                    if is_yes {
                        ti.yes_count += 1;
                    }
                    if ti.xflag && ti.yes_count >= 2 {
                        xbit = 1;
                    }
                } else {
                    ti.rejected_logged = true;
                }
            }
            (format!("vote {can} {shard} {vstr} {xbit}"), res)
        }
        Op::Commit(t) | Op::Abort(t) | Op::CCommit(t) | Op::CAbort(t) => {
            strip = true;
            let real = w.book.tx_real(*t);
            let can = w.book.tx_can(*t);
            let (name, r) = match op {
                Op::Commit(_) => ("commit", w.c().commit(real)),
                Op::Abort(_) => ("abort", w.c().abort(real, "requested")),
                Op::CCommit(_) => ("ccommit", w.c().complete_commit(real)),
                _ => ("cabort", w.c().complete_abort(real)),
            };
            cx.rep.hit(&format!("op.{name}"));
            let res = match &r {
                Ok(()) => "ok".to_string(),
                Err(e) => {
                    let s = e.to_string();
                    if s.contains("not found") {
                        "not_found".to_string()
                    } else if s.contains("phase") {
                        "wrong_phase".to_string()
                    } else {
                        format!("err:{s}")
                    }
                }
            };
            cx.rep.hit(&format!("res.{name}.{res}"));
            // oracle: a logged outcome is final
            if let Some(o) = w.book.durable.get(&can).copied() {
                if r.is_ok() {
                    let new = if name.ends_with("commit") { 'c' } else { 'a' };
                    let kind = if new != o { "logged_outcome_reversed" } else { "completed_twice" };
                    violation(cx, w, &format!("tensor_chain.distributed_tx.{name}/{kind}"),
                        "a transaction whose TxComplete record is in the log was completed again",
                        json!({"tx": can, "logged": o.to_string(), "now": new.to_string()}));
                }
            }
            // oracle: completion releases the locks of every accepted YES vote
            if r.is_ok() {
                if let Some(ti) = w.book.txs.get(*t) {
                    for v in ti.accepted.values() {
                        if let Some(hc) = v.strip_prefix('y').and_then(|x| x.parse::<usize>().ok()) {
                            if hc >= 1 && hc <= w.book.handles.len() && w.c().lock_manager().is_locked(&w.book.handles[hc - 1].key) {
                                // a rejected vote replayed from the WAL (recover_from_wal on the live coordinator) may
                                // have overwritten the accepted one: same root cause, same class
                                let class = if ti.rejected_logged {
                                    "tensor_chain.tx_wal.scan_entries/rejected_vote_recovered".to_string()
                                } else {
                                    format!("tensor_chain.distributed_tx.{name}/lock_left_behind")
                                };
                                violation(cx, w, &class,
                                    "lock of an accepted YES vote still held after completion", json!({"tx": can, "handle": hc}));
                            }
                        }
                    }
                }
            }
            (format!("{name} {can}"), res)
        }
        Op::Cleanup => {
            cx.rep.hit("op.cleanup");
            // pin the clock: every pending tx must be clearly inside or clearly outside its timeout
            let mut t0 = now_ms();
            for _ in 0..200 {
                let unsure = w.pending_clocks().iter().any(|(s, to)| {
                    let el = t0.saturating_sub(*s);
                    el + GUARD_MS > *to && el <= *to + GUARD_MS
                });
                if !unsure {
                    break;
                }
                std::thread::sleep(Duration::from_millis(GUARD_MS + 5));
                t0 = now_ms();
            }
            let clocks = w.pending_clocks();
            let ids = w.c().cleanup_timeouts();
            let t1 = now_ms();
            if clocks.iter().any(|(s, to)| (t0.saturating_sub(*s) > *to) != (t1.saturating_sub(*s) > *to)) {
                w.clock_unsure = true;
                cx.rep.hit("clock.unsure_dropped");
                return;
            }
            let mut cs: Vec<u64> = ids.iter().map(|r| w.book.tx_c(*r)).collect();
            cs.sort_unstable();
            if !cs.is_empty() {
                cx.rep.hit("res.cleanup.timed_out_some");
            }
            for cid in &cs {
                if let Some(o) = w.book.durable.get(cid) {
                    violation(cx, w, "tensor_chain.distributed_tx.cleanup_timeouts/logged_outcome_reversed",
                        "a transaction with a logged outcome was timed out", json!({"tx": cid, "logged": o.to_string()}));
                }
                // locks of its accepted YES votes must be gone
                if let Some(ti) = w.book.txs.get(*cid as usize - 1) {
                    for v in ti.accepted.values() {
                        if let Some(hc) = v.strip_prefix('y').and_then(|x| x.parse::<usize>().ok()) {
                            if hc >= 1 && hc <= w.book.handles.len() && w.c().lock_manager().is_locked(&w.book.handles[hc - 1].key) {
                                let class = if ti.rejected_logged {
                                    "tensor_chain.tx_wal.scan_entries/rejected_vote_recovered"
                                } else {
                                    "tensor_chain.distributed_tx.cleanup_timeouts/lock_left_behind"
                                };
                                violation(cx, w, class,
                                    "lock of an accepted YES vote still held after timeout", json!({"tx": cid, "handle": hc}));
                            }
                        }
                    }
                }
            }
            let s = if cs.is_empty() { "-".to_string() } else { cs.iter().map(|x| x.to_string()).collect::<Vec<_>>().join(",") };
            (format!("cleanup {t0}"), format!("timed_out:{s}"))
        }
        Op::Flush => {
            cx.rep.hit("op.flush");
            let c = w.coord.as_ref().unwrap();
            w.rt.block_on(c.process_pending_aborts(&w.transport as &dyn Transport));
            ("flush".to_string(), "flushed".to_string())
        }
        Op::RecoverLive => {
            cx.rep.hit("op.recover_live");
            let t0 = now_ms();
            let r = w.c().recover_from_wal();
            let res = match r {
                Ok(s) => format!("recovered:{}:{}:{}:{}", s.pending_prepare, s.pending_commit, s.pending_abort, s.lock_releases_recovered),
                Err(e) => format!("err:{e}"),
            };
            if now_ms().saturating_sub(t0) > GUARD_MS / 2 {
                w.clock_unsure = true;
                return;
            }
            (format!("recover_live {t0}"), res)
        }
        Op::Sleep(ms) => {
            std::thread::sleep(Duration::from_millis(*ms));
            return;
        }
        Op::Crash { cut, timeout, maxc } => {
            crash(w, cut, *timeout, *maxc, cx);
            return;
        }
    };
    w.trace.push(line.clone());
    // records appended by this call
    let bytes = w.file();
    let recs = w.learn(&bytes, before_len, cx.m);
    let toks: Vec<String> = recs.iter().map(|r| r.token.clone()).collect();
    for r in &recs {
        cx.rep.hit(&format!("wal.{}", &r.token[..1]));
        if let Some(rest) = r.token.strip_prefix("C:") {
            let mut it = rest.split(':');
            let cid: u64 = it.next().unwrap_or("0").parse().unwrap_or(0);
            let o = it.next().unwrap_or("?").chars().next().unwrap_or('?');
            if let Some(prev) = w.book.durable.get(&cid) {
                if *prev != o {
                    violation(cx, w, "tensor_chain.tx_wal.log/two_outcomes_logged",
                        "the log holds TxComplete records with both outcomes for one transaction", json!({"tx": cid}));
                }
            }
            w.book.durable.insert(cid, o);
        }
    }
    if let Some(last) = recs.last() {
        if last.end != bytes.len() {
            cx.rep.note("a call left an incomplete frame at the end of the WAL");
        }
    }
    w.book.file_len = bytes.len();
    w.book.recs.extend(recs);
    let mut impl_ans = format!("{impl_res} | {} | {}", canon_runs(&toks), w.digest());
    let mut model_ans = canon_model_answer(&cx.m.ask(&line), strip);
    if matches!(op, Op::Flush) {
        // the abort queue is private: compare what the flush wrote, not the count
        impl_ans = impl_ans.replacen("flushed", &format!("flushed:{}", toks.len()), 1);
        let _ = &mut model_ans;
    }
    cx.rep.compare(&stream, || json!({"trace": w.trace}), &impl_ans, &model_ans);
}

fn resolve_cut(w: &World, cut: &Cut, len: usize) -> usize {
    match cut {
        Cut::Full => len,
        Cut::Exact(n) => (*n).min(len),
        Cut::Frac(pm) => (len as u64 * *pm / 1000) as usize,
        Cut::Boundary { back, delta } => {
            let ends: Vec<usize> = std::iter::once(0).chain(w.book.recs.iter().map(|r| r.end)).collect();
            let idx = ends.len().saturating_sub(1 + *back);
            let b = ends[idx] as i64 + *delta;
            b.clamp(0, len as i64) as usize
        }
    }
}

/// kill the process image, cut the file, start a new coordinator on it, recover
fn crash(w: &mut World, cut: &Cut, timeout: u64, maxc: usize, cx: &mut Ctx) {
    let pre = w.file();
    let n = resolve_cut(w, cut, pre.len());
    restart_at(w, &pre, n, timeout, maxc, cx);
}

fn restart_at(w: &mut World, pre: &[u8], n: usize, timeout: u64, maxc: usize, cx: &mut Ctx) {
    w.coord = None; // drop: BufWriter has nothing buffered (every append flushes + fsyncs)
    w.crashes += 1;
    let cutb = &pre[..n];
    std::fs::write(&w.path, cutb).unwrap();
    // what must survive: every record the harness saw appended whose last byte is before the cut
    let expect: Vec<Rec> = w.book.recs.iter().filter(|r| r.end <= n).cloned().collect();
    let at_boundary = n == 0 || w.book.recs.iter().any(|r| r.end == n) || frames(cutb, 0).last().map(|f| f.1) == Some(n);
    let whole = frames(cutb, 0).last().map(|f| f.1).unwrap_or(0);
    let torn_now = whole != n;
    cx.rep.hit(if torn_now { "cut.torn" } else { "cut.boundary" });
    let _ = at_boundary;
    w.trace.push(format!("crash cut={n}/{} (whole-frame prefix {whole}) timeout={timeout} maxc={maxc}", pre.len()));

    // model: classification of the raw cut bytes, valid_len, then restart
    cx.m.ask(&format!("new {timeout} {maxc}"));
    let hexb = hex(cutb);
    let m_class = cx.m.ask(&format!("recover {hexb}"));
    let m_vlen = cx.m.ask(&format!("valid_len {hexb}"));

    let t0 = now_ms();
    let (c, replayed, len_after_open) = new_coord(&w.path, timeout, maxc);
    w.coord = Some(c);
    w.timeout = timeout;
    w.maxc = maxc;
    let sp = cx.stream_prefix;
    cx.rep.compare(&format!("{sp}wal.valid_len"), || json!({"trace": w.trace}), &len_after_open.to_string(), &m_vlen);

    // classification straight from the WAL (a second handle on the same file, read only)
    let class_impl = {
        let wal2 = TxWal::open_with_config(&w.path, wal_cfg()).unwrap();
        match TxRecoveryState::from_wal(&wal2) {
            Ok(st) => show_recovery(&st, &w.book),
            Err(_) => "err checksum".to_string(),
        }
    };
    cx.rep.compare(&format!("{sp}recover.class"), || json!({"trace": w.trace, "bytes": hexb}), &class_impl, &m_class);

    let rec = w.c().recover_from_wal();
    let t1 = now_ms();
    if t1.saturating_sub(t0) > GUARD_MS / 2 {
        w.clock_unsure = true;
        cx.rep.hit("clock.unsure_dropped");
        return;
    }
    let m_restart = cx.m.ask(&format!("restart {hexb} {t0}"));
    let log_tokens: Result<Vec<String>, String> = replayed.map(|es| es.iter().map(|e| w.book.token(e)).collect());
    let impl_restart = match (&rec, &log_tokens) {
        (Ok(_), Ok(toks)) => format!("ok | {} | {}", if toks.is_empty() { "-".to_string() } else { toks.join(" ") }, w.digest()),
        _ => "err checksum".to_string(),
    };
    let model_restart = {
        let parts: Vec<&str> = m_restart.splitn(3, " | ").collect();
        if parts.len() == 3 {
            format!("{} | {} | {}", parts[0], parts[1], parts[2].split(" aborts=").next().unwrap_or(""))
        } else {
            m_restart.clone()
        }
    };
    cx.rep.compare(&format!("{sp}coord.restart"), || json!({"trace": w.trace, "bytes": hexb}), &impl_restart, &model_restart);

    // ---- oracle: acknowledged records survive (this is what the torn-tail defect breaks)
    let expect_toks: Vec<String> = expect.iter().map(|r| r.token.clone()).collect();
    let got = log_tokens.clone().unwrap_or_default();
    if rec.is_err() || log_tokens.is_err() || got != expect_toks {
        let class = if w.book.torn_tail_seen {
            "tensor_chain.tx_wal.open/append_after_torn_tail"
        } else {
            "tensor_chain.tx_wal.replay/acknowledged_record_lost"
        };
        let lost: Vec<&String> = expect_toks.iter().filter(|t| !got.contains(t)).collect();
        violation(cx, w, class,
            "records appended (fsynced, acknowledged) before the cut are not what replay returns after restart",
            json!({"expected": expect_toks, "replayed": got, "lost": lost, "recover_err": rec.as_ref().err().map(|e| e.to_string())}));
    }
    if torn_now {
        w.book.torn_tail_seen = true;
    }
    // the file now: after a correct open the torn tail is gone
    w.book.recs = expect;
    w.book.file_len = len_after_open as usize;
    if len_after_open as usize != whole {
        // pre-fix behaviour: garbage stays; later appends go after it
        w.book.file_len = n;
    }
    // durable outcomes = TxComplete records that survived
    w.book.durable.clear();
    for r in &w.book.recs {
        if let Some(rest) = r.token.strip_prefix("C:") {
            let mut it = rest.split(':');
            let cid: u64 = it.next().unwrap_or("0").parse().unwrap_or(0);
            let o = it.next().unwrap_or("?").chars().next().unwrap_or('?');
            w.book.durable.insert(cid, o);
        }
    }
    if rec.is_err() {
        return;
    }
    // ---- oracles on the recovered coordinator, from the surviving records alone
    let surv: Vec<String> = w.book.recs.iter().map(|r| r.token.clone()).collect();
    for (i, ti) in w.book.txs.clone().iter().enumerate() {
        let cid = i as u64 + 1;
        let mine: Vec<&String> = surv.iter().filter(|t| t.split(':').nth(1) == Some(&cid.to_string())).collect();
        let begun = mine.iter().any(|t| t.starts_with("B:"));
        let completed = mine.iter().find(|t| t.starts_with("C:")).map(|t| t.chars().last().unwrap());
        let last_phase = mine.iter().filter(|t| t.starts_with("P:")).last().map(|t| t.rsplit(':').next().unwrap().to_string());
        let got = w.c().get(ti.real);
        let held = w.c().lock_manager().lock_count_for_transaction(ti.real) + w.c().lock_manager().keys_for_transaction(ti.real).len();
        if let Some(o) = completed {
            cx.rep.hit("restart.tx.completed");
            if got.is_some() {
                violation(cx, w, "tensor_chain.distributed_tx.recover_from_wal/completed_tx_resurrected",
                    "a transaction with a logged outcome is pending again after restart", json!({"tx": cid, "logged": o.to_string()}));
            }
            if held != 0 {
                violation(cx, w, "tensor_chain.distributed_tx.recover_from_wal/completed_tx_holds_locks",
                    "completed transaction holds locks after restart", json!({"tx": cid}));
            }
        } else if !begun || last_phase.is_none() {
            cx.rep.hit(if begun { "restart.tx.forgotten" } else { "restart.tx.never_logged" });
            if got.is_some() {
                violation(cx, w, "tensor_chain.distributed_tx.recover_from_wal/preparing_tx_not_forgotten",
                    "a transaction still collecting votes is pending after restart", json!({"tx": cid}));
            }
            if held != 0 {
                violation(cx, w, "tensor_chain.distributed_tx.recover_from_wal/forgotten_tx_holds_locks",
                    "forgotten transaction holds locks after restart", json!({"tx": cid}));
            }
        } else if last_phase.as_deref() == Some("1") {
            cx.rep.hit("restart.tx.prepared");
            match got {
                None => violation(cx, w, "tensor_chain.distributed_tx.recover_from_wal/prepared_tx_lost",
                    "a prepared transaction without outcome is gone after restart", json!({"tx": cid})),
                Some(tx) => {
                    let mut vs: BTreeMap<usize, String> = BTreeMap::new();
                    for (s, v) in &tx.votes {
                        vs.insert(*s, match v {
                            PrepareVote::Yes { lock_handle, .. } => format!("y{}", w.book.h_c(*lock_handle)),
                            _ => "n".to_string(),
                        });
                    }
                    let want: BTreeMap<usize, String> =
                        ti.accepted.iter().map(|(s, v)| (*s, if v == "c" { "n".to_string() } else { v.clone() })).collect();
                    if tx.phase != TxPhase::Prepared || tx.participants != ti.parts {
                        violation(cx, w, "tensor_chain.distributed_tx.recover_from_wal/prepared_tx_altered",
                            "prepared transaction came back with another phase / participants", json!({"tx": cid}));
                    }
                    if vs != want {
                        let class = if ti.rejected_logged {
                            "tensor_chain.tx_wal.scan_entries/rejected_vote_recovered"
                        } else {
                            "tensor_chain.distributed_tx.recover_from_wal/prepared_votes_differ"
                        };
                        violation(cx, w, class,
                            "prepared transaction came back with votes that differ from the votes the coordinator had accepted",
                            json!({"tx": cid, "accepted": want, "recovered": vs}));
                    }
                }
            }
        } else {
            cx.rep.hit("restart.tx.deciding");
        }
    }
    if w.c().lock_manager().active_lock_count() != 0 {
        violation(cx, w, "tensor_chain.distributed_tx.recover_from_wal/locks_after_restart",
            "lock table not empty after restart", json!({}));
    }
    // after a restart nothing the old process accepted in memory is left except what was recovered
    for ti in w.book.txs.iter_mut() {
        ti.yes_count = 0;
    }
}

fn show_recovery(st: &TxRecoveryState, b: &Book) -> String {
    let show = |v: &Vec<tensor_chain::RecoveredPreparedTx>| {
        let mut xs: Vec<(u64, String)> = v
            .iter()
            .map(|r| {
                let votes = if r.votes.is_empty() {
                    "-".to_string()
                } else {
                    r.votes
                        .iter()
                        .map(|(s, k)| match k {
                            PrepareVoteKind::Yes { lock_handle } => format!("{s}.y{}", b.h_c(*lock_handle)),
                            _ => format!("{s}.n"),
                        })
                        .collect::<Vec<_>>()
                        .join("/")
                };
                (b.tx_c(r.tx_id), format!("{}:{}:{}", b.tx_c(r.tx_id), show_list(&r.participants), votes))
            })
            .collect();
        xs.sort();
        format!("[{}]", xs.into_iter().map(|x| x.1).collect::<Vec<_>>().join(";"))
    };
    let mut orph: Vec<(u64, u64)> = st.orphaned_locks.iter().map(|o| (b.tx_c(o.tx_id), b.h_c(o.lock_handle))).collect();
    orph.sort();
    let mut ints: Vec<(u64, String)> = st
        .pending_abort_intents
        .iter()
        .map(|i| (b.tx_c(i.tx_id), format!("{}:{}:{}", b.tx_c(i.tx_id), i.reason.replace(' ', "_"), show_list(&i.shards))))
        .collect();
    ints.sort();
    format!(
        "prepared={} committing={} aborting={} orphans=[{}] intents=[{}]",
        show(&st.prepared_txs),
        show(&st.committing_txs),
        show(&st.aborting_txs),
        orph.iter().map(|(t, h)| format!("{t}.{h}")).collect::<Vec<_>>().join(";"),
        ints.into_iter().map(|x| x.1).collect::<Vec<_>>().join(";")
    )
}

// ------------------------------------------------------------------ generators

/// the life of one transaction, as a list of ops on tx index `t`
fn plan(r: &mut Rng, t: usize) -> (Op, Vec<Op>) {
    let np = 1 + r.below(3) as usize;
    let mut parts: Vec<usize> = (0..np).collect();
    if r.chance(1, 8) {
        parts = vec![3, 1];
    }
    let xflag = np >= 2 && r.chance(1, 7);
    let begin = Op::Begin { parts: parts.clone(), xflag };
    let mut ops = vec![];
    let style = r.below(12);
    let yes = |r: &mut Rng| if r.chance(4, 5) { V::YesLocked } else { V::YesFake(r.below(3)) };
    match style {
        0 => {}                              // begun, never voted
        1 => {                               // some votes only
            ops.push(Op::Vote { t, shard: parts[0], v: yes(r) });
        }
        2 | 3 => {                           // a NO / conflict vote among them
            for (i, s) in parts.iter().enumerate() {
                let v = if i == parts.len() - 1 { if r.chance(1, 2) { V::No } else { V::Conflict } } else { yes(r) };
                ops.push(Op::Vote { t, shard: *s, v });
            }
        }
        _ => {                               // all YES, with duplicate / late / foreign votes sprinkled in
            for s in &parts {
                ops.push(Op::Vote { t, shard: *s, v: yes(r) });
                if r.chance(1, 6) {
                    let v = match r.below(3) { 0 => V::No, 1 => yes(r), _ => V::Conflict };
                    ops.push(Op::Vote { t, shard: *s, v });
                }
            }
            if r.chance(1, 6) {
                let v = match r.below(3) { 0 => V::No, 1 => yes(r), _ => V::Conflict };
                ops.push(Op::Vote { t, shard: *r.pick(&parts), v });
            }
            if r.chance(1, 10) {
                ops.push(Op::Vote { t, shard: 7, v: V::No });
            }
        }
    }
    match r.below(10) {
        0..=3 => ops.push(Op::Commit(t)),
        4..=5 => ops.push(Op::Abort(t)),
        6 => {
            ops.push(Op::Commit(t));
            ops.push(Op::Abort(t));
        }
        7 => {
            ops.push(Op::Abort(t));
            ops.push(Op::Commit(t));
        }
        _ => {}
    }
    (begin, ops)
}

/// interleave the plans of `n` transactions, with global ops sprinkled in
fn gen_phase(r: &mut Rng, first_t: usize, n: usize, allow_timeouts: bool) -> Vec<Op> {
    let mut queues: Vec<Vec<Op>> = vec![];
    for i in 0..n {
        let (b, mut rest) = plan(r, first_t + i);
        rest.insert(0, b);
        queues.push(rest);
    }
    // begins must happen in index order so that `t` means what the plan meant
    let mut out = vec![];
    let mut begun = 0;
    loop {
        let live: Vec<usize> = (0..queues.len()).filter(|i| !queues[*i].is_empty() && (*i <= begun)).collect();
        if live.is_empty() {
            break;
        }
        let i = *r.pick(&live);
        let op = queues[i].remove(0);
        if matches!(op, Op::Begin { .. }) {
            if i != begun {
                queues[i].insert(0, op);
                continue;
            }
            begun += 1;
        }
        out.push(op);
        match r.below(40) {
            0 => out.push(Op::Flush),
            1 if allow_timeouts => out.push(Op::Cleanup),
            2 => out.push(Op::RecoverLive),
            3 => out.push(Op::Vote { t: 99, shard: 0, v: V::No }),
            4 => out.push(Op::Commit(99)),
            _ => {}
        }
    }
    out
}

/// ops a restarted coordinator is hit with: every transaction is prodded in every way
fn gen_after(r: &mut Rng, known: usize) -> Vec<Op> {
    let mut out = vec![];
    let k = 2 + r.below(6);
    for _ in 0..k {
        let t = r.below(known.max(1) as u64) as usize;
        out.push(match r.below(11) {
            0 | 1 => Op::Commit(t),
            2 | 3 => Op::Abort(t),
            4 => Op::CCommit(t),
            5 => Op::CAbort(t),
            6 => Op::Cleanup,
            7 => Op::RecoverLive,
            8 => Op::Flush,
            9 => Op::Vote { t, shard: r.below(3) as usize, v: if r.chance(1, 2) { V::No } else { V::YesFake(2) } },
            _ => Op::Cleanup,
        });
    }
    out
}

fn gen_cut(r: &mut Rng) -> Cut {
    match r.below(10) {
        0 => Cut::Full,
        1..=6 => Cut::Boundary { back: r.below(6) as usize, delta: *r.pick(&[0i64, 0, -1, 1, -3, 3, -7, 7]) },
        _ => Cut::Frac(r.below(1001)),
    }
}

fn pick_timeout(r: &mut Rng) -> u64 {
    match r.below(8) {
        0 => 0,
        _ => NEVER_MS,
    }
}

/// finish every pending transaction, restart cleanly, and require the outcomes to have stuck
fn drain_and_verify(w: &mut World, cx: &mut Ctx, r: &mut Rng) {
    if w.clock_unsure {
        return;
    }
    let n = w.book.txs.len();
    let mut decided: BTreeMap<u64, char> = BTreeMap::new();
    for t in 0..n {
        let real = w.book.txs[t].real;
        if let Some(tx) = w.c().get(real) {
            let op = match tx.phase {
                TxPhase::Prepared => if r.chance(1, 2) { Op::Commit(t) } else { Op::Abort(t) },
                TxPhase::Committing => if r.chance(2, 3) { Op::CCommit(t) } else { Op::Abort(t) },
                _ => Op::Abort(t),
            };
            let was_prepared = tx.phase == TxPhase::Prepared;
            exec(w, &op, cx);
            if w.clock_unsure {
                return;
            }
            if w.c().get(real).is_some() {
                if was_prepared {
                    violation(cx, w, "tensor_chain.distributed_tx.commit/prepared_tx_cannot_complete",
                        "a (recovered) prepared transaction could not be driven to completion", json!({"tx": t + 1}));
                }
            } else {
                match op {
                    Op::Commit(_) => { decided.insert(t as u64 + 1, 'c'); }
                    Op::Abort(_) => { decided.insert(t as u64 + 1, 'a'); }
                    _ => {}
                }
            }
        }
    }
    if w.crashes >= 3 {
        return;
    }
    let to = w.timeout;
    let mc = w.maxc;
    exec(w, &Op::Crash { cut: Cut::Full, timeout: to, maxc: mc }, cx);
    if w.clock_unsure {
        return;
    }
    for (cid, o) in &decided {
        if w.book.durable.get(cid) != Some(o) {
            violation(cx, w, "tensor_chain.tx_wal.replay/decision_lost",
                "a decision logged after recovery is not in the log after a clean restart", json!({"tx": cid, "decided": o.to_string()}));
        }
        let real = w.book.txs[*cid as usize - 1].real;
        if w.c().get(real).is_some() {
            violation(cx, w, "tensor_chain.distributed_tx.recover_from_wal/completed_tx_resurrected",
                "a completed transaction is pending after a clean restart", json!({"tx": cid}));
        }
    }
}

/// one scenario: phase A, then up to three crashes with activity in between
fn scenario(seed_rng: &mut Rng, cx: &mut Ctx, first_cuts: Option<&mut Vec<usize>>, all_cuts: bool) -> (u64, bool) {
    let mut r = seed_rng.clone();
    let ntx = 1 + r.below(4) as usize;
    let timeout_a = pick_timeout(&mut r);
    let maxc = if r.chance(1, 10) { 2 } else { 100 };
    let phase_a = gen_phase(&mut r, 0, ntx, timeout_a == 0);
    let mut cases = 0u64;
    let mut nontrivial = false;

    // run phase A once to learn the file, then explore cuts of it
    let mut w = World::new(timeout_a, maxc, cx.m);
    for op in &phase_a {
        exec(&mut w, op, cx);
    }
    if w.clock_unsure {
        return (0, false);
    }
    let file_a = w.file();
    let book_a = w.book.clone();
    let trace_a = w.trace.clone();
    let ends: Vec<usize> = std::iter::once(0).chain(book_a.recs.iter().map(|x| x.end)).collect();
    let mut cuts: Vec<usize> = vec![];
    if all_cuts {
        cuts = (0..=file_a.len()).collect();
    } else {
        for e in &ends {
            for d in [0i64, -1, 1, -3, 3, -7, 7] {
                let c = *e as i64 + d;
                if c >= 0 && c as usize <= file_a.len() {
                    cuts.push(c as usize);
                }
            }
        }
        for _ in 0..4 {
            cuts.push(r.below(file_a.len() as u64 + 1) as usize);
        }
        cuts.sort_unstable();
        cuts.dedup();
        // quick tier: a sample of them per scenario
        let keep = 10usize;
        if cuts.len() > keep {
            r.shuffle(&mut cuts);
            cuts.truncate(keep);
            cuts.push(file_a.len());
            cuts.sort_unstable();
            cuts.dedup();
        }
    }
    if let Some(fc) = first_cuts {
        *fc = cuts.clone();
    }
    for (ci, n) in cuts.iter().enumerate() {
        let mut rb = r.fork(&format!("cut{ci}"));
        // a fresh world holding phase A's file and bookkeeping
        let dir = tmp_dir();
        let path = dir.path().join("tx.wal");
        std::fs::write(&path, &file_a).unwrap();
        let mut wb = World {
            _dir: dir,
            path,
            coord: None,
            timeout: timeout_a,
            maxc,
            book: book_a.clone(),
            defined: w.defined.clone(),
            trace: trace_a.clone(),
            rt: tokio::runtime::Builder::new_current_thread().enable_all().build().unwrap(),
            transport: MemoryTransport::new("coord".to_string()),
            clock_unsure: false,
            crashes: 0,
            cur: String::new(),
        };
        let t1 = pick_timeout(&mut rb);
        restart_at(&mut wb, &file_a, *n, t1, maxc, cx);
        // activity, second crash, activity, third crash
        let rounds = 1 + rb.below(3);
        for round in 0..rounds {
            let known = wb.book.txs.len();
            for op in gen_after(&mut rb, known) {
                exec(&mut wb, &op, cx);
            }
            let n_more = 1 + rb.below(2) as usize;
            let more = gen_phase(&mut rb, wb.book.txs.len(), n_more, wb.timeout == 0);
            for op in &more {
                exec(&mut wb, op, cx);
            }
            if round + 1 < rounds && wb.crashes < 3 {
                let cut = gen_cut(&mut rb);
                let to = pick_timeout(&mut rb);
                exec(&mut wb, &Op::Crash { cut, timeout: to, maxc }, cx);
            }
        }
        drain_and_verify(&mut wb, cx, &mut rb);
        w.defined.extend(wb.defined.iter().cloned());
        if wb.clock_unsure {
            continue;
        }
        cases += 1;
        let key = wb.trace.join(";");
        let nt = wb.book.recs.iter().any(|x| x.token.starts_with("C:") || x.token.starts_with("P:"));
        nontrivial |= nt;
        cx.rep.case(&format!("{}scenario", cx.stream_prefix), if nt { Some(&key) } else { None });
        cx.rep.hit(&format!("crashes.{}", wb.crashes));
        if cx.rep.samples.len() < 4 && nt && wb.crashes >= 2 {
            cx.rep.sample(json!({"stream": "scenario", "trace": wb.trace}));
        }
    }
    (cases, nontrivial)
}

/// hand-written scripts: the shapes the property statement names
fn directed(cx: &mut Ctx) {
    let yes = V::YesLocked;
    let b2 = Op::Begin { parts: vec![0, 1], xflag: false };
    let scripts: Vec<(&str, Vec<Op>)> = vec![
        ("commit-then-crash-in-every-record", vec![
            b2.clone(), Op::Vote { t: 0, shard: 0, v: yes.clone() }, Op::Vote { t: 0, shard: 1, v: yes.clone() }, Op::Commit(0),
        ]),
        ("abort-prepared", vec![
            b2.clone(), Op::Vote { t: 0, shard: 0, v: yes.clone() }, Op::Vote { t: 0, shard: 1, v: yes.clone() }, Op::Abort(0),
        ]),
        ("duplicate-vote-then-prepared", vec![
            b2.clone(), Op::Vote { t: 0, shard: 0, v: yes.clone() }, Op::Vote { t: 0, shard: 0, v: V::No },
            Op::Vote { t: 0, shard: 1, v: yes.clone() },
        ]),
        ("late-vote-after-prepared", vec![
            b2.clone(), Op::Vote { t: 0, shard: 0, v: yes.clone() }, Op::Vote { t: 0, shard: 1, v: yes.clone() },
            Op::Vote { t: 0, shard: 1, v: V::No },
        ]),
        ("no-vote-aborting-unlogged", vec![
            b2.clone(), Op::Vote { t: 0, shard: 0, v: yes.clone() }, Op::Vote { t: 0, shard: 1, v: V::No }, Op::Flush,
        ]),
        ("cross-shard-conflict", vec![
            Op::Begin { parts: vec![0, 1], xflag: true }, Op::Vote { t: 0, shard: 0, v: yes.clone() }, Op::Vote { t: 0, shard: 1, v: yes.clone() },
            Op::Flush,
        ]),
        ("two-tx-one-committed-one-prepared", vec![
            b2.clone(), Op::Begin { parts: vec![0], xflag: false },
            Op::Vote { t: 0, shard: 0, v: yes.clone() }, Op::Vote { t: 1, shard: 0, v: yes.clone() }, Op::Vote { t: 0, shard: 1, v: yes.clone() },
            Op::Commit(0),
        ]),
    ];
    for (name, ops) in scripts {
        cx.rep.hit(&format!("directed.{name}"));
        let mut w = World::new(NEVER_MS, 100, cx.m);
        for op in &ops {
            exec(&mut w, op, cx);
        }
        let file = w.file();
        for n in 0..=file.len() {
            let dir = tmp_dir();
            let path = dir.path().join("tx.wal");
            let mut wb = World {
                _dir: dir,
                path,
                coord: None,
                timeout: NEVER_MS,
                maxc: 100,
                book: w.book.clone(),
                defined: w.defined.clone(),
                trace: w.trace.clone(),
                rt: tokio::runtime::Builder::new_current_thread().enable_all().build().unwrap(),
                transport: MemoryTransport::new("coord".to_string()),
                clock_unsure: false,
                crashes: 0,
                cur: String::new(),
            };
            restart_at(&mut wb, &file, n, NEVER_MS, 100, cx);
            // prod the transaction in both directions, then a new transaction, then crash again
            // in the middle of what was just written
            let flip = n % 2 == 0;
            exec(&mut wb, &if flip { Op::Abort(0) } else { Op::Commit(0) }, cx);
            exec(&mut wb, &if flip { Op::Commit(0) } else { Op::Abort(0) }, cx);
            exec(&mut wb, &Op::Cleanup, cx);
            let t = wb.book.txs.len();
            exec(&mut wb, &Op::Begin { parts: vec![0], xflag: false }, cx);
            exec(&mut wb, &Op::Vote { t, shard: 0, v: V::YesLocked }, cx);
            exec(&mut wb, &Op::Commit(t), cx);
            exec(&mut wb, &Op::Crash { cut: Cut::Boundary { back: (n % 4) as usize, delta: [0i64, -1, 3, -7][n % 4] }, timeout: NEVER_MS, maxc: 100 }, cx);
            let mut rr = Rng::new(n as u64);
            drain_and_verify(&mut wb, cx, &mut rr);
            w.defined.extend(wb.defined.iter().cloned());
            if !wb.clock_unsure {
                let key = wb.trace.join(";");
                cx.rep.case("directed", Some(&key));
            }
        }
    }
}

/// a recovered transaction gets the fixed 5000 ms timeout: wait it out once
fn directed_timeout_after_restart(cx: &mut Ctx) {
    let mut w = World::new(NEVER_MS, 100, cx.m);
    let ops = vec![
        Op::Begin { parts: vec![0], xflag: false },
        Op::Vote { t: 0, shard: 0, v: V::YesLocked },
        Op::Begin { parts: vec![0], xflag: false },
        Op::Vote { t: 1, shard: 0, v: V::YesLocked },
        Op::Commit(1),
        Op::Crash { cut: Cut::Full, timeout: NEVER_MS, maxc: 100 },
        Op::Sleep(5000 + 2 * GUARD_MS),
        Op::Cleanup,
        Op::Commit(0),
        Op::Abort(1),
        Op::Crash { cut: Cut::Full, timeout: NEVER_MS, maxc: 100 },
        Op::Commit(0),
    ];
    for op in &ops {
        exec(&mut w, op, cx);
    }
    if !w.clock_unsure {
        cx.rep.case("directed", Some(&w.trace.join(";")));
        cx.rep.hit("directed.timeout-after-restart");
        // a timeout is not logged: the prepared transaction is back after the next restart
        if w.book.durable.get(&1) == Some(&'c') && w.trace.iter().any(|l| l.starts_with("cleanup")) {
            cx.rep.observe(json!({"what": "prepared transaction timed out after restart, then committed after the next restart: cleanup_timeouts writes nothing to the WAL, so a timeout is forgotten by a restart (outside C13: only logged outcomes are protected)", "trace": w.trace}));
        }
    }
}

// ------------------------------------------------------------------ direct TxWal stream

fn gen_entry(r: &mut Rng) -> TxWalEntry {
    let tx = 1 + r.below(4);
    match r.below(7) {
        0 => TxWalEntry::TxBegin { tx_id: tx, participants: (0..r.below(4) as usize).collect() },
        1 => TxWalEntry::PrepareVote {
            tx_id: tx,
            shard: r.below(3) as usize,
            vote: if r.chance(2, 3) { PrepareVoteKind::Yes { lock_handle: 1 + r.below(5) } } else { PrepareVoteKind::No },
        },
        2 => {
            let ph = [TxPhase::Preparing, TxPhase::Prepared, TxPhase::Committing, TxPhase::Committed, TxPhase::Aborting, TxPhase::Aborted];
            TxWalEntry::PhaseChange { tx_id: tx, from: *r.pick(&ph), to: *r.pick(&ph) }
        }
        3 => TxWalEntry::TxComplete { tx_id: tx, outcome: if r.chance(1, 2) { TxOutcome::Committed } else { TxOutcome::Aborted } },
        4 => TxWalEntry::LockRelease { tx_id: tx, lock_handle: 1 + r.below(5) },
        5 => TxWalEntry::AllLocksReleased { tx_id: tx },
        _ => TxWalEntry::AbortIntent { tx_id: tx, reason: ["timeout", "participant voted no", ""][r.below(3) as usize].to_string(), shards: (0..r.below(3) as usize).collect() },
    }
}

fn direct_token(e: &TxWalEntry) -> String {
    // ids are already small: identity renaming
    let b = Book::default();
    let raw = |t: u64| t;
    match e {
        TxWalEntry::TxBegin { tx_id, participants } => format!("B:{}:{}", raw(*tx_id), show_list(participants)),
        TxWalEntry::PrepareVote { tx_id, shard, vote } => format!("V:{}:{}:{}", tx_id, shard, match vote {
            PrepareVoteKind::Yes { lock_handle } => format!("y{lock_handle}"),
            _ => "n".into(),
        }),
        TxWalEntry::PhaseChange { tx_id, from, to } => format!("P:{}:{}:{}", tx_id, phase_num(*from), phase_num(*to)),
        TxWalEntry::TxComplete { tx_id, outcome } => format!("C:{}:{}", tx_id, if *outcome == TxOutcome::Committed { "c" } else { "a" }),
        TxWalEntry::LockRelease { tx_id, lock_handle } => format!("L:{tx_id}:{lock_handle}"),
        TxWalEntry::AllLocksReleased { tx_id } => format!("R:{tx_id}"),
        TxWalEntry::AbortIntent { tx_id, reason, shards } => format!("I:{}:{}:{}", tx_id, reason.replace(' ', "_"), show_list(shards)),
        _ => {
            let _ = &b;
            "?".into()
        }
    }
}

fn direct_wal(cx: &mut Ctx, r: &mut Rng, rounds: u64) {
    for _ in 0..rounds {
        let dir = tmp_dir();
        let path = dir.path().join("d.wal");
        let mut expect: Vec<(String, usize)> = vec![]; // token, end offset
        let mut trace: Vec<String> = vec![];
        let mut torn_seen = false;
        let crashes = 1 + r.below(3);
        cx.m.ask("reset_dict");
        let mut defined: HashSet<Vec<u8>> = HashSet::new();
        for round in 0..=crashes {
            let mut wal = TxWal::open_with_config(&path, wal_cfg()).unwrap();
            let len_open = std::fs::metadata(&path).unwrap().len() as usize;
            // replay right after open
            let k = if round == 0 { r.below(6) } else { 1 + r.below(4) };
            for _ in 0..k {
                let e = gen_entry(r);
                let before = std::fs::metadata(&path).unwrap().len() as usize;
                wal.append(&e).unwrap();
                let bytes = std::fs::read(&path).unwrap();
                let p = bitcode::serialize(&e).unwrap();
                let tok = direct_token(&e);
                if tok.contains("::") || tok.ends_with(':') {
                    // empty reason: token would not parse; skip defining (model treats it as undecodable) — avoid
                }
                if defined.insert(p.clone()) {
                    cx.m.ask(&format!("def {} {}", hex(&p), tok));
                }
                // frame layout + crc against the model's own encoder
                let frame = &bytes[before..];
                let m_frame = cx.m.ask(&format!("frame {}", hex(&p)));
                cx.rep.compare("frame", || json!({"payload": hex(&p)}), &hex(frame), &m_frame);
                let m_crc = cx.m.ask(&format!("crc {}", hex(&p)));
                cx.rep.compare("crc", || json!({"payload": hex(&p)}), &crc32fast::hash(&p).to_string(), &m_crc);
                expect.push((tok.clone(), bytes.len()));
                trace.push(format!("append {tok}"));
                cx.rep.hit(&format!("direct.append.{}", &tok[..1]));
            }
            let bytes = std::fs::read(&path).unwrap();
            let rp = wal.replay();
            let impl_rp = match &rp {
                Ok(es) => format!("ok {}", if es.is_empty() { "-".to_string() } else { es.iter().map(direct_token).collect::<Vec<_>>().join(" ") }),
                Err(_) => "err checksum".to_string(),
            };
            let m_rp = cx.m.ask(&format!("replay {}", hex(&bytes)));
            cx.rep.compare("wal.replay", || json!({"trace": trace, "bytes": hex(&bytes)}), &impl_rp, &m_rp);
            // oracle: everything appended and not cut away is replayed, in order
            let want = format!("ok {}", if expect.is_empty() { "-".to_string() } else { expect.iter().map(|x| x.0.clone()).collect::<Vec<_>>().join(" ") });
            if impl_rp != want {
                let class = if torn_seen { "tensor_chain.tx_wal.open/append_after_torn_tail" } else { "tensor_chain.tx_wal.replay/acknowledged_record_lost" };
                cx.rep.violation(class, "TxWal::replay does not return the appended records that lie before the cut",
                    json!({"trace": trace, "expected": want, "replayed": impl_rp}));
            }
            let _ = len_open;
            drop(wal);
            if round == crashes {
                break;
            }
            // crash: cut anywhere
            let n = match r.below(4) {
                0 => bytes.len(),
                1 => r.below(bytes.len() as u64 + 1) as usize,
                _ => {
                    let ends: Vec<usize> = std::iter::once(0).chain(expect.iter().map(|x| x.1)).collect();
                    let e = *r.pick(&ends) as i64 + *r.pick(&[0i64, -1, 1, -3, 3, -7, 7]);
                    e.clamp(0, bytes.len() as i64) as usize
                }
            };
            std::fs::write(&path, &bytes[..n]).unwrap();
            expect.retain(|x| x.1 <= n);
            let whole = expect.last().map(|x| x.1).unwrap_or(0);
            if whole != n {
                torn_seen = true;
                cx.rep.hit("direct.cut.torn");
            } else {
                cx.rep.hit("direct.cut.boundary");
            }
            trace.push(format!("crash cut={n}/{}", bytes.len()));
            let m_v = cx.m.ask(&format!("valid_len {}", hex(&bytes[..n])));
            let w2 = TxWal::open_with_config(&path, wal_cfg()).unwrap();
            let len2 = std::fs::metadata(&path).unwrap().len();
            cx.rep.compare("wal.valid_len", || json!({"trace": trace}), &len2.to_string(), &m_v);
            if len2 as usize != whole {
                // pre-fix: the tail stays; offsets of later appends shift accordingly (tracked from the file)
            }
            drop(w2);
        }
        let tkey = trace.join(";");
        cx.rep.case("wal.direct", if expect.len() >= 2 { Some(&tkey) } else { None });
    }
    // garbage: random bytes, bit flips — replay must answer like the model (error / stop), never panic
    for _ in 0..rounds {
        let dir = tmp_dir();
        let path = dir.path().join("g.wal");
        cx.m.ask("reset_dict");
        let mut wal = TxWal::open_with_config(&path, wal_cfg()).unwrap();
        let k = 1 + r.below(4);
        for _ in 0..k {
            let e = gen_entry(r);
            let p = bitcode::serialize(&e).unwrap();
            cx.m.ask(&format!("def {} {}", hex(&p), direct_token(&e)));
            wal.append(&e).unwrap();
        }
        drop(wal);
        let mut bytes = std::fs::read(&path).unwrap();
        let i = r.below(bytes.len() as u64) as usize;
        // flips in headers exercise torn / checksum; flips in payloads exercise checksum
        bytes[i] ^= 1 << r.below(8);
        let kind = frames(&bytes, 0).len();
        std::fs::write(&path, &bytes).unwrap();
        // open would cut by header only; replay through a handle opened on a copy
        let wal = TxWal::open_with_config(&path, wal_cfg()).unwrap();
        let after = std::fs::read(&path).unwrap();
        let rp = guarded(std::panic::AssertUnwindSafe(|| wal.replay()));
        let impl_rp = match rp {
            Ok(Ok(es)) => format!("ok {}", if es.is_empty() { "-".to_string() } else { es.iter().map(direct_token).collect::<Vec<_>>().join(" ") }),
            Ok(Err(_)) => "err checksum".to_string(),
            Err(p) => format!("panic {p}"),
        };
        cx.rep.hit(&format!("direct.flip.{}", if impl_rp.starts_with("err") { "checksum" } else { "stopped_or_ok" }));
        let _ = kind;
        let m_v = cx.m.ask(&format!("valid_len {}", hex(&bytes)));
        cx.rep.compare("wal.valid_len", || json!({"flip": i, "bytes": hex(&bytes)}), &after.len().to_string(), &m_v);
        // a flipped payload whose crc still matched would be undecodable for the model too only if bitcode
        // rejects it; restrict the comparison to the cases the model can decide: checksum errors and clean cuts
        let m_rp = cx.m.ask(&format!("replay {}", hex(&after)));
        if impl_rp.starts_with("err") || m_rp.starts_with("err") || bytes.len() != after.len() {
            cx.rep.compare("wal.replay.flip", || json!({"flip": i, "bytes": hex(&after)}), &impl_rp, &m_rp);
        }
        cx.rep.case("wal.flip", None);
    }
}

fn main() {
    let args = parse_args();
    let mut rep = Report::new(
        "seeded scripts: interleaved life-plans of 1-4 transactions (votes incl. duplicate/late/foreign, commit, abort, \
         timeouts), the WAL cut at record boundaries +-{0,1,3,7} and random bytes (quick) or at every byte (thorough), \
         restart, random prodding + new transactions, up to 3 crashes, final drain + clean restart. A case is one \
         (script, first cut) branch; non-trivial = its log holds a phase change or an outcome; distinct = distinct op/cut trace",
    );
    rep.expected_branches = [
        "op.begin", "op.vote", "op.commit", "op.abort", "op.ccommit", "op.cabort", "op.cleanup", "op.flush", "op.recover_live",
        "res.too_many", "res.vote.duplicate", "res.vote.wrong_phase", "res.vote.not_found", "res.vote.phase", "res.vote.voted",
        "res.commit.ok", "res.commit.not_found", "res.commit.wrong_phase", "res.abort.ok", "res.abort.not_found",
        "res.ccommit.ok", "res.cabort.ok", "res.cleanup.timed_out_some",
        "wal.B", "wal.V", "wal.P", "wal.C", "wal.L", "wal.R", "wal.I",
        "restart.tx.completed", "restart.tx.forgotten", "restart.tx.prepared", "restart.tx.deciding", "restart.tx.never_logged",
        "cut.torn", "cut.boundary", "crashes.2", "crashes.3",
    ]
    .iter()
    .map(|s| s.to_string())
    .collect();
    let mut m = Model::spawn(&args.driver);
    let root = Rng::new(args.seed);
    let t_start = std::time::Instant::now();

    {
        let mut cx = Ctx { m: &mut m, rep: &mut rep, stream_prefix: "" };
        // direct WAL differential
        let mut r = root.fork("direct");
        direct_wal(&mut cx, &mut r, if args.thorough { 1500 } else { 150 });
        // hand-written shapes, every byte
        directed(&mut cx);
        directed_timeout_after_restart(&mut cx);
    }
    // seeded scenarios
    let budget = if args.thorough { Duration::from_secs(600) } else { Duration::from_secs(40) };
    let n_scen = if args.thorough { 400 } else { 10_000 };
    let r = root.fork("scenario");
    let mut done = 0u64;
    for i in 0..n_scen {
        if t_start.elapsed() > budget {
            break;
        }
        let mut rs = r.fork(&format!("s{i}"));
        let mut cx = Ctx { m: &mut m, rep: &mut rep, stream_prefix: "" };
        // thorough: every byte of phase A's file for every scenario; quick: every byte for 1 in 12
        let all = args.thorough || i % 12 == 0;
        let (c, _) = scenario(&mut rs, &mut cx, None, all);
        done += c;
    }
    rep.note(&format!("scenario branches run: {done}; model lines: {}", m.lines));
    rep.note("clock: timeouts are driven by the wall clock; a cleanup is only issued when every pending transaction is >30 ms away from its deadline, scenarios where the clock moved across a deadline during the call are dropped (counted as clock.unsure_dropped)");
    rep.write(&args.out);
}
