//! C13 correspondence + oracles: the real `DistributedTxCoordinator` with a real `TxWal` on a
//! temp file, crashed at byte granularity and restarted, against the Lean TxWal model.
//!
//! Streams
//!   coord.op        every coordinator call: result | WAL records appended | memory digest
//!   coord.restart   restart on a cut file: replayed log | recovered memory
//!   recover.class   `TxRecoveryState::from_wal` classification vs model `recover <bytes>`
//!   wal.valid_len   file length after `TxWal::open` vs model `valid_len`
//!   wal.replay      direct `TxWal::{open,append,replay}` with cuts vs model `replay`
//!   crc / frame     crc32fast + on-disk frame layout vs the model's
//!   coord.full.*    the same streams on a WAL whose size limit makes appends FAIL (auto_rotate off):
//!                   every byte value of the limit over hand-written scripts, and a share of the
//!                   seeded scenarios; the model is told the payload sizes (`need` protocol)
//!   rot.*           the size limit with auto_rotate on, and truncate_wal with a transaction pending
//!                   (correspondence with the model's rotation / truncation; the loss of a Prepared
//!                   transaction is reported under its known-finding class)
//!   coord.handles   the process-wide lock-handle counter: real handle numbers (no relabelling),
//!                   votes carrying handles the counter of the restarted coordinator has not
//!                   reached yet, restart, `lock_handle_current()` / `try_lock` handles / lock
//!                   table vs the model's counter (`set_counter`, `trylock`, `state`)
//! Oracles (evaluated on the real coordinator only, classes are machine computed):
//!   logged outcome never reversed, acknowledged records survive reopen+append (torn tail),
//!   prepared transactions come back with their accepted votes and can be completed,
//!   forgotten transactions hold no locks, completed transactions' locks are released,
//!   memory never ahead of the log (a pending transaction's Prepared / Committing phase and its
//!   votes are in the file), an ok answer of commit/abort comes with its TxComplete record and any
//!   other answer with none, recover() sends a restored all-YES prepared transaction to commit,
//!   what memory holds as Prepared comes back Prepared after a restart on the whole file (class by
//!   cause: rotation / truncate_wal with the transaction pending / anything else), finishing a
//!   recovered transaction never releases a lock taken after the restart.
use nverif::*;
use serde_json::{json, Value};
use std::collections::{BTreeMap, HashSet};
use std::path::{Path, PathBuf};
use std::time::{Duration, SystemTime, UNIX_EPOCH};
use tensor_chain::network::Transport;
use tensor_chain::raft_wal::WalConfig;
use tensor_chain::{
    ConsensusConfig, ConsensusManager, DeltaVector, DistributedTxConfig, DistributedTxCoordinator,
    MemoryTransport, PrepareVote, PrepareVoteKind, TxOutcome, TxPhase, TxRecoveryState, TxWal,
    TxWalEntry, VoteRecordError,
};

const FAKE_TX_REAL: u64 = 0x7fff_0000_0000_0001;
const FAKE_TX_C: u64 = 900;
/// handles no lock manager ever hands out: above the counter's high-water mark (90 % of u64::MAX),
/// so they stay distinguishable from real handles even if recovery moves the counter past every
/// handle it finds in the log
const FAKE_H_REAL: u64 = 0xf000_0000_0000_1000;
const FAKE_H_C: u64 = 1000;
const GUARD_MS: u64 = 30;
const NEVER_MS: u64 = 3_600_000;

fn now_ms() -> u64 {
    SystemTime::now().duration_since(UNIX_EPOCH).unwrap_or_default().as_millis() as u64
}

fn phase_num(p: TxPhase) -> u8 {
    match p {
        TxPhase::Preparing => 0,
        TxPhase::Prepared => 1,
        TxPhase::Committing => 2,
        TxPhase::Committed => 3,
        TxPhase::Aborting => 4,
        TxPhase::Aborted => 5,
        _ => 9,
    }
}

/// Shard lists: `-` = empty, comma separated; a run of at least 32 consecutive ids (the participant
/// list of a WIDE transaction: tens of thousands of shards, a TxBegin / AbortIntent record of 64 KiB
/// and more) is written `lo..hi` — the model driver applies the same rule, so the notation is
/// canonical and the protocol lines, traces and replay files stay short.
fn show_list(v: &[usize]) -> String {
    if v.is_empty() {
        "-".into()
    } else if v.len() >= 32 && v.windows(2).all(|w| w[1] == w[0] + 1) {
        format!("{}..{}", v[0], v[v.len() - 1])
    } else {
        v.iter().map(|x| x.to_string()).collect::<Vec<_>>().join(",")
    }
}

/// payload length classes (boundaries that exist or could plausibly exist in WAL code: one-byte and
/// two-byte lengths, the 8 KiB buffer of BufReader / BufWriter, 64 KiB, 1 MiB)
fn len_bucket(l: usize) -> &'static str {
    match l {
        0..=255 => "lt256",
        256..=8191 => "lt8k",
        8192..=65535 => "lt64k",
        65536..=1_048_575 => "ge64k",
        _ => "ge1m",
    }
}

/// `cap` = (max_size_bytes, auto_rotate)
fn wal_cfg(cap: Option<(u64, bool)>) -> WalConfig {
    match cap {
        None => WalConfig { pre_check_space: false, ..WalConfig::default() },
        Some((max, rot)) => WalConfig { pre_check_space: false, max_size_bytes: max, auto_rotate: rot, ..WalConfig::default() },
    }
}

fn new_line(timeout: u64, maxc: usize, cap: Option<(u64, bool)>) -> String {
    match cap {
        None => format!("new {timeout} {maxc}"),
        Some((max, rot)) => format!("new {timeout} {maxc} {max} {}", rot as u8),
    }
}

// ------------------------------------------------------------------ script

#[derive(Clone, Debug, PartialEq)]
enum V {
    YesLocked,
    YesFake(u64),
    No,
    Conflict,
}

#[derive(Clone, Debug, PartialEq)]
enum Cut {
    Full,
    /// `back` records from the end, `delta` bytes relative to that record boundary
    Boundary { back: usize, delta: i64 },
    /// per-mille position in the file
    Frac(u64),
    Exact(usize),
}

#[derive(Clone, Debug, PartialEq)]
enum Op {
    Begin { parts: Vec<usize>, xflag: bool },
    Vote { t: usize, shard: usize, v: V },
    Commit(usize),
    Abort(usize),
    CCommit(usize),
    CAbort(usize),
    Cleanup,
    Flush,
    RecoverLive,
    /// `recover()`
    RecoverMem,
    /// `get_pending_decisions()`
    Decisions,
    /// `force_resolve(tx, commit)`
    Force(usize, bool),
    /// `truncate_wal()` at a checkpoint: skipped while a transaction is pending
    Truncate,
    /// `truncate_wal()` whatever is pending (observation stream only)
    TruncateAnyway,
    Sleep(u64),
    /// crash, cut, restart with the given prepare timeout / max_concurrent / WAL size limit
    Crash { cut: Cut, timeout: u64, maxc: usize, cap: Option<(u64, bool)> },
}

/// an op for traces and reports (a wide participant list in range notation)
fn op_show(o: &Op) -> String {
    match o {
        Op::Begin { parts, xflag } if parts.len() >= 32 => format!("Begin {{ parts: [{}], xflag: {xflag} }}", show_list(parts)),
        _ => format!("{o:?}"),
    }
}

// ------------------------------------------------------------------ bookkeeping

#[derive(Clone, Debug)]
struct TxInfo {
    real: u64,
    parts: Vec<usize>,
    xflag: bool,
    /// votes the live coordinator accepted (shard -> canonical vote string)
    accepted: BTreeMap<usize, String>,
    /// a vote for this tx was written to the WAL but rejected by `record_vote`
    rejected_logged: bool,
    yes_count: usize,
    /// the WAL file holding this transaction's TxBegin was rotated away while it was pending
    rotated_away: bool,
    /// truncate_wal() emptied the WAL while this transaction was pending
    truncated_away: bool,
}

#[derive(Clone, Debug)]
struct HandleInfo {
    real: u64,
    key: String,
    tx_c: u64,
}

#[derive(Clone, Debug)]
struct Rec {
    token: String,
    end: usize,
    /// payload bytes of the record
    plen: usize,
}

#[derive(Clone, Default)]
struct Book {
    txs: Vec<TxInfo>,
    handles: Vec<HandleInfo>,
    /// every record the harness saw being appended and that is still in the file
    recs: Vec<Rec>,
    file_len: usize,
    /// a crash of this scenario left a torn (incomplete) final frame behind
    torn_tail_seen: bool,
    key_seq: u64,
    /// outcomes whose TxComplete record is in the file: canonical tx -> 'c' | 'a'
    durable: BTreeMap<u64, char>,
}

impl Book {
    fn tx_c(&self, real: u64) -> u64 {
        if real == FAKE_TX_REAL {
            return FAKE_TX_C;
        }
        self.txs.iter().position(|t| t.real == real).map(|i| i as u64 + 1).unwrap_or(999)
    }
    fn tx_real(&self, t: usize) -> u64 {
        self.txs.get(t).map(|x| x.real).unwrap_or(FAKE_TX_REAL)
    }
    fn tx_can(&self, t: usize) -> u64 {
        if t < self.txs.len() {
            t as u64 + 1
        } else {
            FAKE_TX_C
        }
    }
    fn h_c(&self, real: u64) -> u64 {
        if let Some(i) = self.handles.iter().position(|h| h.real == real) {
            return i as u64 + 1;
        }
        if real >= FAKE_H_REAL {
            return FAKE_H_C + (real - FAKE_H_REAL);
        }
        9999
    }
    fn token(&self, e: &TxWalEntry) -> String {
        match e {
            TxWalEntry::TxBegin { tx_id, participants } => {
                format!("B:{}:{}", self.tx_c(*tx_id), show_list(participants))
            }
            TxWalEntry::PrepareVote { tx_id, shard, vote } => format!(
                "V:{}:{}:{}",
                self.tx_c(*tx_id),
                shard,
                match vote {
                    PrepareVoteKind::Yes { lock_handle } => format!("y{}", self.h_c(*lock_handle)),
                    _ => "n".to_string(),
                }
            ),
            TxWalEntry::PhaseChange { tx_id, from, to } => {
                format!("P:{}:{}:{}", self.tx_c(*tx_id), phase_num(*from), phase_num(*to))
            }
            TxWalEntry::TxComplete { tx_id, outcome } => format!(
                "C:{}:{}",
                self.tx_c(*tx_id),
                match outcome {
                    TxOutcome::Committed => "c",
                    _ => "a",
                }
            ),
            TxWalEntry::LockRelease { tx_id, lock_handle } => {
                format!("L:{}:{}", self.tx_c(*tx_id), self.h_c(*lock_handle))
            }
            TxWalEntry::AllLocksReleased { tx_id } => format!("R:{}", self.tx_c(*tx_id)),
            TxWalEntry::AbortIntent { tx_id, reason, shards } => {
                format!("I:{}:{}:{}", self.tx_c(*tx_id), reason.replace(' ', "_"), show_list(shards))
            }
            _ => "?".to_string(),
        }
    }
}

/// complete frames of `bytes` starting at `from`: (start, end, payload)
fn frames(bytes: &[u8], from: usize) -> Vec<(usize, usize, Vec<u8>)> {
    let mut out = vec![];
    let mut pos = from;
    while pos + 8 <= bytes.len() {
        let len = u32::from_le_bytes([bytes[pos], bytes[pos + 1], bytes[pos + 2], bytes[pos + 3]]) as usize;
        if pos + 8 + len > bytes.len() {
            break;
        }
        out.push((pos, pos + 8 + len, bytes[pos + 8..pos + 8 + len].to_vec()));
        pos += 8 + len;
    }
    out
}

/// sort runs of consecutive LockRelease / AbortIntent tokens (hash-map iteration order).
/// `count_l`: the WAL is size-limited, so WHICH LockRelease records of a commit still fitted
/// depends on that order too; a run is then compared as `L:<tx>:#<how many>`.
fn canon_runs(tokens: &[String], count_l: bool) -> String {
    let mut out: Vec<String> = vec![];
    let mut i = 0;
    while i < tokens.len() {
        let k = tokens[i].as_bytes()[0];
        if k == b'L' || k == b'I' {
            let mut j = i;
            while j < tokens.len() && tokens[j].as_bytes()[0] == k {
                j += 1;
            }
            let mut run = tokens[i..j].to_vec();
            run.sort();
            if count_l && k == b'L' {
                let tx = run[0].split(':').nth(1).unwrap_or("?").to_string();
                out.push(format!("L:{tx}:#{}", run.len()));
            } else {
                out.extend(run);
            }
            i = j;
        } else {
            out.push(tokens[i].clone());
            i += 1;
        }
    }
    if out.is_empty() {
        "-".into()
    } else {
        out.join(" ")
    }
}

/// Error canonicalisation (BUILDING.md). The coordinator's unit-returning calls fail with two VARIANTS:
/// `ChainError::StorageError` = the WAL write failed (rule 1: `wal_err`), and `ChainError::TransactionFailed(String)`
/// = every refusal (too many transactions in `begin`; unknown transaction / wrong phase / non-YES vote in
/// commit, abort, complete_*, force_resolve). The refusals of the end-of-transaction calls change neither the log
/// nor the memory and the C13 oracles only use ok / not ok, so they are compared as the ONE token `txfailed`
/// (rule 2; `collapse_end_refusal` maps the model's `not_found` / `cannot_commit` / `wrong_phase<n>` to it) and
/// the wording is read only for the coverage statistic `res.<op>.<reason>`.
const TXFAILED: &str = "txfailed";
fn vname<T: std::fmt::Debug>(e: &T) -> String {
    format!("{e:?}").chars().take_while(|c| c.is_alphanumeric() || *c == '_').collect()
}
/// (compared token, reason for the statistics)
fn end_err(e: &tensor_chain::ChainError) -> (String, &'static str) {
    match e {
        tensor_chain::ChainError::StorageError(_) => ("wal_err".into(), "wal_err"),
        tensor_chain::ChainError::TransactionFailed(m) => (
            TXFAILED.into(),
            if m.contains("not found") { "not_found" } else if m.contains("cannot be committed") { "cannot_commit" } else if m.contains("phase") { "wrong_phase" } else { "unclassified" },
        ),
        other => (format!("err:{}", vname(other)), "other"),
    }
}
fn collapse_end_refusal(res: &str) -> String {
    if res == "not_found" || res == "cannot_commit" || res.starts_with("wrong_phase") { TXFAILED.to_string() } else { res.to_string() }
}

fn canon_model_answer(ans: &str, strip_phase_digit: bool) -> String {
    canon_model_answer_c(ans, strip_phase_digit, false)
}

fn canon_model_answer_c(ans: &str, strip_phase_digit: bool, count_l: bool) -> String {
    // "<res> | <tokens> | pending=[..] locks=[..] aborts=[..]"
    let parts: Vec<&str> = ans.splitn(3, " | ").collect();
    if parts.len() != 3 {
        return ans.to_string();
    }
    let mut res = parts[0].to_string();
    if strip_phase_digit {
        // an end-of-transaction call (the only callers that pass `true`): refusals are one token
        res = collapse_end_refusal(&res);
    }
    let toks: Vec<String> = if parts[1] == "-" { vec![] } else { parts[1].split(' ').map(|s| s.to_string()).collect() };
    let digest = parts[2].split(" aborts=").next().unwrap_or("").to_string();
    format!("{res} | {} | {digest}", canon_runs(&toks, count_l))
}

// ------------------------------------------------------------------ the world

struct World {
    _dir: tempfile::TempDir,
    path: PathBuf,
    coord: Option<DistributedTxCoordinator>,
    timeout: u64,
    maxc: usize,
    /// size limit of the WAL of the current process: (max_size_bytes, auto_rotate)
    cap: Option<(u64, bool)>,
    book: Book,
    defined: HashSet<Vec<u8>>,
    trace: Vec<String>,
    rt: tokio::runtime::Runtime,
    transport: MemoryTransport,
    /// clock could not be pinned down (machine stall): drop the scenario, never report it
    clock_unsure: bool,
    crashes: usize,
    /// the op being executed (its line is appended to `trace` only when it is done)
    cur: String,
}

fn tmp_dir() -> tempfile::TempDir {
    if Path::new("/dev/shm").is_dir() {
        tempfile::tempdir_in("/dev/shm").unwrap()
    } else {
        tempfile::tempdir().unwrap()
    }
}

fn new_coord(path: &Path, timeout: u64, maxc: usize, cap: Option<(u64, bool)>) -> (DistributedTxCoordinator, Result<Vec<TxWalEntry>, String>, u64) {
    let (c, replayed, len_after_open, _) = new_coord_counted(path, timeout, maxc, cap);
    (c, replayed, len_after_open)
}

/// ... and the number of records `TxWal::open` counted in the file (`entry_count()`)
fn new_coord_counted(path: &Path, timeout: u64, maxc: usize, cap: Option<(u64, bool)>) -> (DistributedTxCoordinator, Result<Vec<TxWalEntry>, String>, u64, u64) {
    let wal = TxWal::open_with_config(path, wal_cfg(cap)).expect("open wal");
    let len_after_open = std::fs::metadata(path).map(|m| m.len()).unwrap_or(0);
    let counted = wal.entry_count();
    let replayed = wal.replay().map_err(|e| e.to_string());
    let cfg = DistributedTxConfig { prepare_timeout_ms: timeout, max_concurrent: maxc, ..DistributedTxConfig::default() };
    let c = DistributedTxCoordinator::new(ConsensusManager::new(ConsensusConfig::default()), cfg).with_wal(wal);
    (c, replayed, len_after_open, counted)
}

impl World {
    fn new(timeout: u64, maxc: usize, m: &mut Model) -> World {
        World::new_capped(timeout, maxc, None, m)
    }

    fn new_capped(timeout: u64, maxc: usize, cap: Option<(u64, bool)>, m: &mut Model) -> World {
        let dir = tmp_dir();
        let path = dir.path().join("tx.wal");
        let (c, _, _) = new_coord(&path, timeout, maxc, cap);
        m.ask(&new_line(timeout, maxc, cap));
        World {
            _dir: dir,
            path,
            coord: Some(c),
            timeout,
            maxc,
            cap,
            book: Book::default(),
            defined: HashSet::new(),
            trace: vec![new_line(timeout, maxc, cap)],
            rt: tokio::runtime::Builder::new_current_thread().enable_all().build().unwrap(),
            transport: MemoryTransport::new("coord".to_string()),
            clock_unsure: false,
            crashes: 0,
            cur: String::new(),
        }
    }

    /// a dead process: the bookkeeping of `src`, no coordinator; `restart_at` brings it to life
    fn dead_copy(src: &World) -> World {
        let dir = tmp_dir();
        let path = dir.path().join("tx.wal");
        World {
            _dir: dir,
            path,
            coord: None,
            timeout: src.timeout,
            maxc: src.maxc,
            cap: src.cap,
            book: src.book.clone(),
            defined: src.defined.clone(),
            trace: src.trace.clone(),
            rt: tokio::runtime::Builder::new_current_thread().enable_all().build().unwrap(),
            transport: MemoryTransport::new("coord".to_string()),
            clock_unsure: false,
            crashes: 0,
            cur: String::new(),
        }
    }

    fn c(&self) -> &DistributedTxCoordinator {
        self.coord.as_ref().unwrap()
    }

    fn file(&self) -> Vec<u8> {
        std::fs::read(&self.path).unwrap_or_default()
    }

    /// teach the model every payload of `bytes[from..]`; returns tokens with end offsets
    fn learn(&mut self, bytes: &[u8], from: usize, m: &mut Model) -> Vec<Rec> {
        let mut out = vec![];
        for (_, end, p) in frames(bytes, from) {
            let token = match bitcode::deserialize::<TxWalEntry>(&p) {
                Ok(e) => self.book.token(&e),
                Err(_) => "?".to_string(),
            };
            if token != "?" && self.defined.insert(p.clone()) {
                m.ask(&format!("def {} {}", hex(&p), token));
            }
            out.push(Rec { token, end, plen: p.len() });
        }
        out
    }

    fn digest(&self) -> String {
        let c = self.c();
        let mut ps = vec![];
        let mut ids: Vec<(u64, u64)> = self.book.txs.iter().enumerate().map(|(i, t)| (i as u64 + 1, t.real)).collect();
        ids.push((FAKE_TX_C, FAKE_TX_REAL));
        let mut found = 0;
        for (cid, real) in ids {
            if let Some(tx) = c.get(real) {
                found += 1;
                let mut vs: Vec<(usize, String)> = tx
                    .votes
                    .iter()
                    .map(|(s, v)| {
                        (
                            *s,
                            match v {
                                PrepareVote::Yes { lock_handle, .. } => format!("y{}", self.book.h_c(*lock_handle)),
                                PrepareVote::No { .. } => "n".to_string(),
                                PrepareVote::Conflict { .. } => "c".to_string(),
                                _ => "?".to_string(),
                            },
                        )
                    })
                    .collect();
                vs.sort();
                let vstr = if vs.is_empty() {
                    "-".to_string()
                } else {
                    vs.iter().map(|(s, v)| format!("{s}.{v}")).collect::<Vec<_>>().join("/")
                };
                ps.push(format!("{cid}:{}:{}:{vstr}:{}", phase_num(tx.phase), show_list(&tx.participants), tx.timeout_ms));
            }
        }
        let extra = if found != c.pending_count() { format!("?count{}", c.pending_count()) } else { String::new() };
        let mut ls: Vec<(u64, u64)> = vec![];
        for (i, h) in self.book.handles.iter().enumerate() {
            if let Some(holder) = c.lock_manager().lock_holder(&h.key) {
                ls.push((self.book.tx_c(holder), i as u64 + 1));
            }
        }
        ls.sort();
        format!(
            "pending=[{}]{extra} locks=[{}]",
            ps.join(";"),
            ls.iter().map(|(t, h)| format!("{t}.{h}")).collect::<Vec<_>>().join(";")
        )
    }

    /// started_at / timeout of everything pending, for the clock guard
    fn pending_clocks(&self) -> Vec<(u64, u64)> {
        let c = self.c();
        let mut v = vec![];
        for t in &self.book.txs {
            if let Some(tx) = c.get(t.real) {
                v.push((tx.started_at, tx.timeout_ms));
            }
        }
        v
    }
}

struct Ctx<'a> {
    m: &'a mut Model,
    rep: &'a mut Report,
    stream_prefix: &'a str,
}

fn violation(cx: &mut Ctx, w: &World, class: &str, what: &str, extra: Value) {
    report_violation(cx.rep, class, what, json!({"trace": w.trace, "during": w.cur, "detail": extra}));
}

/// the report keeps a bounded number of violations: at most three failing inputs per class, so
/// that a class that fires on many inputs (a known finding, say) never crowds out another one
fn report_violation(rep: &mut Report, class: &str, what: &str, input: Value) {
    rep.hit(&format!("violation.{class}"));
    let same = rep.violations.iter().filter(|v| v.get("class").and_then(|c| c.as_str()) == Some(class)).count();
    if same < 3 {
        rep.violation(class, what, input);
    }
}

fn num_phase(n: u8) -> TxPhase {
    match n {
        0 => TxPhase::Preparing,
        1 => TxPhase::Prepared,
        2 => TxPhase::Committing,
        3 => TxPhase::Committed,
        4 => TxPhase::Aborting,
        _ => TxPhase::Aborted,
    }
}

fn parse_list(s: &str) -> Vec<usize> {
    if s == "-" || s.is_empty() {
        vec![]
    } else if let Some((a, b)) = s.split_once("..") {
        match (a.parse::<usize>(), b.parse::<usize>()) {
            (Ok(lo), Ok(hi)) if lo <= hi => (lo..=hi).collect(),
            _ => vec![],
        }
    } else {
        s.split(',').filter_map(|x| x.parse().ok()).collect()
    }
}

/// canonical token -> the entry the real coordinator would write for it (ids mapped back)
fn entry_of_token(b: &Book, tok: &str) -> Option<TxWalEntry> {
    let f: Vec<&str> = tok.split(':').collect();
    let tx = |c: &str| -> Option<u64> {
        let c: u64 = c.parse().ok()?;
        Some(if c >= 1 && (c as usize) <= b.txs.len() { b.txs[c as usize - 1].real } else { FAKE_TX_REAL })
    };
    let hd = |c: &str| -> Option<u64> {
        let c: u64 = c.parse().ok()?;
        Some(if c >= FAKE_H_C { FAKE_H_REAL + (c - FAKE_H_C) } else if c >= 1 && (c as usize) <= b.handles.len() { b.handles[c as usize - 1].real } else { c })
    };
    match f.as_slice() {
        ["B", t, ps] => Some(TxWalEntry::TxBegin { tx_id: tx(t)?, participants: parse_list(ps) }),
        ["V", t, sh, k] => Some(TxWalEntry::PrepareVote {
            tx_id: tx(t)?,
            shard: sh.parse().ok()?,
            vote: if *k == "n" { PrepareVoteKind::No } else { PrepareVoteKind::Yes { lock_handle: hd(k.strip_prefix('y')?)? } },
        }),
        ["P", t, fr, to] => Some(TxWalEntry::PhaseChange { tx_id: tx(t)?, from: num_phase(fr.parse().ok()?), to: num_phase(to.parse().ok()?) }),
        ["C", t, o] => Some(TxWalEntry::TxComplete { tx_id: tx(t)?, outcome: if *o == "c" { TxOutcome::Committed } else { TxOutcome::Aborted } }),
        ["L", t, h] => Some(TxWalEntry::LockRelease { tx_id: tx(t)?, lock_handle: hd(h)? }),
        ["R", t] => Some(TxWalEntry::AllLocksReleased { tx_id: tx(t)? }),
        ["I", t, r, sh] => Some(TxWalEntry::AbortIntent { tx_id: tx(t)?, reason: r.replace('_', " "), shards: parse_list(sh) }),
        _ => None,
    }
}

/// ask the model; when it needs the size of records it has not seen (size-limited WAL), announce
/// the payloads bitcode produces for them and ask again
fn ask_model(w: &mut World, cx: &mut Ctx, line: &str) -> String {
    for _ in 0..6 {
        let ans = cx.m.ask(line);
        let Some(rest) = ans.strip_prefix("need ") else { return ans };
        cx.rep.hit("model.need_sizes");
        for tok in rest.split(' ') {
            if let Some(e) = entry_of_token(&w.book, tok) {
                let p = bitcode::serialize(&e).unwrap();
                w.defined.insert(p.clone());
                cx.m.ask(&format!("def {} {}", hex(&p), tok));
            }
        }
    }
    "need-loop".to_string()
}

/// what the records in the file say about one transaction (the harness' own reading of the
/// log, independent of the model): None = never begun / begun record gone
struct LogView {
    completed: bool,
    phase: u8,
    votes: BTreeMap<usize, String>,
    parts: Vec<usize>,
}

fn log_view(recs: &[Rec], cid: u64) -> Option<LogView> {
    let mut v: Option<LogView> = None;
    let me = cid.to_string();
    for r in recs {
        let f: Vec<&str> = r.token.split(':').collect();
        if f.len() < 2 || f[1] != me {
            continue;
        }
        match f[0] {
            "B" => v = Some(LogView { completed: false, phase: 0, votes: BTreeMap::new(), parts: parse_list(f.get(2).unwrap_or(&"-")) }),
            "V" => {
                if let Some(x) = v.as_mut() {
                    if !x.completed && x.phase == 0 {
                        if let Ok(sh) = f[2].parse::<usize>() {
                            x.votes.entry(sh).or_insert_with(|| f[3].to_string());
                        }
                    }
                }
            }
            "P" => {
                if let Some(x) = v.as_mut() {
                    if !x.completed {
                        x.phase = f[3].parse().unwrap_or(9);
                    }
                }
            }
            "C" => {
                if let Some(x) = v.as_mut() {
                    x.completed = true;
                }
            }
            _ => {}
        }
    }
    v
}

/// oracle: memory is never ahead of the log (needs a file that keeps its records: no rotation)
fn check_memory_vs_log(w: &World, cx: &mut Ctx, only: Option<usize>) {
    if matches!(w.cap, Some((_, true))) {
        return;
    }
    let n = w.book.txs.len();
    let range: Vec<usize> = match only {
        Some(t) if t < n => vec![t],
        Some(_) => vec![],
        None => (0..n).collect(),
    };
    for t in range {
        let ti = &w.book.txs[t];
        let Some(tx) = w.c().get(ti.real) else { continue };
        let cid = t as u64 + 1;
        let site = "tensor_chain.distributed_tx.memory";
        let lv = match log_view(&w.book.recs, cid) {
            Some(lv) if !lv.completed => lv,
            other => {
                let kind = if other.is_some() { "pending_tx_completed_in_log" } else { "pending_tx_not_in_log" };
                violation(cx, w, &format!("{site}/{kind}"),
                    "a pending transaction is not in progress in the log", json!({"tx": cid, "phase": phase_num(tx.phase)}));
                continue;
            }
        };
        cx.rep.hit("oracle.memory_vs_log");
        let mp = phase_num(tx.phase);
        let ahead = match mp {
            0 => lv.phase != 0,
            1 => lv.phase != 1,
            2 => lv.phase != 1 && lv.phase != 2,
            3 | 5 => true,
            _ => false,
        };
        if ahead || lv.parts != tx.participants {
            violation(cx, w, &format!("{site}/phase_ahead_of_log"),
                "the in-memory phase of a pending transaction is not justified by the log (log before state change)",
                json!({"tx": cid, "memory_phase": mp, "log_phase": lv.phase}));
        }
        if mp == 0 || lv.phase == 1 || lv.phase == 2 {
            let mut mv: BTreeMap<usize, String> = BTreeMap::new();
            for (s, v) in &tx.votes {
                mv.insert(*s, match v {
                    PrepareVote::Yes { lock_handle, .. } => format!("y{}", w.book.h_c(*lock_handle)),
                    _ => "n".to_string(),
                });
            }
            if mv != lv.votes {
                let class = if ti.rejected_logged && w.crashes > 0 {
                    "tensor_chain.tx_wal.scan_entries/rejected_vote_recovered".to_string()
                } else {
                    format!("{site}/votes_differ_from_log")
                };
                violation(cx, w, &class,
                    "the votes a pending transaction holds in memory are not the votes the log holds for it",
                    json!({"tx": cid, "memory": mv, "log": lv.votes}));
            }
        }
    }
}

/// the votes a pending transaction holds, canonical (shard.vote, sorted)
fn votes_str(tx: &tensor_chain::DistributedTransaction, b: &Book) -> String {
    let mut vs: Vec<(usize, String)> = tx.votes.iter().map(|(s, v)| (*s, match v {
        PrepareVote::Yes { lock_handle, .. } => format!("y{}", b.h_c(*lock_handle)),
        PrepareVote::No { .. } => "n".to_string(),
        PrepareVote::Conflict { .. } => "c".to_string(),
        _ => "?".to_string(),
    })).collect();
    vs.sort();
    if vs.is_empty() { "-".to_string() } else { vs.iter().map(|(s, v)| format!("{s}.{v}")).collect::<Vec<_>>().join("/") }
}

/// what the running coordinator holds just before a `recover_from_wal` call: every pending
/// transaction (index, phase, votes) and every lock whose holder the coordinator knows
struct LiveSnapshot {
    pending: Vec<(usize, u8, String)>,
    locks: Vec<(usize, u64)>,
}

fn live_snapshot(w: &World) -> LiveSnapshot {
    let c = w.c();
    let pending = w.book.txs.iter().enumerate()
        .filter_map(|(i, ti)| c.get(ti.real).map(|tx| (i, phase_num(tx.phase), votes_str(&tx, &w.book))))
        .collect();
    let locks = w.book.handles.iter().enumerate()
        .filter_map(|(i, h)| c.lock_manager().lock_holder(&h.key).filter(|holder| c.get(*holder).is_some()).map(|holder| (i, holder)))
        .collect();
    LiveSnapshot { pending, locks }
}

/// oracles after a `recover_from_wal` call on a RUNNING coordinator ("every following sequence of
/// recovery calls ... and further transactions"): recovery adds what the log restores, it never
/// takes a transaction of the current life away.
/// (1) a transaction pending before the call is pending after it; when the log does not show it as
///     Prepared / Committing / Aborting (the harness' own reading of the file) it has the same phase
///     and the same votes;
/// (2) no lock whose holder the coordinator knew before the call is held afterwards by a
///     transaction the coordinator no longer knows.
fn check_recovery_call(w: &World, cx: &mut Ctx, before: &LiveSnapshot) {
    let site = "tensor_chain.distributed_tx.recover_from_wal";
    let c = w.c();
    for (t, ph, votes) in &before.pending {
        cx.rep.hit("oracle.recovery_call_keeps_live_tx");
        let ti = &w.book.txs[*t];
        let cid = *t as u64 + 1;
        let restored_by_log = matches!(log_view(&w.book.recs, cid), Some(lv) if !lv.completed && matches!(lv.phase, 1 | 2 | 4));
        match c.get(ti.real) {
            None => {
                let held: Vec<usize> = w.book.handles.iter().enumerate()
                    .filter(|(_, h)| c.lock_manager().lock_holder(&h.key) == Some(ti.real)).map(|(i, _)| i + 1).collect();
                violation(cx, w, &format!("{site}/live_transaction_dropped"),
                    "a transaction that was pending on the running coordinator before a recover_from_wal call is no longer known after it (recovery adds what the log restores; it must not take transactions of the current life away)",
                    json!({"tx": cid, "phase_before": ph, "votes_before": votes, "in_log_as_restorable": restored_by_log, "locks_still_held": held}));
            }
            Some(tx) => {
                if !restored_by_log {
                    cx.rep.hit("oracle.recovery_call_keeps_live_tx.unrestored");
                    let (ph2, v2) = (phase_num(tx.phase), votes_str(&tx, &w.book));
                    if ph2 != *ph || v2 != *votes {
                        violation(cx, w, &format!("{site}/live_transaction_altered"),
                            "a pending transaction the log does not restore (still collecting votes, or moved to Aborting in memory only) changed phase or votes across a recover_from_wal call",
                            json!({"tx": cid, "phase_before": ph, "votes_before": votes, "phase_after": ph2, "votes_after": v2}));
                    }
                }
            }
        }
    }
    for (i, holder) in &before.locks {
        let h = &w.book.handles[*i];
        if let Some(now_holder) = c.lock_manager().lock_holder(&h.key) {
            if c.get(now_holder).is_none() {
                violation(cx, w, &format!("{site}/lock_of_unknown_transaction"),
                    "after a recover_from_wal call a lock is held by a transaction the coordinator no longer knows (its holder was pending before the call): nothing can release it but the lock expiry",
                    json!({"handle": i + 1, "key": h.key, "holder": w.book.tx_c(now_holder), "holder_before": w.book.tx_c(*holder)}));
            }
        }
    }
}

/// wait until every pending transaction is clearly inside or clearly outside its timeout
fn pin_clock(w: &World) -> u64 {
    let mut t0 = now_ms();
    for _ in 0..200 {
        let unsure = w.pending_clocks().iter().any(|(s, to)| {
            let el = t0.saturating_sub(*s);
            el + GUARD_MS > *to && el <= *to + GUARD_MS
        });
        if !unsure {
            break;
        }
        std::thread::sleep(Duration::from_millis(GUARD_MS + 5));
        t0 = now_ms();
    }
    t0
}

/// run one op on the real coordinator and on the model; compare; evaluate oracles
fn exec(w: &mut World, op: &Op, cx: &mut Ctx) {
    if w.clock_unsure {
        return;
    }
    let before_len = w.book.file_len;
    let rot = matches!(w.cap, Some((_, true)));
    let pre_bytes = if rot || matches!(op, Op::Truncate | Op::TruncateAnyway) { Some(w.file()) } else { None };
    w.cur = op_show(op);
    let stream = format!("{}coord.op", cx.stream_prefix);
    let mut strip = false;
    // (name, canonical tx, answered ok) of a commit / abort, for the answer-vs-log oracle
    let mut completion: Option<(&'static str, u64, bool)> = None;
    let mut check_tx: Option<Option<usize>> = None;
    let (line, impl_res): (String, String) = match op {
        Op::Begin { parts, xflag } => {
            cx.rep.hit("op.begin");
            match w.c().begin(&"n1".to_string(), parts) {
                Ok(tx) => {
                    w.book.txs.push(TxInfo {
                        real: tx.tx_id,
                        parts: parts.clone(),
                        xflag: *xflag,
                        accepted: BTreeMap::new(),
                        rejected_logged: false,
                        yes_count: 0,
                        rotated_away: false,
                        truncated_away: false,
                    });
                    check_tx = Some(Some(w.book.txs.len() - 1));
                    (format!("begin {} {} {}", w.book.txs.len(), show_list(parts), tx.started_at), "ok".into())
                }
                Err(e) => {
                    // by variant (rule 1): StorageError = the TxBegin record could not be logged; the only
                    // TransactionFailed of `begin` is the max_concurrent refusal
                    let res: String = match &e {
                        tensor_chain::ChainError::StorageError(_) => "wal_err".into(),
                        tensor_chain::ChainError::TransactionFailed(_) => "too_many".into(),
                        other => format!("err:{}", vname(other)),
                    };
                    cx.rep.hit(&format!("res.{res}"));
                    (format!("begin {} {} {}", w.book.txs.len() + 1, show_list(parts), now_ms()), res)
                }
            }
        }
        Op::Vote { t, shard, v } => {
            cx.rep.hit("op.vote");
            let real = w.book.tx_real(*t);
            let can = w.book.tx_can(*t);
            let xflag = w.book.txs.get(*t).map(|x| x.xflag).unwrap_or(false);
            let delta = || {
                if xflag {
                    DeltaVector::new(&[1.0, 0.0], ["shared".to_string()].into_iter().collect(), real)
                } else {
                    DeltaVector::zero(0)
                }
            };
            // on a size-limited WAL all handles of a transaction must have records of one size
            let v = if w.cap.is_some() && matches!(v, V::YesFake(_)) { &V::YesLocked } else { v };
            let (vote, vstr) = match v {
                V::YesLocked => {
                    // a real lock on a fresh key, as `handle_prepare` would take it
                    w.book.key_seq += 1;
                    let key = format!("k{}", w.book.key_seq);
                    let h = w.c().lock_manager().try_lock(real, &[key.clone()]).expect("fresh key");
                    w.book.handles.push(HandleInfo { real: h, key, tx_c: can });
                    let hc = w.book.handles.len() as u64;
                    let la = cx.m.ask(&format!("lock {can} {hc}"));
                    w.trace.push(format!("lock {can} {hc}"));
                    let d = w.digest();
                    cx.rep.compare(&stream, || json!({"trace": w.trace}), &format!("ok | - | {d}"), &canon_model_answer(&la, false));
                    cx.rep.hit("vote.yes_locked");
                    (PrepareVote::Yes { lock_handle: h, delta: delta() }, format!("y{hc}"))
                }
                V::YesFake(k) => {
                    cx.rep.hit("vote.yes_fake");
                    (PrepareVote::Yes { lock_handle: FAKE_H_REAL + k, delta: delta() }, format!("y{}", FAKE_H_C + k))
                }
                V::No => {
                    cx.rep.hit("vote.no");
                    (PrepareVote::No { reason: "no".into() }, "n".to_string())
                }
                V::Conflict => {
                    cx.rep.hit("vote.conflict");
                    (PrepareVote::Conflict { similarity: 1.0, conflicting_tx: 1 }, "c".to_string())
                }
            };
            let is_yes = vstr.starts_with('y');
            let r = w.c().record_vote(real, *shard, vote);
            // the vote record is the first thing record_vote writes: no growth = the write failed
            let vote_logged = rot || w.file().len() > before_len;
            if !vote_logged {
                cx.rep.hit("res.vote.wal_failed");
            }
            let res = match &r {
                Ok(Some(p)) => format!("phase{}", phase_num(*p)),
                Ok(None) => "voted".to_string(),
                Err(VoteRecordError::TxNotFound(_)) => "not_found".to_string(),
                Err(VoteRecordError::WrongPhase { actual, .. }) => format!("wrong_phase{}", phase_num(*actual)),
                Err(VoteRecordError::DuplicateVote { .. }) => "duplicate".to_string(),
            };
            cx.rep.hit(&format!("res.vote.{}", res.trim_end_matches(char::is_numeric)));
            let mut xbit = 0;
            if let Some(ti) = w.book.txs.get_mut(*t) {
                if r.is_ok() && vote_logged {
                    ti.accepted.insert(*shard, vstr.clone());
                    if is_yes {
                        ti.yes_count += 1;
                    }
                    if ti.xflag && ti.yes_count >= 2 {
                        xbit = 1;
                    }
                } else if vote_logged {
                    ti.rejected_logged = true;
                }
            }
            check_tx = Some(Some(*t));
            (format!("vote {can} {shard} {vstr} {xbit}"), res)
        }
        Op::Commit(t) | Op::Abort(t) | Op::CCommit(t) | Op::CAbort(t) | Op::Force(t, _) => {
            strip = true;
            let real = w.book.tx_real(*t);
            let can = w.book.tx_can(*t);
            let (name, r) = match op {
                Op::Commit(_) => ("commit", w.c().commit(real)),
                Op::Abort(_) => ("abort", w.c().abort(real, "requested")),
                Op::CCommit(_) => ("ccommit", w.c().complete_commit(real)),
                Op::Force(_, b) => ("force", w.c().force_resolve(real, *b)),
                _ => ("cabort", w.c().complete_abort(real)),
            };
            cx.rep.hit(&format!("op.{name}"));
            let (res, why) = match &r {
                Ok(()) => ("ok".to_string(), "ok"),
                Err(e) => end_err(e),
            };
            cx.rep.hit(&format!("res.{name}.{why}"));
            if name == "commit" || name == "abort" {
                completion = Some((if name == "commit" { "commit" } else { "abort" }, can, r.is_ok()));
            }
            let commits = match op {
                Op::Force(_, b) => *b,
                _ => name.ends_with("commit"),
            };
            // oracle: a logged outcome is final
            if let Some(o) = w.book.durable.get(&can).copied() {
                if r.is_ok() {
                    let new = if commits { 'c' } else { 'a' };
                    let kind = if new != o { "logged_outcome_reversed" } else { "completed_twice" };
                    violation(cx, w, &format!("tensor_chain.distributed_tx.{name}/{kind}"),
                        "a transaction whose TxComplete record is in the log was completed again",
                        json!({"tx": can, "logged": o.to_string(), "now": new.to_string()}));
                }
            }
            // oracle: completion releases the locks of every accepted YES vote
            if r.is_ok() {
                if let Some(ti) = w.book.txs.get(*t) {
                    for v in ti.accepted.values() {
                        if let Some(hc) = v.strip_prefix('y').and_then(|x| x.parse::<usize>().ok()) {
                            if hc >= 1 && hc <= w.book.handles.len() && w.c().lock_manager().is_locked(&w.book.handles[hc - 1].key) {
                                // a rejected vote replayed from the WAL (recover_from_wal on the live coordinator) may
                                // have overwritten the accepted one: same root cause, same class
                                let class = if ti.rejected_logged {
                                    "tensor_chain.tx_wal.scan_entries/rejected_vote_recovered".to_string()
                                } else {
                                    format!("tensor_chain.distributed_tx.{name}/lock_left_behind")
                                };
                                violation(cx, w, &class,
                                    "lock of an accepted YES vote still held after completion", json!({"tx": can, "handle": hc}));
                            }
                        }
                    }
                }
            }
            check_tx = Some(Some(*t));
            match op {
                Op::Force(_, b) => (format!("force {can} {}", *b as u8), res),
                _ => (format!("{name} {can}"), res),
            }
        }
        Op::Cleanup => {
            cx.rep.hit("op.cleanup");
            // pin the clock: every pending tx must be clearly inside or clearly outside its timeout
            let t0 = pin_clock(w);
            let clocks = w.pending_clocks();
            let ids = w.c().cleanup_timeouts();
            let t1 = now_ms();
            if clocks.iter().any(|(s, to)| (t0.saturating_sub(*s) > *to) != (t1.saturating_sub(*s) > *to)) {
                w.clock_unsure = true;
                cx.rep.hit("clock.unsure_dropped");
                return;
            }
            let mut cs: Vec<u64> = ids.iter().map(|r| w.book.tx_c(*r)).collect();
            cs.sort_unstable();
            if !cs.is_empty() {
                cx.rep.hit("res.cleanup.timed_out_some");
            }
            for cid in &cs {
                if let Some(o) = w.book.durable.get(cid) {
                    violation(cx, w, "tensor_chain.distributed_tx.cleanup_timeouts/logged_outcome_reversed",
                        "a transaction with a logged outcome was timed out", json!({"tx": cid, "logged": o.to_string()}));
                }
                // locks of its accepted YES votes must be gone
                if let Some(ti) = w.book.txs.get(*cid as usize - 1) {
                    for v in ti.accepted.values() {
                        if let Some(hc) = v.strip_prefix('y').and_then(|x| x.parse::<usize>().ok()) {
                            if hc >= 1 && hc <= w.book.handles.len() && w.c().lock_manager().is_locked(&w.book.handles[hc - 1].key) {
                                let class = if ti.rejected_logged {
                                    "tensor_chain.tx_wal.scan_entries/rejected_vote_recovered"
                                } else {
                                    "tensor_chain.distributed_tx.cleanup_timeouts/lock_left_behind"
                                };
                                violation(cx, w, class,
                                    "lock of an accepted YES vote still held after timeout", json!({"tx": cid, "handle": hc}));
                            }
                        }
                    }
                }
            }
            let s = if cs.is_empty() { "-".to_string() } else { cs.iter().map(|x| x.to_string()).collect::<Vec<_>>().join(",") };
            (format!("cleanup {t0}"), format!("timed_out:{s}"))
        }
        Op::Flush => {
            cx.rep.hit("op.flush");
            let c = w.coord.as_ref().unwrap();
            w.rt.block_on(c.process_pending_aborts(&w.transport as &dyn Transport));
            ("flush".to_string(), "flushed".to_string())
        }
        Op::RecoverLive => {
            cx.rep.hit("op.recover_live");
            let before = live_snapshot(w);
            let t0 = now_ms();
            let r = w.c().recover_from_wal();
            let res = match r {
                Ok(s) => format!("recovered:{}:{}:{}:{}", s.pending_prepare, s.pending_commit, s.pending_abort, s.lock_releases_recovered),
                Err(e) => format!("err:{}", vname(&e)),
            };
            // oracles on the real coordinator, before the clock guard (they do not depend on the clock)
            check_recovery_call(w, cx, &before);
            if now_ms().saturating_sub(t0) > GUARD_MS / 2 {
                w.clock_unsure = true;
                return;
            }
            check_tx = Some(None);
            (format!("recover_live {t0}"), res)
        }
        Op::RecoverMem => {
            cx.rep.hit("op.recover_mem");
            let t0 = pin_clock(w);
            let clocks = w.pending_clocks();
            // what is pending before: (canonical id, phase, all yes, clearly inside its timeout)
            let before: Vec<(u64, TxPhase, bool, bool)> = w.book.txs.iter().enumerate().filter_map(|(i, ti)| {
                w.c().get(ti.real).map(|tx| (i as u64 + 1, tx.phase, tx.all_yes(), t0.saturating_sub(tx.started_at) + GUARD_MS <= tx.timeout_ms))
            }).collect();
            let st = w.c().recover();
            let t1 = now_ms();
            if clocks.iter().any(|(s, to)| (t0.saturating_sub(*s) > *to) != (t1.saturating_sub(*s) > *to)) {
                w.clock_unsure = true;
                cx.rep.hit("clock.unsure_dropped");
                return;
            }
            if st.timed_out > 0 {
                cx.rep.hit("res.recover_mem.timed_out_some");
            }
            if st.pending_commit > 0 {
                cx.rep.hit("res.recover_mem.commit_some");
            }
            // oracle: recover() decides a prepared transaction by its votes
            for (cid, ph, all_yes, inside) in &before {
                if *ph == TxPhase::Prepared && *all_yes && *inside {
                    let real = w.book.txs[*cid as usize - 1].real;
                    let now_ph = w.c().get(real).map(|t| t.phase);
                    if now_ph != Some(TxPhase::Committing) {
                        violation(cx, w, "tensor_chain.distributed_tx.recover/prepared_all_yes_not_committing",
                            "recover() did not move a prepared all-YES transaction inside its timeout to Committing",
                            json!({"tx": cid, "phase_after": now_ph.map(phase_num)}));
                    }
                }
                if w.book.durable.contains_key(cid) {
                    violation(cx, w, "tensor_chain.distributed_tx.recover/completed_tx_pending",
                        "a transaction with a logged outcome was pending when recover() ran", json!({"tx": cid}));
                }
            }
            check_tx = Some(None);
            (format!("recover_mem {t0}"),
             format!("recstats:{}:{}:{}:{}:{}", st.timed_out, st.pending_prepare, st.pending_commit, st.pending_abort, st.completed))
        }
        Op::Decisions => {
            cx.rep.hit("op.decisions");
            let mut ds: Vec<(u64, u8)> = w.c().get_pending_decisions().iter().map(|(id, ph)| (w.book.tx_c(*id), phase_num(*ph))).collect();
            ds.sort_unstable();
            for (cid, _) in &ds {
                if w.book.durable.contains_key(cid) {
                    violation(cx, w, "tensor_chain.distributed_tx.get_pending_decisions/completed_tx_listed",
                        "a transaction with a logged outcome is listed as a pending decision", json!({"tx": cid}));
                }
            }
            let s = if ds.is_empty() { "-".to_string() } else { ds.iter().map(|(t, p)| format!("{t}.{p}")).collect::<Vec<_>>().join(",") };
            ("decisions".to_string(), format!("decisions:{s}"))
        }
        Op::Truncate | Op::TruncateAnyway => {
            if matches!(op, Op::Truncate) && w.c().pending_count() != 0 {
                cx.rep.hit("op.truncate.skipped_pending");
                return;
            }
            cx.rep.hit("op.truncate");
            for i in 0..w.book.txs.len() {
                if w.c().get(w.book.txs[i].real).is_some() {
                    w.book.txs[i].truncated_away = true;
                }
            }
            let res = match w.c().truncate_wal() {
                Ok(()) => "ok".to_string(),
                Err(e) => format!("err:{}", vname(&e)),
            };
            ("truncate".to_string(), res)
        }
        Op::Sleep(ms) => {
            std::thread::sleep(Duration::from_millis(*ms));
            return;
        }
        Op::Crash { cut, timeout, maxc, cap } => {
            crash(w, cut, *timeout, *maxc, *cap, cx);
            return;
        }
    };
    w.trace.push(line.clone());
    // records appended by this call
    let bytes = w.file();
    let rotated = match &pre_bytes {
        Some(pb) => bytes.len() < pb.len() || bytes[..pb.len()] != pb[..],
        None => false,
    };
    if rotated {
        cx.rep.hit("wal.rotated");
        for i in 0..w.book.txs.len() {
            let begun_in_old_file = w.book.recs.iter().any(|r| r.token.starts_with(&format!("B:{}:", i + 1)));
            if begun_in_old_file && w.c().get(w.book.txs[i].real).is_some() {
                w.book.txs[i].rotated_away = true;
            }
        }
        w.book.recs.clear();
        w.book.durable.clear();
    }
    let recs = w.learn(&bytes, if rotated { 0 } else { before_len }, cx.m);
    let toks: Vec<String> = recs.iter().map(|r| r.token.clone()).collect();
    let mut new_outcome: Option<char> = None;
    for r in &recs {
        cx.rep.hit(&format!("wal.{}", &r.token[..1]));
        cx.rep.hit(&format!("wal.len.{}", len_bucket(r.plen)));
        if let Some(rest) = r.token.strip_prefix("C:") {
            let mut it = rest.split(':');
            let cid: u64 = it.next().unwrap_or("0").parse().unwrap_or(0);
            let o = it.next().unwrap_or("?").chars().next().unwrap_or('?');
            if let Some(prev) = w.book.durable.get(&cid) {
                if *prev != o {
                    violation(cx, w, "tensor_chain.tx_wal.log/two_outcomes_logged",
                        "the log holds TxComplete records with both outcomes for one transaction", json!({"tx": cid}));
                }
            }
            w.book.durable.insert(cid, o);
            if let Some((_, can, _)) = completion {
                if can == cid {
                    new_outcome = Some(o);
                }
            }
        }
    }
    // oracle: an answer and the log agree (outcome logged before it is acknowledged)
    if let (Some((name, can, ok)), false) = (completion, rotated) {
        let want = if name == "commit" { 'c' } else { 'a' };
        if ok && new_outcome != Some(want) {
            violation(cx, w, &format!("tensor_chain.distributed_tx.{name}/ok_without_logged_outcome"),
                "the call answered ok but its TxComplete record is not in the log", json!({"tx": can, "appended": toks}));
        }
        if !ok && toks.iter().any(|t| t.starts_with("C:")) {
            violation(cx, w, &format!("tensor_chain.distributed_tx.{name}/outcome_logged_but_error_answered"),
                "the call answered an error but wrote a TxComplete record", json!({"tx": can, "appended": toks}));
        }
    }
    if let Some(last) = recs.last() {
        if last.end != bytes.len() {
            cx.rep.note("a call left an incomplete frame at the end of the WAL");
        }
    }
    w.book.file_len = bytes.len();
    w.book.recs.extend(recs);
    if let Some(which) = check_tx {
        check_memory_vs_log(w, cx, which);
    }
    // oracle: nothing is pending that begin() did not hand out (a refused begin leaves no trace)
    {
        let known = w.book.txs.iter().filter(|t| w.c().get(t.real).is_some()).count()
            + usize::from(w.c().get(FAKE_TX_REAL).is_some());
        if known != w.c().pending_count() {
            violation(cx, w, "tensor_chain.distributed_tx.memory/unknown_pending_transaction",
                "the coordinator holds a pending transaction that no successful begin() returned (a begin whose WAL write failed must leave nothing behind)",
                json!({"known_pending": known, "pending_count": w.c().pending_count()}));
        }
    }
    let count_l = w.cap.is_some();
    let shown = if rotated { format!("~ {}", canon_runs(&toks, count_l)) } else { canon_runs(&toks, count_l) };
    let mut impl_ans = format!("{impl_res} | {shown} | {}", w.digest());
    let model_raw = ask_model(w, cx, &line);
    let mut model_ans = canon_model_answer_c(&model_raw, strip, count_l);
    if matches!(op, Op::Flush) {
        // the abort queue is private: compare what the flush wrote, not the count
        impl_ans = impl_ans.replacen("flushed", "flushed:*", 1);
        if let Some(rest) = model_ans.strip_prefix("flushed:") {
            let tail = rest.splitn(2, ' ').nth(1).unwrap_or("").to_string();
            model_ans = format!("flushed:* {tail}");
        }
    }
    cx.rep.compare(&stream, || json!({"trace": w.trace}), &impl_ans, &model_ans);
}

fn resolve_cut(w: &World, cut: &Cut, len: usize) -> usize {
    match cut {
        Cut::Full => len,
        Cut::Exact(n) => (*n).min(len),
        Cut::Frac(pm) => (len as u64 * *pm / 1000) as usize,
        Cut::Boundary { back, delta } => {
            let ends: Vec<usize> = std::iter::once(0).chain(w.book.recs.iter().map(|r| r.end)).collect();
            let idx = ends.len().saturating_sub(1 + *back);
            let b = ends[idx] as i64 + *delta;
            b.clamp(0, len as i64) as usize
        }
    }
}

/// kill the process image, cut the file, start a new coordinator on it, recover
fn crash(w: &mut World, cut: &Cut, timeout: u64, maxc: usize, cap: Option<(u64, bool)>, cx: &mut Ctx) {
    let pre = w.file();
    let n = resolve_cut(w, cut, pre.len());
    restart_at(w, &pre, n, timeout, maxc, cap, cx);
}

fn restart_at(w: &mut World, pre: &[u8], n: usize, timeout: u64, maxc: usize, cap: Option<(u64, bool)>, cx: &mut Ctx) {
    // what the dying process holds as Prepared (only meaningful when the whole file survives)
    let prepared_in_memory: Vec<usize> = match (&w.coord, n == pre.len()) {
        (Some(c), true) => (0..w.book.txs.len()).filter(|t| c.get(w.book.txs[*t].real).map(|x| x.phase) == Some(TxPhase::Prepared)).collect(),
        _ => vec![],
    };
    w.coord = None; // drop: BufWriter has nothing buffered (every append flushes + fsyncs)
    w.crashes += 1;
    let cutb = &pre[..n];
    std::fs::write(&w.path, cutb).unwrap();
    // what must survive: every record the harness saw appended whose last byte is before the cut
    let expect: Vec<Rec> = w.book.recs.iter().filter(|r| r.end <= n).cloned().collect();
    let at_boundary = n == 0 || w.book.recs.iter().any(|r| r.end == n) || frames(cutb, 0).last().map(|f| f.1) == Some(n);
    let whole = frames(cutb, 0).last().map(|f| f.1).unwrap_or(0);
    let torn_now = whole != n;
    cx.rep.hit(if torn_now { "cut.torn" } else { "cut.boundary" });
    let _ = at_boundary;
    w.trace.push(format!("crash cut={n}/{} (whole-frame prefix {whole}) timeout={timeout} maxc={maxc} cap={cap:?}", pre.len()));

    // model: classification of the raw cut bytes, valid_len, then restart
    cx.m.ask(&new_line(timeout, maxc, cap));
    let hexb = hex(cutb);
    // (files of more than 512 KiB: the model's separate `recover` / `valid_len` answers are skipped for
    // time - its `restart` below goes through the same repair, replay and scan - and the streams
    // recover.class / wal.valid_len are not compared for that restart)
    let huge = n > 512 * 1024;
    let m_class = if huge { String::new() } else { cx.m.ask(&format!("recover {hexb}")) };
    let m_vlen = if huge { String::new() } else { cx.m.ask(&format!("valid_len {hexb}")) };

    let t0 = now_ms();
    let (c, replayed, len_after_open, counted) = new_coord_counted(&w.path, timeout, maxc, cap);
    w.coord = Some(c);
    w.timeout = timeout;
    w.maxc = maxc;
    w.cap = cap;
    let sp = cx.stream_prefix;
    if !huge {
        cx.rep.compare(&format!("{sp}wal.valid_len"), || json!({"trace": w.trace}), &len_after_open.to_string(), &m_vlen);
    }

    // classification straight from the WAL (a second handle on the same file, read only)
    let class_impl = {
        let wal2 = TxWal::open_with_config(&w.path, wal_cfg(None)).unwrap();
        match TxRecoveryState::from_wal(&wal2) {
            Ok(st) => show_recovery(&st, &w.book),
            Err(_) => "err checksum".to_string(),
        }
    };
    if !huge {
        cx.rep.compare(&format!("{sp}recover.class"), || json!({"trace": w.trace, "bytes": hexb}), &class_impl, &m_class);
    }

    let rec = w.c().recover_from_wal();
    let t1 = now_ms();
    let log_tokens: Result<Vec<String>, String> = replayed.map(|es| es.iter().map(|e| w.book.token(e)).collect());

    // ---- oracle: acknowledged records survive — every record the harness saw appended (fsynced,
    // acknowledged) whose last byte lies before the cut is replayed after the restart, whatever its
    // size and whatever surrounds it.  (This is what the torn-tail defect broke; it is also what a
    // read side that accepts fewer frames than the write side produces breaks.)  Real outputs only:
    // evaluated before the clock guard, independent of the model.
    let expect_toks: Vec<String> = expect.iter().map(|r| r.token.clone()).collect();
    let got = log_tokens.clone().unwrap_or_default();
    if rec.is_err() || log_tokens.is_err() || got != expect_toks {
        let class = if w.book.torn_tail_seen {
            "tensor_chain.tx_wal.open/append_after_torn_tail"
        } else {
            "tensor_chain.tx_wal.replay/acknowledged_record_lost"
        };
        let lost: Vec<&String> = expect_toks.iter().filter(|t| !got.contains(t)).collect();
        // the payload lengths of the surviving records, in file order, up to the first lost one
        let first_lost = expect_toks.iter().zip(got.iter()).position(|(a, b)| a != b).unwrap_or(got.len().min(expect_toks.len()));
        let lens: Vec<usize> = expect.iter().map(|r| r.plen).collect();
        violation(cx, w, class,
            "records appended (fsynced, acknowledged) before the cut are not what replay returns after restart",
            json!({"expected": expect_toks, "replayed": got, "lost": lost, "payload_lengths_of_expected_records": lens,
                   "first_record_not_replayed": first_lost, "recover_err": rec.as_ref().err().map(|e| e.to_string())}));
    }
    // ---- oracle: the two readers of the file agree — `TxWal::open` counts the complete records of
    // the file by their headers (`entry_count()`), `replay()` returns them; every record in these
    // files was written by `append`, so replay must return as many as open counted
    cx.rep.hit("oracle.open_count_vs_replay");
    if let Ok(toks) = &log_tokens {
        if toks.len() as u64 != counted {
            let class = if w.book.torn_tail_seen {
                "tensor_chain.tx_wal.open/append_after_torn_tail"
            } else {
                "tensor_chain.tx_wal.replay/fewer_records_than_open_counted"
            };
            violation(cx, w, class,
                "TxWal::open counted more complete records in the file than TxWal::replay returns: records written by append are invisible to recovery",
                json!({"entry_count_after_open": counted, "replayed": toks.len(),
                       "payload_lengths_in_file": frames(cutb, 0).iter().map(|f| f.2.len()).collect::<Vec<_>>()}));
        }
    }
    if t1.saturating_sub(t0) > GUARD_MS / 2 {
        w.clock_unsure = true;
        cx.rep.hit("clock.unsure_dropped");
        return;
    }
    let m_restart = cx.m.ask(&format!("restart {hexb} {t0}"));
    let impl_restart = match (&rec, &log_tokens) {
        (Ok(_), Ok(toks)) => format!("ok | {} | {}", if toks.is_empty() { "-".to_string() } else { toks.join(" ") }, w.digest()),
        _ => "err checksum".to_string(),
    };
    let model_restart = {
        let parts: Vec<&str> = m_restart.splitn(3, " | ").collect();
        if parts.len() == 3 {
            format!("{} | {} | {}", parts[0], parts[1], parts[2].split(" aborts=").next().unwrap_or(""))
        } else {
            m_restart.clone()
        }
    };
    cx.rep.compare(&format!("{sp}coord.restart"), || json!({"trace": w.trace, "bytes": hexb}), &impl_restart, &model_restart);

    if torn_now {
        w.book.torn_tail_seen = true;
    }
    // the file now: after a correct open the torn tail is gone
    w.book.recs = expect;
    w.book.file_len = len_after_open as usize;
    if len_after_open as usize != whole {
        // pre-fix behaviour: garbage stays; later appends go after it
        w.book.file_len = n;
    }
    // durable outcomes = TxComplete records that survived
    w.book.durable.clear();
    for r in &w.book.recs {
        if let Some(rest) = r.token.strip_prefix("C:") {
            let mut it = rest.split(':');
            let cid: u64 = it.next().unwrap_or("0").parse().unwrap_or(0);
            let o = it.next().unwrap_or("?").chars().next().unwrap_or('?');
            w.book.durable.insert(cid, o);
        }
    }
    if rec.is_err() {
        return;
    }
    // ---- oracle: what memory held as Prepared survives the loss of the process (whole file kept).
    // The class names the cause read off the trace: the file that held the transaction's TxBegin
    // was rotated away / truncate_wal() ran while it was pending (known findings), or neither.
    for t in prepared_in_memory {
        cx.rep.hit("oracle.prepared_in_memory_durable");
        if w.c().get(w.book.txs[t].real).map(|x| x.phase) != Some(TxPhase::Prepared) {
            let ti = &w.book.txs[t];
            let (class, what) = if ti.truncated_away {
                cx.rep.hit("truncate.prepared_tx_dropped");
                ("tensor_chain.distributed_tx.truncate_wal/in_flight_transactions_dropped",
                 "truncate_wal() emptied the WAL while a transaction record_vote had acknowledged as Prepared was pending: it is forgotten by the restart")
            } else if ti.rotated_away {
                cx.rep.hit("rot.prepared_tx_dropped");
                ("tensor_chain.tx_wal.rotate/in_flight_transactions_dropped",
                 "size-limit rotation renamed the WAL file holding a pending transaction away; replay / recover_from_wal read only the current file: a transaction that was Prepared in memory is forgotten by the restart")
            } else {
                ("tensor_chain.distributed_tx.memory/prepared_in_memory_not_durable",
                 "a transaction that was Prepared in memory did not come back Prepared after a restart on the whole file")
            };
            violation(cx, w, class, what, json!({"tx": t + 1, "size_limit_of_the_dead_process": format!("{:?}", w.trace.first())}));
        }
    }
    // ---- oracles on the recovered coordinator, from the surviving records alone
    let surv: Vec<String> = w.book.recs.iter().map(|r| r.token.clone()).collect();
    for (i, ti) in w.book.txs.clone().iter().enumerate() {
        let cid = i as u64 + 1;
        let mine: Vec<&String> = surv.iter().filter(|t| t.split(':').nth(1) == Some(&cid.to_string())).collect();
        let begun = mine.iter().any(|t| t.starts_with("B:"));
        let completed = mine.iter().find(|t| t.starts_with("C:")).map(|t| t.chars().last().unwrap());
        let last_phase = mine.iter().filter(|t| t.starts_with("P:")).last().map(|t| t.rsplit(':').next().unwrap().to_string());
        let got = w.c().get(ti.real);
        let held = w.c().lock_manager().lock_count_for_transaction(ti.real) + w.c().lock_manager().keys_for_transaction(ti.real).len();
        if let Some(o) = completed {
            cx.rep.hit("restart.tx.completed");
            if got.is_some() {
                violation(cx, w, "tensor_chain.distributed_tx.recover_from_wal/completed_tx_resurrected",
                    "a transaction with a logged outcome is pending again after restart", json!({"tx": cid, "logged": o.to_string()}));
            }
            if held != 0 {
                violation(cx, w, "tensor_chain.distributed_tx.recover_from_wal/completed_tx_holds_locks",
                    "completed transaction holds locks after restart", json!({"tx": cid}));
            }
        } else if !begun || last_phase.is_none() {
            cx.rep.hit(if begun { "restart.tx.forgotten" } else { "restart.tx.never_logged" });
            if got.is_some() {
                violation(cx, w, "tensor_chain.distributed_tx.recover_from_wal/preparing_tx_not_forgotten",
                    "a transaction still collecting votes is pending after restart", json!({"tx": cid}));
            }
            if held != 0 {
                violation(cx, w, "tensor_chain.distributed_tx.recover_from_wal/forgotten_tx_holds_locks",
                    "forgotten transaction holds locks after restart", json!({"tx": cid}));
            }
        } else if last_phase.as_deref() == Some("1") {
            cx.rep.hit("restart.tx.prepared");
            match got {
                None => violation(cx, w, "tensor_chain.distributed_tx.recover_from_wal/prepared_tx_lost",
                    "a prepared transaction without outcome is gone after restart", json!({"tx": cid})),
                Some(tx) => {
                    let mut vs: BTreeMap<usize, String> = BTreeMap::new();
                    for (s, v) in &tx.votes {
                        vs.insert(*s, match v {
                            PrepareVote::Yes { lock_handle, .. } => format!("y{}", w.book.h_c(*lock_handle)),
                            _ => "n".to_string(),
                        });
                    }
                    let want: BTreeMap<usize, String> =
                        ti.accepted.iter().map(|(s, v)| (*s, if v == "c" { "n".to_string() } else { v.clone() })).collect();
                    if tx.phase != TxPhase::Prepared || tx.participants != ti.parts {
                        violation(cx, w, "tensor_chain.distributed_tx.recover_from_wal/prepared_tx_altered",
                            "prepared transaction came back with another phase / participants", json!({"tx": cid}));
                    }
                    if vs != want {
                        let class = if ti.rejected_logged {
                            "tensor_chain.tx_wal.scan_entries/rejected_vote_recovered"
                        } else {
                            "tensor_chain.distributed_tx.recover_from_wal/prepared_votes_differ"
                        };
                        violation(cx, w, class,
                            "prepared transaction came back with votes that differ from the votes the coordinator had accepted",
                            json!({"tx": cid, "accepted": want, "recovered": vs}));
                    }
                }
            }
        } else {
            cx.rep.hit("restart.tx.deciding");
        }
    }
    if w.c().lock_manager().active_lock_count() != 0 {
        violation(cx, w, "tensor_chain.distributed_tx.recover_from_wal/locks_after_restart",
            "lock table not empty after restart", json!({}));
    }
    // after a restart nothing the old process accepted in memory is left except what was recovered
    for ti in w.book.txs.iter_mut() {
        ti.yes_count = 0;
    }
}

fn show_recovery(st: &TxRecoveryState, b: &Book) -> String {
    let show = |v: &Vec<tensor_chain::RecoveredPreparedTx>| {
        let mut xs: Vec<(u64, String)> = v
            .iter()
            .map(|r| {
                let votes = if r.votes.is_empty() {
                    "-".to_string()
                } else {
                    r.votes
                        .iter()
                        .map(|(s, k)| match k {
                            PrepareVoteKind::Yes { lock_handle } => format!("{s}.y{}", b.h_c(*lock_handle)),
                            _ => format!("{s}.n"),
                        })
                        .collect::<Vec<_>>()
                        .join("/")
                };
                (b.tx_c(r.tx_id), format!("{}:{}:{}", b.tx_c(r.tx_id), show_list(&r.participants), votes))
            })
            .collect();
        xs.sort();
        format!("[{}]", xs.into_iter().map(|x| x.1).collect::<Vec<_>>().join(";"))
    };
    let mut orph: Vec<(u64, u64)> = st.orphaned_locks.iter().map(|o| (b.tx_c(o.tx_id), b.h_c(o.lock_handle))).collect();
    orph.sort();
    let mut ints: Vec<(u64, String)> = st
        .pending_abort_intents
        .iter()
        .map(|i| (b.tx_c(i.tx_id), format!("{}:{}:{}", b.tx_c(i.tx_id), i.reason.replace(' ', "_"), show_list(&i.shards))))
        .collect();
    ints.sort();
    format!(
        "prepared={} committing={} aborting={} orphans=[{}] intents=[{}]",
        show(&st.prepared_txs),
        show(&st.committing_txs),
        show(&st.aborting_txs),
        orph.iter().map(|(t, h)| format!("{t}.{h}")).collect::<Vec<_>>().join(";"),
        ints.into_iter().map(|x| x.1).collect::<Vec<_>>().join(";")
    )
}

// ------------------------------------------------------------------ generators

/// the life of one transaction, as a list of ops on tx index `t`
fn plan(r: &mut Rng, t: usize, wide: Option<usize>, allow_timeouts: bool) -> (Op, Vec<Op>) {
    if let Some(n) = wide {
        // a WIDE transaction: `n` participant shards, so its TxBegin (and the AbortIntent written
        // for it when it times out) is a long record in the middle of the other transactions'
        // records.  It cannot collect all votes in a short script: it stays Preparing, is voted on
        // a little, aborted, refused a commit, or times out.
        let parts: Vec<usize> = (0..n).collect();
        let mut ops = vec![];
        match r.below(4) {
            0 => {}
            1 => ops.push(Op::Vote { t, shard: 0, v: V::YesLocked }),
            2 => {
                ops.push(Op::Vote { t, shard: 0, v: V::YesLocked });
                ops.push(Op::Vote { t, shard: 1, v: V::No });
            }
            _ => ops.push(Op::Vote { t, shard: n - 1, v: V::YesLocked }),
        }
        if allow_timeouts && r.chance(2, 3) {
            ops.push(Op::Sleep(2 * GUARD_MS));
            ops.push(Op::Cleanup);
            ops.push(Op::Flush);
        }
        match r.below(6) {
            0 => ops.push(Op::Commit(t)),
            1 | 2 => ops.push(Op::Abort(t)),
            _ => {}
        }
        return (Op::Begin { parts, xflag: false }, ops);
    }
    let np = 1 + r.below(3) as usize;
    let mut parts: Vec<usize> = (0..np).collect();
    if r.chance(1, 8) {
        parts = vec![3, 1];
    }
    let xflag = np >= 2 && r.chance(1, 7);
    let begin = Op::Begin { parts: parts.clone(), xflag };
    let mut ops = vec![];
    let style = r.below(12);
    let yes = |r: &mut Rng| if r.chance(4, 5) { V::YesLocked } else { V::YesFake(r.below(3)) };
    match style {
        0 => {}                              // begun, never voted
        1 => {                               // some votes only
            ops.push(Op::Vote { t, shard: parts[0], v: yes(r) });
        }
        2 | 3 => {                           // a NO / conflict vote among them
            for (i, s) in parts.iter().enumerate() {
                let v = if i == parts.len() - 1 { if r.chance(1, 2) { V::No } else { V::Conflict } } else { yes(r) };
                ops.push(Op::Vote { t, shard: *s, v });
            }
        }
        _ => {                               // all YES, with duplicate / late / foreign votes sprinkled in
            for s in &parts {
                ops.push(Op::Vote { t, shard: *s, v: yes(r) });
                if r.chance(1, 6) {
                    let v = match r.below(3) { 0 => V::No, 1 => yes(r), _ => V::Conflict };
                    ops.push(Op::Vote { t, shard: *s, v });
                }
            }
            if r.chance(1, 6) {
                let v = match r.below(3) { 0 => V::No, 1 => yes(r), _ => V::Conflict };
                ops.push(Op::Vote { t, shard: *r.pick(&parts), v });
            }
            if r.chance(1, 10) {
                ops.push(Op::Vote { t, shard: 7, v: V::No });
            }
        }
    }
    match r.below(10) {
        0..=3 => ops.push(Op::Commit(t)),
        4..=5 => ops.push(Op::Abort(t)),
        6 => {
            ops.push(Op::Commit(t));
            ops.push(Op::Abort(t));
        }
        7 => {
            ops.push(Op::Abort(t));
            ops.push(Op::Commit(t));
        }
        _ => {}
    }
    (begin, ops)
}

/// interleave the plans of `n` transactions, with global ops sprinkled in
fn gen_phase(r: &mut Rng, first_t: usize, n: usize, allow_timeouts: bool) -> Vec<Op> {
    gen_phase_wide(r, first_t, n, allow_timeouts, None)
}

/// `wide` = participant count of one wide transaction among the `n` (which one: drawn here)
fn gen_phase_wide(r: &mut Rng, first_t: usize, n: usize, allow_timeouts: bool, wide: Option<usize>) -> Vec<Op> {
    let mut queues: Vec<Vec<Op>> = vec![];
    let wide_at = if wide.is_some() { r.below(n as u64) as usize } else { usize::MAX };
    for i in 0..n {
        let (b, mut rest) = plan(r, first_t + i, if i == wide_at { wide } else { None }, allow_timeouts);
        rest.insert(0, b);
        queues.push(rest);
    }
    // begins must happen in index order so that `t` means what the plan meant
    let mut out = vec![];
    let mut begun = 0;
    loop {
        let live: Vec<usize> = (0..queues.len()).filter(|i| !queues[*i].is_empty() && (*i <= begun)).collect();
        if live.is_empty() {
            break;
        }
        let i = *r.pick(&live);
        let op = queues[i].remove(0);
        if matches!(op, Op::Begin { .. }) {
            if i != begun {
                queues[i].insert(0, op);
                continue;
            }
            begun += 1;
        }
        out.push(op);
        match r.below(40) {
            0 => out.push(Op::Flush),
            1 if allow_timeouts => out.push(Op::Cleanup),
            2 => out.push(Op::RecoverLive),
            3 => out.push(Op::Vote { t: 99, shard: 0, v: V::No }),
            4 => out.push(Op::Commit(99)),
            5 => out.push(Op::RecoverMem),
            6 => out.push(Op::Decisions),
            _ => {}
        }
    }
    out
}

/// ops a restarted coordinator is hit with: every transaction is prodded in every way
fn gen_after(r: &mut Rng, known: usize) -> Vec<Op> {
    let mut out = vec![];
    let k = 2 + r.below(6);
    for _ in 0..k {
        let t = r.below(known.max(1) as u64) as usize;
        out.push(match r.below(16) {
            0 | 1 => Op::Commit(t),
            2 | 3 => Op::Abort(t),
            4 => Op::CCommit(t),
            5 => Op::CAbort(t),
            6 => Op::Cleanup,
            7 => Op::RecoverLive,
            8 => Op::Flush,
            9 => Op::Vote { t, shard: r.below(3) as usize, v: if r.chance(1, 2) { V::No } else { V::YesFake(2) } },
            10 | 11 => Op::RecoverMem,
            12 => Op::Decisions,
            13 => Op::Force(t, r.chance(1, 2)),
            14 => Op::CCommit(t),
            15 if r.chance(1, 2) => Op::Truncate,
            _ => Op::Cleanup,
        });
    }
    out
}

fn gen_cut(r: &mut Rng) -> Cut {
    match r.below(10) {
        0 => Cut::Full,
        1..=6 => Cut::Boundary { back: r.below(6) as usize, delta: *r.pick(&[0i64, 0, -1, 1, -3, 3, -7, 7]) },
        _ => Cut::Frac(r.below(1001)),
    }
}

fn pick_timeout(r: &mut Rng) -> u64 {
    match r.below(8) {
        0 => 0,
        _ => NEVER_MS,
    }
}

/// size limit (no rotation) for a process started on a file of `len` bytes: room for a few records
fn pick_cap(r: &mut Rng, len: usize, capped: bool) -> Option<(u64, bool)> {
    if !capped || r.chance(1, 3) {
        return None;
    }
    Some((len as u64 + *r.pick(&[0u64, 9, 25, 40, 60, 90, 150, 300]), false))
}

/// finish every pending transaction, restart cleanly, and require the outcomes to have stuck
fn drain_and_verify(w: &mut World, cx: &mut Ctx, r: &mut Rng) {
    if w.clock_unsure {
        return;
    }
    if w.cap.is_some() {
        // decisions need a WAL that takes records: restart without the size limit first
        if w.crashes >= 3 {
            return;
        }
        let (to, mc) = (w.timeout, w.maxc);
        exec(w, &Op::Crash { cut: Cut::Full, timeout: to, maxc: mc, cap: None }, cx);
        if w.clock_unsure {
            return;
        }
    }
    let n = w.book.txs.len();
    let mut decided: BTreeMap<u64, char> = BTreeMap::new();
    for t in 0..n {
        let real = w.book.txs[t].real;
        if let Some(tx) = w.c().get(real) {
            let op = match tx.phase {
                TxPhase::Prepared => if r.chance(1, 2) { Op::Commit(t) } else { Op::Abort(t) },
                TxPhase::Committing => if r.chance(2, 3) { Op::CCommit(t) } else { Op::Abort(t) },
                _ => Op::Abort(t),
            };
            let was_prepared = tx.phase == TxPhase::Prepared;
            exec(w, &op, cx);
            if w.clock_unsure {
                return;
            }
            if w.c().get(real).is_some() {
                if was_prepared {
                    violation(cx, w, "tensor_chain.distributed_tx.commit/prepared_tx_cannot_complete",
                        "a (recovered) prepared transaction could not be driven to completion", json!({"tx": t + 1}));
                }
            } else {
                match op {
                    Op::Commit(_) => { decided.insert(t as u64 + 1, 'c'); }
                    Op::Abort(_) => { decided.insert(t as u64 + 1, 'a'); }
                    _ => {}
                }
            }
        }
    }
    if w.crashes >= 3 {
        return;
    }
    let to = w.timeout;
    let mc = w.maxc;
    exec(w, &Op::Crash { cut: Cut::Full, timeout: to, maxc: mc, cap: None }, cx);
    if w.clock_unsure {
        return;
    }
    for (cid, o) in &decided {
        if w.book.durable.get(cid) != Some(o) {
            violation(cx, w, "tensor_chain.tx_wal.replay/decision_lost",
                "a decision logged after recovery is not in the log after a clean restart", json!({"tx": cid, "decided": o.to_string()}));
        }
        let real = w.book.txs[*cid as usize - 1].real;
        if w.c().get(real).is_some() {
            violation(cx, w, "tensor_chain.distributed_tx.recover_from_wal/completed_tx_resurrected",
                "a completed transaction is pending after a clean restart", json!({"tx": cid}));
        }
    }
}

/// one scenario: phase A, then up to three crashes with activity in between
fn scenario(seed_rng: &mut Rng, cx: &mut Ctx, first_cuts: Option<&mut Vec<usize>>, all_cuts: bool, wide: Option<usize>) -> (u64, bool) {
    let mut r = seed_rng.clone();
    // a wide transaction needs company: the records written after its long ones are the point
    let ntx = if wide.is_some() { 2 + r.below(3) as usize } else { 1 + r.below(4) as usize };
    let timeout_a = if wide.is_some() && r.chance(1, 2) { 0 } else { pick_timeout(&mut r) };
    // every byte of a file with a 64 KiB record is too many restarts: boundaries +- a few bytes
    let all_cuts = all_cuts && wide.is_none();
    if wide.is_some() {
        cx.rep.hit("scenario.wide");
    }
    let maxc = if r.chance(1, 10) { 2 } else { 100 };
    // one scenario in five runs on size-limited WALs (appends fail once the file is full)
    let capped = r.chance(1, 5);
    let cap_a = if capped { Some((30 + r.below(420), false)) } else { None };
    // (several transactions timing out at once queue their aborts in hash-map order; which
    // AbortIntent records then fit a full WAL would depend on it)
    let timeout_a = if capped { NEVER_MS } else { timeout_a };
    if capped {
        cx.rep.hit("scenario.capped");
    }
    let mut phase_a = gen_phase_wide(&mut r, 0, ntx, timeout_a == 0, wide);
    {
        let mut rl = r.fork("live_a");
        if rl.chance(1, 4) {
            sprinkle_recover_live(&mut rl, &mut phase_a);
            cx.rep.hit("scenario.recover_live_sprinkled");
        }
    }
    let mut cases = 0u64;
    let mut nontrivial = false;

    // run phase A once to learn the file, then explore cuts of it
    let mut w = World::new_capped(timeout_a, maxc, cap_a, cx.m);
    for op in &phase_a {
        exec(&mut w, op, cx);
    }
    if w.clock_unsure {
        return (0, false);
    }
    let file_a = w.file();
    let book_a = w.book.clone();
    let trace_a = w.trace.clone();
    let ends: Vec<usize> = std::iter::once(0).chain(book_a.recs.iter().map(|x| x.end)).collect();
    let mut cuts: Vec<usize> = vec![];
    if all_cuts {
        cuts = (0..=file_a.len()).collect();
    } else {
        for e in &ends {
            for d in [0i64, -1, 1, -3, 3, -7, 7] {
                let c = *e as i64 + d;
                if c >= 0 && c as usize <= file_a.len() {
                    cuts.push(c as usize);
                }
            }
        }
        for _ in 0..4 {
            cuts.push(r.below(file_a.len() as u64 + 1) as usize);
        }
        cuts.sort_unstable();
        cuts.dedup();
        // quick tier: a sample of them per scenario
        let keep = if wide.is_some() { 5usize } else { 10usize };
        if cuts.len() > keep {
            r.shuffle(&mut cuts);
            cuts.truncate(keep);
            cuts.push(file_a.len());
            cuts.sort_unstable();
            cuts.dedup();
        }
    }
    if let Some(fc) = first_cuts {
        *fc = cuts.clone();
    }
    for (ci, n) in cuts.iter().enumerate() {
        let mut rb = r.fork(&format!("cut{ci}"));
        // a fresh world holding phase A's file and bookkeeping
        let mut wb = World::dead_copy(&w);
        wb.book = book_a.clone();
        wb.trace = trace_a.clone();
        let t1 = if capped { NEVER_MS } else { pick_timeout(&mut rb) };
        let cap1 = pick_cap(&mut rb, *n, capped);
        restart_at(&mut wb, &file_a, *n, t1, maxc, cap1, cx);
        // activity, second crash, activity, third crash
        let rounds = 1 + rb.below(3);
        for round in 0..rounds {
            let known = wb.book.txs.len();
            for op in gen_after(&mut rb, known) {
                exec(&mut wb, &op, cx);
            }
            let n_more = 1 + rb.below(2) as usize;
            let mut more = gen_phase(&mut rb, wb.book.txs.len(), n_more, wb.timeout == 0);
            // every other round: recovery calls on the running coordinator in between the new
            // transactions' begins and votes (own generator: the other draws stay what they were)
            let mut rl = rb.fork(&format!("live{round}"));
            if rl.chance(1, 2) {
                sprinkle_recover_live(&mut rl, &mut more);
                cx.rep.hit("scenario.recover_live_sprinkled");
            }
            for op in &more {
                exec(&mut wb, op, cx);
            }
            if round + 1 < rounds && wb.crashes < 3 {
                let cut = gen_cut(&mut rb);
                let to = if capped { NEVER_MS } else { pick_timeout(&mut rb) };
                let cap = pick_cap(&mut rb, wb.book.file_len, capped);
                exec(&mut wb, &Op::Crash { cut, timeout: to, maxc, cap }, cx);
            }
        }
        drain_and_verify(&mut wb, cx, &mut rb);
        w.defined.extend(wb.defined.iter().cloned());
        if wb.clock_unsure {
            continue;
        }
        cases += 1;
        let key = wb.trace.join(";");
        let nt = wb.book.recs.iter().any(|x| x.token.starts_with("C:") || x.token.starts_with("P:"));
        nontrivial |= nt;
        cx.rep.case(&format!("{}scenario", cx.stream_prefix), if nt { Some(&key) } else { None });
        cx.rep.hit(&format!("crashes.{}", wb.crashes));
        if cx.rep.samples.len() < 4 && nt && wb.crashes >= 2 {
            cx.rep.sample(json!({"stream": "scenario", "trace": wb.trace}));
        }
    }
    (cases, nontrivial)
}

/// hand-written scripts: the shapes the property statement names
fn directed(cx: &mut Ctx) {
    let yes = V::YesLocked;
    let b2 = Op::Begin { parts: vec![0, 1], xflag: false };
    let scripts: Vec<(&str, Vec<Op>)> = vec![
        ("commit-then-crash-in-every-record", vec![
            b2.clone(), Op::Vote { t: 0, shard: 0, v: yes.clone() }, Op::Vote { t: 0, shard: 1, v: yes.clone() }, Op::Commit(0),
        ]),
        ("abort-prepared", vec![
            b2.clone(), Op::Vote { t: 0, shard: 0, v: yes.clone() }, Op::Vote { t: 0, shard: 1, v: yes.clone() }, Op::Abort(0),
        ]),
        ("duplicate-vote-then-prepared", vec![
            b2.clone(), Op::Vote { t: 0, shard: 0, v: yes.clone() }, Op::Vote { t: 0, shard: 0, v: V::No },
            Op::Vote { t: 0, shard: 1, v: yes.clone() },
        ]),
        ("late-vote-after-prepared", vec![
            b2.clone(), Op::Vote { t: 0, shard: 0, v: yes.clone() }, Op::Vote { t: 0, shard: 1, v: yes.clone() },
            Op::Vote { t: 0, shard: 1, v: V::No },
        ]),
        ("no-vote-aborting-unlogged", vec![
            b2.clone(), Op::Vote { t: 0, shard: 0, v: yes.clone() }, Op::Vote { t: 0, shard: 1, v: V::No }, Op::Flush,
        ]),
        ("cross-shard-conflict", vec![
            Op::Begin { parts: vec![0, 1], xflag: true }, Op::Vote { t: 0, shard: 0, v: yes.clone() }, Op::Vote { t: 0, shard: 1, v: yes.clone() },
            Op::Flush,
        ]),
        ("empty-participants-prepared-by-a-foreign-vote", vec![
            Op::Begin { parts: vec![], xflag: false }, Op::Vote { t: 0, shard: 5, v: yes.clone() },
        ]),
        ("duplicate-participants", vec![
            Op::Begin { parts: vec![0, 0], xflag: false }, Op::Vote { t: 0, shard: 0, v: yes.clone() }, Op::RecoverMem, Op::Decisions,
        ]),
        ("two-tx-one-committed-one-prepared", vec![
            b2.clone(), Op::Begin { parts: vec![0], xflag: false },
            Op::Vote { t: 0, shard: 0, v: yes.clone() }, Op::Vote { t: 1, shard: 0, v: yes.clone() }, Op::Vote { t: 0, shard: 1, v: yes.clone() },
            Op::Commit(0),
        ]),
    ];
    for (name, ops) in scripts {
        cx.rep.hit(&format!("directed.{name}"));
        let mut w = World::new(NEVER_MS, 100, cx.m);
        for op in &ops {
            exec(&mut w, op, cx);
        }
        let file = w.file();
        for n in 0..=file.len() {
            let mut wb = World::dead_copy(&w);
            restart_at(&mut wb, &file, n, NEVER_MS, 100, None, cx);
            // prod the transaction in both directions, then a new transaction, then crash again
            // in the middle of what was just written
            let flip = n % 2 == 0;
            exec(&mut wb, &if flip { Op::Abort(0) } else { Op::Commit(0) }, cx);
            exec(&mut wb, &if flip { Op::Commit(0) } else { Op::Abort(0) }, cx);
            exec(&mut wb, &Op::Cleanup, cx);
            let t = wb.book.txs.len();
            exec(&mut wb, &Op::Begin { parts: vec![0], xflag: false }, cx);
            exec(&mut wb, &Op::Vote { t, shard: 0, v: V::YesLocked }, cx);
            exec(&mut wb, &Op::Commit(t), cx);
            exec(&mut wb, &Op::Crash { cut: Cut::Boundary { back: (n % 4) as usize, delta: [0i64, -1, 3, -7][n % 4] }, timeout: NEVER_MS, maxc: 100, cap: None }, cx);
            let mut rr = Rng::new(n as u64);
            drain_and_verify(&mut wb, cx, &mut rr);
            w.defined.extend(wb.defined.iter().cloned());
            if !wb.clock_unsure {
                let key = wb.trace.join(";");
                cx.rep.case("directed", Some(&key));
            }
        }
    }
}

/// `recover_from_wal` called again on the RUNNING coordinator, with transactions of the current
/// life pending ("every following sequence of recovery calls ... and further transactions"): the
/// shortest history in which inserting-into (rather than replacing) the pending map is the only
/// thing that keeps a live transaction, and its neighbours.  Each script names the outcomes its
/// transactions must reach (canonical id, 'c' | 'a' in the log).
fn directed_recover_again(cx: &mut Ctx) {
    let yes = V::YesLocked;
    let b2 = Op::Begin { parts: vec![0, 1], xflag: false };
    let v = |t: usize, shard: usize, v: V| Op::Vote { t, shard, v };
    let full = Op::Crash { cut: Cut::Full, timeout: NEVER_MS, maxc: 100, cap: None };
    // T1 prepared, crash at a record boundary `back` records from the end, restart
    let life1 = |back: usize| vec![
        b2.clone(), v(0, 0, yes.clone()), v(0, 1, yes.clone()),
        Op::Crash { cut: Cut::Boundary { back, delta: 0 }, timeout: NEVER_MS, maxc: 100, cap: None },
    ];
    let mut scripts: Vec<(String, Vec<Op>, Vec<(u64, char)>)> = vec![];
    for back in 0..4usize {
        // the minimal history: restart, recover, begin T2 + one YES vote, recover again, drive T2 to completion
        let mut ops = life1(back);
        ops.extend([Op::RecoverLive, b2.clone(), v(1, 0, yes.clone()), Op::RecoverLive, v(1, 1, yes.clone()), Op::Commit(1), Op::RecoverLive]);
        scripts.push((format!("yes-vote-then-recover-again.back{back}"), ops, vec![(2, 'c')]));
        // the same with T2 moved to Aborting (memory only) by a NO vote
        let mut ops = life1(back);
        ops.extend([Op::RecoverLive, b2.clone(), v(1, 0, yes.clone()), v(1, 1, V::No), Op::RecoverLive, Op::Decisions, Op::Flush, Op::CAbort(1), Op::RecoverLive]);
        scripts.push((format!("no-vote-aborting-then-recover-again.back{back}"), ops, vec![]));
    }
    // neighbours
    let mut ops = life1(0);
    ops.extend([b2.clone(), Op::RecoverLive, v(1, 0, yes.clone()), Op::RecoverLive, Op::RecoverLive, v(1, 1, yes.clone()), Op::RecoverLive, Op::Commit(1), Op::Commit(0)]);
    scripts.push(("begun-unvoted-then-recover-thrice".into(), ops, vec![(1, 'c'), (2, 'c')]));
    // no crash at all: a recovery call on the first life's coordinator
    scripts.push(("first-life-recover-between-votes".into(), vec![
        b2.clone(), v(0, 0, yes.clone()), Op::RecoverLive, v(0, 1, yes.clone()), Op::RecoverLive, Op::Commit(0), Op::RecoverLive,
    ], vec![(1, 'c')]));
    // cross-shard conflict: Aborting in memory only, abort queued
    scripts.push(("cross-shard-aborting-then-recover".into(), vec![
        Op::Begin { parts: vec![0, 1], xflag: true }, v(0, 0, yes.clone()), v(0, 1, yes.clone()), Op::RecoverLive, Op::Flush, Op::CAbort(0),
    ], vec![]));
    // one prepared and one collecting votes, both of this life; recover() moves the prepared one on in memory
    let mut ops = life1(0);
    ops.extend([
        b2.clone(), Op::Begin { parts: vec![0, 1, 2], xflag: false },
        v(1, 0, yes.clone()), v(2, 0, yes.clone()), v(1, 1, yes.clone()), v(2, 2, V::YesFake(1)),
        Op::RecoverLive, Op::RecoverMem, Op::RecoverLive, Op::Decisions,
        Op::Commit(1), v(2, 1, yes.clone()), Op::RecoverLive, Op::Abort(2), Op::Commit(0),
    ]);
    scripts.push(("prepared-and-collecting-then-recover".into(), ops, vec![(1, 'c'), (2, 'c'), (3, 'a')]));
    // second restart forgets T2 (as it must); T3 of the third life then survives a recovery call
    let mut ops = life1(0);
    ops.extend([b2.clone(), v(1, 0, yes.clone()), full.clone(), Op::RecoverLive, b2.clone(), v(2, 1, yes.clone()), Op::RecoverLive, v(2, 0, yes.clone()), Op::Abort(2), Op::RecoverLive]);
    scripts.push(("third-life-transaction-then-recover".into(), ops, vec![(3, 'a')]));
    // the running coordinator's file was emptied at a checkpoint before the recovery call
    scripts.push(("truncate-then-recover-between-votes".into(), vec![
        b2.clone(), v(0, 0, yes.clone()), v(0, 1, yes.clone()), Op::Commit(0), Op::Truncate,
        b2.clone(), v(1, 0, yes.clone()), Op::RecoverLive, v(1, 1, yes.clone()), Op::RecoverLive, Op::Commit(1),
    ], vec![(2, 'c')]));
    for (name, ops, want) in scripts {
        cx.rep.hit("directed.recover-again");
        let mut w = World::new(NEVER_MS, 100, cx.m);
        for op in &ops {
            exec(&mut w, op, cx);
        }
        if w.clock_unsure {
            continue;
        }
        for (cid, o) in &want {
            if w.book.durable.get(cid) != Some(o) {
                violation(cx, &w, "tensor_chain.distributed_tx.recover_from_wal/live_transaction_cannot_complete",
                    "a transaction of the current life could not be driven to its outcome on a coordinator that was asked to recover from its WAL again",
                    json!({"script": name, "tx": cid, "wanted": o.to_string(), "logged": w.book.durable.get(cid).map(|c| c.to_string())}));
            }
        }
        let mut rr = Rng::new(7);
        drain_and_verify(&mut w, cx, &mut rr);
        if !w.clock_unsure {
            cx.rep.case("directed.recover_again", Some(&w.trace.join(";")));
        }
    }
}

/// recovery calls on the running coordinator right behind a begin or a vote (the transaction is
/// then still collecting votes, or was just moved to Aborting / Prepared)
fn sprinkle_recover_live(r: &mut Rng, ops: &mut Vec<Op>) {
    let mut spots: Vec<usize> = ops.iter().enumerate()
        .filter(|(_, o)| matches!(o, Op::Begin { .. } | Op::Vote { .. })).map(|(i, _)| i + 1).collect();
    if spots.is_empty() {
        return;
    }
    r.shuffle(&mut spots);
    spots.truncate(1 + r.below(3) as usize);
    spots.sort_unstable_by(|a, b| b.cmp(a));
    for at in spots {
        ops.insert(at, Op::RecoverLive);
    }
}

/// a recovered transaction gets the fixed 5000 ms timeout: wait it out once
fn directed_timeout_after_restart(cx: &mut Ctx) {
    let mut w = World::new(NEVER_MS, 100, cx.m);
    let ops = vec![
        Op::Begin { parts: vec![0], xflag: false },
        Op::Vote { t: 0, shard: 0, v: V::YesLocked },
        Op::Begin { parts: vec![0], xflag: false },
        Op::Vote { t: 1, shard: 0, v: V::YesLocked },
        Op::Commit(1),
        Op::Crash { cut: Cut::Full, timeout: NEVER_MS, maxc: 100, cap: None },
        Op::Sleep(5000 + 2 * GUARD_MS),
        Op::Cleanup,
        Op::Commit(0),
        Op::Abort(1),
        Op::Crash { cut: Cut::Full, timeout: NEVER_MS, maxc: 100, cap: None },
        Op::Commit(0),
    ];
    for op in &ops {
        exec(&mut w, op, cx);
    }
    if !w.clock_unsure {
        cx.rep.case("directed", Some(&w.trace.join(";")));
        cx.rep.hit("directed.timeout-after-restart");
        // a timeout is not logged: the prepared transaction is back after the next restart
        if w.book.durable.get(&1) == Some(&'c') && w.trace.iter().any(|l| l.starts_with("cleanup")) {
            cx.rep.observe(json!({"what": "prepared transaction timed out after restart, then committed after the next restart: cleanup_timeouts writes nothing to the WAL, so a timeout is forgotten by a restart (outside C13: only logged outcomes are protected)", "trace": w.trace}));
        }
    }
}

/// WAL writes that FAIL: hand-written scripts on a WAL with `auto_rotate = false` and every byte
/// value of `max_size_bytes` from 0 to past the size the script needs — so the size limit bites
/// before / inside / after every single record of every call.  Afterwards the process is
/// restarted without a limit, recovery is driven (`recover`, `get_pending_decisions`,
/// `complete_commit`) and everything is drained.
fn directed_full(cx: &mut Ctx, thorough: bool) {
    let yes = V::YesLocked;
    let b2 = Op::Begin { parts: vec![0, 1], xflag: false };
    let scripts: Vec<(&str, Vec<Op>)> = vec![
        ("commit", vec![
            b2.clone(), Op::Vote { t: 0, shard: 0, v: yes.clone() }, Op::Vote { t: 0, shard: 1, v: yes.clone() }, Op::Commit(0),
        ]),
        ("abort-prepared", vec![
            b2.clone(), Op::Vote { t: 0, shard: 0, v: yes.clone() }, Op::Vote { t: 0, shard: 1, v: yes.clone() }, Op::Abort(0),
        ]),
        ("two-tx-no-vote-flush", vec![
            Op::Begin { parts: vec![0], xflag: false }, Op::Vote { t: 0, shard: 0, v: yes.clone() },
            b2.clone(), Op::Vote { t: 1, shard: 0, v: yes.clone() }, Op::Vote { t: 1, shard: 0, v: V::No }, Op::Vote { t: 1, shard: 1, v: V::No },
            Op::Flush, Op::Force(1, true), Op::Abort(1), Op::Commit(0),
        ]),
        ("recover-then-complete", vec![
            b2.clone(), Op::Vote { t: 0, shard: 0, v: yes.clone() }, Op::Vote { t: 0, shard: 1, v: yes.clone() },
            Op::RecoverMem, Op::Decisions, Op::CCommit(0),
        ]),
    ];
    let prefix = cx.stream_prefix;
    for (name, ops) in scripts {
        cx.rep.hit(&format!("directed.full.{name}"));
        // how many bytes the script writes when nothing stops it
        let need = {
            let mut w = World::new(NEVER_MS, 100, cx.m);
            for op in &ops {
                exec(&mut w, op, cx);
            }
            w.file().len()
        };
        let step = if thorough { 1 } else { 1 };
        let mut cap = 0usize;
        while cap <= need + 2 {
            let mut w = World::new_capped(NEVER_MS, 100, Some((cap as u64, false)), cx.m);
            for op in &ops {
                exec(&mut w, op, cx);
            }
            exec(&mut w, &Op::Decisions, cx);
            // what memory holds as Prepared must survive the loss of the process (oracle in `restart_at`)
            exec(&mut w, &Op::Crash { cut: Cut::Full, timeout: NEVER_MS, maxc: 100, cap: None }, cx);
            exec(&mut w, &Op::RecoverMem, cx);
            exec(&mut w, &Op::Decisions, cx);
            exec(&mut w, &Op::CCommit(0), cx);
            exec(&mut w, &Op::Force(1, false), cx);
            let mut rr = Rng::new(cap as u64);
            drain_and_verify(&mut w, cx, &mut rr);
            if !w.clock_unsure {
                cx.rep.case(&format!("{prefix}directed.full"), Some(&format!("{name}@{cap}")));
            }
            cap += step;
        }
    }
}

/// The size limit with `auto_rotate = true` (the default): the append that does not fit renames
/// the file away; `replay` reads only the current file.  Correspondence with the model's rotation
/// branch; the consequence — a transaction that is Prepared in memory is not brought back by a
/// restart — is found by the oracle of `restart_at` and reported under the known-finding class
/// `tensor_chain.tx_wal.rotate/in_flight_transactions_dropped`.  Then `truncate_wal()`: at a
/// checkpoint (nothing pending) and with a prepared transaction pending
/// (`tensor_chain.distributed_tx.truncate_wal/in_flight_transactions_dropped`).
fn directed_rot(cx: &mut Ctx) {
    let yes = V::YesLocked;
    let ops = vec![
        Op::Begin { parts: vec![0, 1], xflag: false },
        Op::Vote { t: 0, shard: 0, v: yes.clone() },
        Op::Vote { t: 0, shard: 1, v: yes.clone() },
        Op::Begin { parts: vec![0], xflag: false },
        Op::Vote { t: 1, shard: 0, v: yes.clone() },
        Op::Commit(1),
        Op::Flush,
    ];
    let prefix = cx.stream_prefix;
    for cap in (20..=200usize).step_by(6) {
        let mut w = World::new_capped(NEVER_MS, 100, Some((cap as u64, true)), cx.m);
        for op in &ops {
            exec(&mut w, op, cx);
        }
        exec(&mut w, &Op::Crash { cut: Cut::Full, timeout: NEVER_MS, maxc: 100, cap: None }, cx);
        if w.clock_unsure {
            continue;
        }
        cx.rep.case(&format!("{prefix}directed.rot"), Some(&format!("rot@{cap}")));
    }
    for anyway in [false, true] {
        let mut w = World::new(NEVER_MS, 100, cx.m);
        let mut script = vec![
            Op::Begin { parts: vec![0], xflag: false }, Op::Vote { t: 0, shard: 0, v: yes.clone() }, Op::Commit(0),
            Op::Truncate,
            Op::Begin { parts: vec![0, 1], xflag: false }, Op::Vote { t: 1, shard: 0, v: yes.clone() }, Op::Vote { t: 1, shard: 1, v: yes.clone() },
        ];
        script.push(if anyway { Op::TruncateAnyway } else { Op::Truncate });
        for op in &script {
            exec(&mut w, op, cx);
        }
        exec(&mut w, &Op::Crash { cut: Cut::Full, timeout: NEVER_MS, maxc: 100, cap: None }, cx);
        if w.clock_unsure {
            continue;
        }
        let mut rr = Rng::new(7);
        drain_and_verify(&mut w, cx, &mut rr);
        cx.rep.case(&format!("{prefix}directed.rot"), Some(if anyway { "truncate-anyway" } else { "truncate-checkpoint" }));
    }
}

// ------------------------------------------------------------------ long records

/// Participant counts whose TxBegin payload (bitcode, a random 64-bit transaction id) lies right at
/// the record-size boundaries that exist or could plausibly exist in WAL code.  Measured by
/// serialising, never assumed: `n_for(b)` = the smallest count whose payload has at least `b` bytes.
struct WideSizes {
    /// payload just below 8 KiB (the buffer of BufReader / BufWriter) and at / above it
    below8k: usize,
    above8k: usize,
    below32k: usize,
    /// the largest participant list whose TxBegin payload is shorter than 64 KiB, and the next one
    below64k: usize,
    above64k: usize,
    /// about 100 KB (50 000 shards)
    n100k: usize,
    above128k: usize,
    /// more than 1 MiB
    above1m: usize,
}

fn begin_payload_len(n: usize) -> usize {
    bitcode::serialize(&TxWalEntry::TxBegin { tx_id: u64::MAX / 3, participants: (0..n).collect() }).unwrap().len()
}

fn wide_n_for(target: usize) -> usize {
    let (mut lo, mut hi) = (0usize, 1usize);
    while begin_payload_len(hi) < target {
        lo = hi;
        hi *= 2;
    }
    while lo + 1 < hi {
        let mid = (lo + hi) / 2;
        if begin_payload_len(mid) < target {
            lo = mid;
        } else {
            hi = mid;
        }
    }
    hi
}

impl WideSizes {
    fn measure() -> WideSizes {
        let a8 = wide_n_for(8192);
        let a64 = wide_n_for(65536);
        WideSizes {
            below8k: a8 - 1,
            above8k: a8,
            below32k: wide_n_for(32768) - 1,
            below64k: a64 - 1,
            above64k: a64,
            n100k: 50_000,
            above128k: wide_n_for(131_073),
            above1m: wide_n_for(1_048_577),
        }
    }
}

/// Long records through the real coordinator.  RUN FIRST.  The property needs every record whose
/// append was acknowledged to be replayed after a restart; a long record (the TxBegin of a wide
/// transaction, the AbortIntent written when it times out) in the MIDDLE of the log is the shortest
/// history in which "the read side accepts every frame the write side produces" is the only thing
/// that keeps the decisions logged after it.  Scripts (P = a two-shard transaction, W = the wide one):
///   between-prepare-and-commit   P prepared, W begins, P committed           (commit logged after the long record)
///   wide-first                   W begins, P prepared and committed          (all of P after it)
///   between-votes                P votes, W begins, P's last vote -> Prepared (Prepared logged after it: must come back)
///   abort-intent                 P prepared, W begins and times out, AbortIntent(W) flushed, Q prepared and aborted
///   after-restart                P prepared, restart, W begins, P committed  (second incarnation writes the long record)
///   wide-aborted                 W begins and is aborted, P prepared and aborted (logged abort must not become a commit)
/// each followed by cuts of the file (whole; around the long record; inside it), restart, both
/// completions tried on every transaction, a new transaction, another crash, drain + clean restart.
/// Then a ladder of sizes over the first script: empty participant list, 1, typical, just below /
/// above 8 KiB, 32 KiB, 64 KiB, ~100 KB, above 128 KiB, above 1 MiB.
fn directed_wide(cx: &mut Ctx, sz: &WideSizes, thorough: bool) {
    let yes = V::YesLocked;
    let p2 = Op::Begin { parts: vec![0, 1], xflag: false };
    let wide = |n: usize| Op::Begin { parts: (0..n).collect(), xflag: false };
    let prepared = |t: usize| vec![Op::Vote { t, shard: 0, v: V::YesLocked }, Op::Vote { t, shard: 1, v: V::YesLocked }];
    let n = sz.above64k;
    // (name, timeout of the first process, ops)
    let mut scripts: Vec<(&str, u64, Vec<Op>)> = vec![];
    scripts.push(("between-prepare-and-commit", NEVER_MS,
        [vec![p2.clone()], prepared(0), vec![wide(n), Op::Commit(0)]].concat()));
    scripts.push(("wide-first", NEVER_MS,
        [vec![wide(n), p2.clone()], prepared(1), vec![Op::Commit(1)]].concat()));
    scripts.push(("between-votes", NEVER_MS,
        vec![p2.clone(), Op::Vote { t: 0, shard: 0, v: yes.clone() }, wide(n), Op::Vote { t: 0, shard: 1, v: yes.clone() }]));
    scripts.push(("abort-intent", 0,
        [vec![p2.clone()], prepared(0), vec![Op::Commit(0), wide(n), Op::Sleep(2 * GUARD_MS), Op::Cleanup, Op::Flush, p2.clone()],
         prepared(2), vec![Op::Abort(2)]].concat()));
    scripts.push(("after-restart", NEVER_MS,
        [vec![p2.clone()], prepared(0),
         vec![Op::Crash { cut: Cut::Full, timeout: NEVER_MS, maxc: 100, cap: None }, wide(n), Op::Commit(0)]].concat()));
    scripts.push(("wide-aborted", NEVER_MS,
        [vec![wide(n), Op::Abort(0), p2.clone()], prepared(1), vec![Op::Abort(1)]].concat()));
    for (si, (name, timeout, ops)) in scripts.iter().enumerate() {
        cx.rep.hit(&format!("directed.wide.{name}"));
        let mut w = World::new(*timeout, 100, cx.m);
        for op in ops {
            exec(&mut w, op, cx);
        }
        if w.clock_unsure {
            cx.rep.hit("directed.wide.clock_unsure");
            continue;
        }
        let file = w.file();
        // cuts: the whole file; around and inside every long record; the first script also at every
        // later record boundary
        let mut cuts: Vec<usize> = vec![file.len()];
        let mut prev = 0usize;
        let last_long = w.book.recs.iter().rposition(|r| r.plen >= 4096);
        for (ri, r) in w.book.recs.iter().enumerate() {
            if r.plen >= 4096 && (si == 0 || thorough || Some(ri) == last_long) {
                let around: Vec<i64> = if si == 0 || thorough {
                    vec![prev as i64 - 1, prev as i64, prev as i64 + 9, (prev + r.end) as i64 / 2, r.end as i64 - 1, r.end as i64, r.end as i64 + 1]
                } else {
                    vec![prev as i64, r.end as i64 - 1, r.end as i64]
                };
                for c in around {
                    if c >= 0 && c as usize <= file.len() {
                        cuts.push(c as usize);
                    }
                }
            } else if si == 0 || thorough {
                cuts.push(r.end);
                if thorough && r.end >= 3 {
                    cuts.push(r.end - 3);
                }
            }
            prev = r.end;
        }
        cuts.sort_unstable();
        cuts.dedup();
        cuts.reverse(); // the whole file first
        let known = w.book.txs.len();
        for (ci, n) in cuts.iter().enumerate() {
            let mut wb = World::dead_copy(&w);
            restart_at(&mut wb, &file, *n, NEVER_MS, 100, None, cx);
            // both completions on every transaction, in both orders
            for t in 0..known {
                let flip = (ci + t) % 2 == 0;
                exec(&mut wb, &if flip { Op::Abort(t) } else { Op::Commit(t) }, cx);
                exec(&mut wb, &if flip { Op::Commit(t) } else { Op::Abort(t) }, cx);
            }
            exec(&mut wb, &Op::Cleanup, cx);
            exec(&mut wb, &Op::RecoverMem, cx);
            exec(&mut wb, &Op::Decisions, cx);
            let t = wb.book.txs.len();
            exec(&mut wb, &Op::Begin { parts: vec![0], xflag: false }, cx);
            exec(&mut wb, &Op::Vote { t, shard: 0, v: V::YesLocked }, cx);
            exec(&mut wb, &Op::Commit(t), cx);
            if ci % 3 == 0 {
                exec(&mut wb, &Op::Crash { cut: Cut::Boundary { back: ci % 4, delta: [0i64, -1, 3, -7][ci % 4] }, timeout: NEVER_MS, maxc: 100, cap: None }, cx);
            }
            let mut rr = Rng::new(*n as u64);
            drain_and_verify(&mut wb, cx, &mut rr);
            w.defined.extend(wb.defined.iter().cloned());
            if wb.clock_unsure {
                cx.rep.hit("directed.wide.clock_unsure");
            } else {
                cx.rep.case(&format!("{}directed", cx.stream_prefix), Some(&format!("{name}@{n}")));
            }
        }
    }
    // the ladder of sizes over the minimal history
    let mut ladder: Vec<usize> = vec![0, 1, 3, 40, 300, sz.below8k, sz.above8k, sz.below64k, sz.above64k, sz.n100k];
    if thorough {
        ladder.push(sz.below32k);
        ladder.push(sz.above128k);
    }
    ladder.push(sz.above1m);
    if thorough {
        ladder.push(4 * sz.above1m);
    }
    for n in ladder {
        cx.rep.hit("directed.wide.ladder");
        let mut w = World::new(NEVER_MS, 100, cx.m);
        for op in [vec![p2.clone()], prepared(0), vec![wide(n), Op::Commit(0)]].concat() {
            exec(&mut w, &op, cx);
        }
        exec(&mut w, &Op::Crash { cut: Cut::Full, timeout: NEVER_MS, maxc: 100, cap: None }, cx);
        exec(&mut w, &Op::Abort(0), cx);
        exec(&mut w, &Op::Commit(0), cx);
        exec(&mut w, &Op::Abort(1), cx);
        exec(&mut w, &Op::RecoverMem, cx);
        exec(&mut w, &Op::Decisions, cx);
        // (a second restart on a file of more than 1 MiB only in the thorough tier: time)
        if n < sz.above1m || thorough {
            let mut rr = Rng::new(n as u64);
            drain_and_verify(&mut w, cx, &mut rr);
        }
        if w.clock_unsure {
            cx.rep.hit("directed.wide.clock_unsure");
        } else {
            cx.rep.case(&format!("{}directed", cx.stream_prefix), Some(&format!("ladder@{n}")));
        }
    }
}

/// A long record right at the limits the WAL's own configuration has: `max_size_bytes` one byte
/// short of / exactly at / one byte past the long record (as the first record of the file, and after
/// a prepared transaction), with `auto_rotate` off (the append is refused) and on (the file is
/// rotated; a record larger than the limit is then written to the fresh file anyway).
fn directed_wide_caps(cx: &mut Ctx, sz: &WideSizes) {
    let n = sz.above64k;
    let wide = Op::Begin { parts: (0..n).collect(), xflag: false };
    // bytes of the prefix (a prepared two-shard transaction) and of the long record's frame
    let (prefix_len, frame_len) = {
        let mut w = World::new(NEVER_MS, 100, cx.m);
        exec(&mut w, &Op::Begin { parts: vec![0, 1], xflag: false }, cx);
        exec(&mut w, &Op::Vote { t: 0, shard: 0, v: V::YesLocked }, cx);
        exec(&mut w, &Op::Vote { t: 0, shard: 1, v: V::YesLocked }, cx);
        let a = w.file().len();
        exec(&mut w, &wide, cx);
        (a, w.file().len() - a)
    };
    let prefix = cx.stream_prefix;
    for with_prefix in [false, true] {
        for rot in [false, true] {
            for d in [-1i64, 0, 1] {
                let cap = ((if with_prefix { prefix_len } else { 0 } + frame_len) as i64 + d) as u64;
                cx.rep.hit("directed.wide.cap");
                let mut w = World::new_capped(NEVER_MS, 100, Some((cap, rot)), cx.m);
                if with_prefix {
                    exec(&mut w, &Op::Begin { parts: vec![0, 1], xflag: false }, cx);
                    exec(&mut w, &Op::Vote { t: 0, shard: 0, v: V::YesLocked }, cx);
                    exec(&mut w, &Op::Vote { t: 0, shard: 1, v: V::YesLocked }, cx);
                }
                exec(&mut w, &wide, cx);
                if with_prefix {
                    exec(&mut w, &Op::Commit(0), cx);
                }
                // a small transaction afterwards (its index depends on whether the wide begin was accepted)
                exec(&mut w, &Op::Begin { parts: vec![0], xflag: false }, cx);
                let t = w.book.txs.len().saturating_sub(1);
                exec(&mut w, &Op::Vote { t, shard: 0, v: V::YesLocked }, cx);
                exec(&mut w, &Op::Commit(t), cx);
                exec(&mut w, &Op::Decisions, cx);
                exec(&mut w, &Op::Crash { cut: Cut::Full, timeout: NEVER_MS, maxc: 100, cap: None }, cx);
                exec(&mut w, &Op::RecoverMem, cx);
                exec(&mut w, &Op::Decisions, cx);
                let mut rr = Rng::new(cap);
                drain_and_verify(&mut w, cx, &mut rr);
                if !w.clock_unsure {
                    cx.rep.case(&format!("{prefix}directed.cap"), Some(&format!("prefix={with_prefix} rot={rot} cap={cap}")));
                }
            }
        }
    }
}

// ------------------------------------------------------------------ the lock-handle counter

const STALE_CLASS: &str = "tensor_chain.distributed_tx.recover_from_wal/stale_lock_handle_releases_foreign_lock";

/// a vote of a transaction of the first process
#[derive(Clone, Debug)]
enum HV {
    /// YES with a handle `try_lock` of this process returned
    Locked,
    /// YES with the handle `k` past the counter: a handle the process that wrote the log had handed
    /// out and the counter of the restarted one (which starts at 1 again) has not reached yet
    Ahead(u64),
    /// YES with a handle above the high-water mark
    Fake(u64),
    No,
}

#[derive(Clone, Debug)]
enum HEnd {
    Leave,
    Commit,
    Abort,
}

#[derive(Clone, Debug)]
struct HTx {
    votes: Vec<HV>,
    /// the last participant never votes: the transaction stays Preparing
    skip_last: bool,
    end: HEnd,
}

#[derive(Clone, Debug)]
struct HScript {
    pre: Vec<HTx>,
    /// whole records cut off the end of the file
    drop_records: usize,
    /// locks the new transaction of the restarted process takes
    b_locks: usize,
    /// `recover_from_wal` once more on the live coordinator, after the locks
    live_recover: bool,
    /// how each recovered transaction is finished: 0 commit, 1 abort, 2/3 force_resolve(true/false), 4 complete_*
    finish: Vec<u8>,
}

fn vote_res(r: &Result<Option<TxPhase>, VoteRecordError>) -> String {
    match r {
        Ok(Some(p)) => format!("phase{}", phase_num(*p)),
        Ok(None) => "voted".to_string(),
        Err(VoteRecordError::TxNotFound(_)) => "not_found".to_string(),
        Err(VoteRecordError::WrongPhase { actual, .. }) => format!("wrong_phase{}", phase_num(*actual)),
        Err(VoteRecordError::DuplicateVote { .. }) => "duplicate".to_string(),
    }
}

fn unit_res(r: &Result<(), tensor_chain::ChainError>) -> String {
    match r {
        Ok(()) => "ok".to_string(),
        Err(e) => end_err(e).0,
    }
}

/// entry token with transactions renamed to their index and lock handles as they are
fn raw_token(e: &TxWalEntry, txs: &[u64]) -> String {
    let t = direct_token(e);
    let mut f: Vec<String> = t.split(':').map(|x| x.to_string()).collect();
    if f.len() >= 2 {
        let real: u64 = f[1].parse().unwrap_or(0);
        f[1] = txs.iter().position(|x| *x == real).map(|i| (i + 1).to_string()).unwrap_or_else(|| "999".to_string());
    }
    f.join(":")
}

/// memory of the coordinator with real handle numbers, in the format of the model's `state`
fn hdigest(c: &DistributedTxCoordinator, txs: &[u64], keys: &[(String, usize, u64)]) -> String {
    let mut ps = vec![];
    for (i, real) in txs.iter().enumerate() {
        if let Some(tx) = c.get(*real) {
            let mut vs: Vec<(usize, String)> = tx.votes.iter().map(|(s, v)| (*s, match v {
                PrepareVote::Yes { lock_handle, .. } => format!("y{lock_handle}"),
                PrepareVote::No { .. } => "n".to_string(),
                _ => "c".to_string(),
            })).collect();
            vs.sort();
            let vstr = if vs.is_empty() { "-".to_string() } else { vs.iter().map(|(s, v)| format!("{s}.{v}")).collect::<Vec<_>>().join("/") };
            ps.push(format!("{}:{}:{}:{vstr}:{}", i + 1, phase_num(tx.phase), show_list(&tx.participants), tx.timeout_ms));
        }
    }
    let mut ls: Vec<(u64, u64)> = vec![];
    for (key, _, h) in keys {
        if let Some(holder) = c.lock_manager().lock_holder(key) {
            ls.push((txs.iter().position(|x| *x == holder).map(|i| i as u64 + 1).unwrap_or(999), *h));
        }
    }
    ls.sort();
    format!("pending=[{}] locks=[{}] next={}", ps.join(";"), ls.iter().map(|(t, h)| format!("{t}.{h}")).collect::<Vec<_>>().join(";"),
        tensor_chain::lock_handle_current())
}

fn model_state(m: &mut Model) -> String {
    let st = m.ask("state");
    match (st.find(" aborts="), st.rfind(" next=")) {
        (Some(a), Some(n)) if a < n => format!("{}{}", &st[..a], &st[n..]),
        _ => st,
    }
}

/// One scenario of the handle stream.  Real handle numbers throughout; the harness restarts the
/// coordinator inside one OS process, so it tells the model where the process-wide counter stands
/// when each "process" starts (a real new process starts at 1 — `restartLog` in the model).
fn run_handles(cx: &mut Ctx, name: &str, sc: &HScript) {
    let stream = "coord.handles";
    let dir = tmp_dir();
    let path = dir.path().join("tx.wal");
    let mut trace: Vec<String> = vec![];
    let mut txs: Vec<u64> = vec![];
    let mut keys: Vec<(String, usize, u64)> = vec![];
    cx.m.ask("reset_dict");
    cx.m.ask(&new_line(NEVER_MS, 100, None));
    cx.m.ask(&format!("set_counter {}", tensor_chain::lock_handle_current()));
    trace.push(format!("process 1: counter at {}", tensor_chain::lock_handle_current()));
    // compare one call: its answer and the memory afterwards
    fn step(cx: &mut Ctx, stream: &str, trace: &mut Vec<String>, line: &str, impl_res: &str, digest: String, strip_digits: bool) {
        let ans = cx.m.ask(line);
        let mut mres = ans.split(" | ").next().unwrap_or("").to_string();
        if strip_digits {
            // an end-of-transaction call: refusals are one token (see `end_err`)
            mres = collapse_end_refusal(&mres);
        }
        let mstate = model_state(cx.m);
        trace.push(format!("{line} -> {impl_res}"));
        cx.rep.compare(stream, || json!({"trace": trace}), &format!("{impl_res} ; {digest}"), &format!("{mres} ; {mstate}"));
    }
    let (c1, _, _) = new_coord(&path, NEVER_MS, 100, None);
    // begins, then every lock of this process, then the votes (so that `Ahead` is relative to the
    // value the counter keeps until the restart)
    for (i, t) in sc.pre.iter().enumerate() {
        let parts: Vec<usize> = (0..t.votes.len()).collect();
        let Ok(tx) = c1.begin(&"n1".to_string(), &parts) else { return };
        txs.push(tx.tx_id);
        let d = hdigest(&c1, &txs, &keys);
        step(cx, stream, &mut trace, &format!("begin {} {} {}", i + 1, show_list(&parts), tx.started_at), "ok", d, false);
    }
    let mut locked: Vec<Vec<Option<u64>>> = vec![];
    for (i, t) in sc.pre.iter().enumerate() {
        let mut row = vec![];
        for (s, v) in t.votes.iter().enumerate() {
            if matches!(v, HV::Locked) {
                let key = format!("h{name}.{i}.{s}");
                let h = c1.lock_manager().try_lock(txs[i], &[key.clone()]).expect("fresh key");
                keys.push((key, i, h));
                let mh = cx.m.ask(&format!("trylock {}", i + 1));
                trace.push(format!("trylock {} -> {h}", i + 1));
                cx.rep.compare(stream, || json!({"trace": trace}), &h.to_string(), &mh);
                row.push(Some(h));
            } else {
                row.push(None);
            }
        }
        locked.push(row);
    }
    let base = tensor_chain::lock_handle_current();
    for (i, t) in sc.pre.iter().enumerate() {
        let nv = if t.skip_last { t.votes.len().saturating_sub(1) } else { t.votes.len() };
        for (s, v) in t.votes.iter().enumerate().take(nv) {
            let (vote, vstr) = match v {
                HV::Locked => { let h = locked[i][s].unwrap(); (PrepareVote::Yes { lock_handle: h, delta: DeltaVector::zero(0) }, format!("y{h}")) }
                HV::Ahead(k) => (PrepareVote::Yes { lock_handle: base + k, delta: DeltaVector::zero(0) }, format!("y{}", base + k)),
                HV::Fake(k) => (PrepareVote::Yes { lock_handle: FAKE_H_REAL + k, delta: DeltaVector::zero(0) }, format!("y{}", FAKE_H_REAL + k)),
                HV::No => (PrepareVote::No { reason: "no".into() }, "n".to_string()),
            };
            let r = c1.record_vote(txs[i], s, vote);
            let d = hdigest(&c1, &txs, &keys);
            step(cx, stream, &mut trace, &format!("vote {} {s} {vstr} 0", i + 1), &vote_res(&r), d, false);
        }
        match t.end {
            HEnd::Leave => {}
            HEnd::Commit => {
                let r = c1.commit(txs[i]);
                let d = hdigest(&c1, &txs, &keys);
                step(cx, stream, &mut trace, &format!("commit {}", i + 1), &unit_res(&r), d, true);
            }
            HEnd::Abort => {
                let r = c1.abort(txs[i], "requested");
                let d = hdigest(&c1, &txs, &keys);
                step(cx, stream, &mut trace, &format!("abort {}", i + 1), &unit_res(&r), d, true);
            }
        }
    }
    drop(c1);
    // the file: announce every payload, cut whole records off the end
    let bytes = std::fs::read(&path).unwrap_or_default();
    let fr = frames(&bytes, 0);
    for (_, _, p) in &fr {
        if let Ok(e) = bitcode::deserialize::<TxWalEntry>(p) {
            cx.m.ask(&format!("def {} {}", hex(p), raw_token(&e, &txs)));
        }
    }
    let keep = fr.len().saturating_sub(sc.drop_records);
    let n = if keep == 0 { 0 } else { fr[keep - 1].1 };
    std::fs::write(&path, &bytes[..n]).unwrap();
    // process 2
    cx.m.ask(&new_line(NEVER_MS, 100, None));
    cx.m.ask(&format!("set_counter {}", tensor_chain::lock_handle_current()));
    trace.push(format!("crash: {keep} of {} records kept; process 2: counter at {}", fr.len(), tensor_chain::lock_handle_current()));
    let (c2, _, _) = new_coord(&path, NEVER_MS, 100, None);
    let t0 = now_ms();
    if c2.recover_from_wal().is_err() {
        return;
    }
    let d = hdigest(&c2, &txs, &keys);
    step(cx, stream, &mut trace, &format!("restart {} {t0}", hex(&bytes[..n])), "ok", d, false);
    // what came back, with the handles of its YES votes
    let recovered: Vec<(usize, Vec<u64>)> = (0..txs.len()).filter_map(|i| c2.get(txs[i]).map(|tx| {
        (i, tx.votes.values().filter_map(|v| match v { PrepareVote::Yes { lock_handle, .. } => Some(*lock_handle), _ => None }).collect())
    })).collect();
    if !recovered.is_empty() {
        cx.rep.hit("handles.recovered_some");
    }
    // ... and the orphaned locks of the log (a second, read-only handle on the file)
    let orphaned: Vec<u64> = TxWal::open_with_config(&path, wal_cfg(None)).ok()
        .and_then(|w2| TxRecoveryState::from_wal(&w2).ok())
        .map(|st| st.orphaned_locks.iter().map(|o| o.lock_handle).collect())
        .unwrap_or_default();
    if !orphaned.is_empty() {
        cx.rep.hit("handles.orphaned_some");
    }
    // a new transaction takes locks in the restarted process
    let Ok(b) = c2.begin(&"n1".to_string(), &[0]) else { return };
    txs.push(b.tx_id);
    let bi = txs.len() - 1;
    let d = hdigest(&c2, &txs, &keys);
    step(cx, stream, &mut trace, &format!("begin {} 0 {}", bi + 1, b.started_at), "ok", d, false);
    let mut b_keys: Vec<(String, u64)> = vec![];
    for j in 0..sc.b_locks {
        let key = format!("h{name}.b.{j}");
        let h = c2.lock_manager().try_lock(b.tx_id, &[key.clone()]).expect("fresh key");
        keys.push((key.clone(), bi, h));
        b_keys.push((key, h));
        let mh = cx.m.ask(&format!("trylock {}", bi + 1));
        trace.push(format!("trylock {} -> {h}", bi + 1));
        cx.rep.compare(stream, || json!({"trace": trace}), &h.to_string(), &mh);
        if recovered.iter().any(|(_, hs)| hs.contains(&h)) || orphaned.contains(&h) {
            cx.rep.hit("handles.handed_out_twice");
        }
    }
    if let Some((_, h)) = b_keys.first() {
        let r = c2.record_vote(b.tx_id, 0, PrepareVote::Yes { lock_handle: *h, delta: DeltaVector::zero(0) });
        let d = hdigest(&c2, &txs, &keys);
        step(cx, stream, &mut trace, &format!("vote {} 0 y{h} 0", bi + 1), &vote_res(&r), d, false);
    }
    // oracle (real coordinator only): the locks the new transaction took are still its own.
    // Site + kind off the trace: the lost lock's handle is one the call released because the LOG
    // carried it (a recovered transaction's vote / an orphaned lock), i.e. a handle of the previous
    // process that this process handed out again.
    let mut already_lost: HashSet<String> = HashSet::new();
    let mut check_b_locks = |cx: &mut Ctx, trace: &Vec<String>, c2: &DistributedTxCoordinator, b_keys: &Vec<(String, u64)>,
                             opname: &str, released_from_log: &Vec<u64>, what_tx: String| {
        if c2.get(b.tx_id).is_none() {
            return;
        }
        for (key, h) in b_keys {
            cx.rep.hit("oracle.foreign_lock_kept");
            if c2.lock_manager().lock_holder(key) != Some(b.tx_id) && already_lost.insert(key.clone()) {
                let class = if released_from_log.contains(h) { STALE_CLASS.to_string() } else { format!("tensor_chain.distributed_tx.{opname}/foreign_lock_released") };
                report_violation(cx.rep, &class,
                    "a call that releases locks by the handles the WAL carried (finishing a recovered transaction, or recover_from_wal releasing an orphaned lock) released a lock another, still pending transaction took after the restart: the logged handle was handed out again by the restarted process",
                    json!({"script": format!("{sc:?}"), "trace": trace, "lost_key": key, "handle": h, "call": opname, "on": what_tx, "handles_from_the_log": released_from_log}));
            }
        }
    };
    if sc.live_recover {
        let t1 = now_ms();
        let res = match c2.recover_from_wal() {
            Ok(s) => format!("recovered:{}:{}:{}:{}", s.pending_prepare, s.pending_commit, s.pending_abort, s.lock_releases_recovered),
            Err(e) => format!("err:{}", vname(&e)),
        };
        let d = hdigest(&c2, &txs, &keys);
        step(cx, stream, &mut trace, &format!("recover_live {t1}"), &res, d, false);
        check_b_locks(cx, &trace, &c2, &b_keys, "recover_from_wal", &orphaned, "orphaned locks".to_string());
    }
    // finish every recovered transaction; the new transaction's locks must outlive that
    for (k, (i, hs)) in recovered.iter().enumerate() {
        let how = sc.finish.get(k).copied().unwrap_or(0);
        let phase = c2.get(txs[*i]).map(|t| t.phase);
        let (line, opname, r) = match how {
            1 => (format!("abort {}", i + 1), "abort", c2.abort(txs[*i], "requested")),
            2 => (format!("force {} 1", i + 1), "force_resolve", c2.force_resolve(txs[*i], true)),
            3 => (format!("force {} 0", i + 1), "force_resolve", c2.force_resolve(txs[*i], false)),
            4 if phase == Some(TxPhase::Committing) => (format!("ccommit {}", i + 1), "complete_commit", c2.complete_commit(txs[*i])),
            4 if phase == Some(TxPhase::Aborting) => (format!("cabort {}", i + 1), "complete_abort", c2.complete_abort(txs[*i])),
            _ => (format!("commit {}", i + 1), "commit", c2.commit(txs[*i])),
        };
        cx.rep.hit(&format!("handles.finish.{opname}"));
        let d = hdigest(&c2, &txs, &keys);
        step(cx, stream, &mut trace, &line, &unit_res(&r), d, true);
        check_b_locks(cx, &trace, &c2, &b_keys, opname, hs, format!("recovered transaction {}", i + 1));
    }
    let tkey = trace.join(";");
    cx.rep.case(stream, if recovered.is_empty() { None } else { Some(&tkey) });
}

/// The regression of 0358827a first: transaction A is prepared under exactly the handle the
/// restarted process would hand out next (before the fix its counter did not move at recovery);
/// a new transaction B locks a key after the restart; A is finished in every way (or, aborted
/// before the crash, has left an orphaned lock that recover_from_wal releases).
fn directed_stale_handle(cx: &mut Ctx) {
    for (name, votes, end, finish, live) in [
        ("commit", vec![HV::Ahead(0)], HEnd::Leave, 0u8, false),
        ("abort", vec![HV::Ahead(0)], HEnd::Leave, 1, false),
        ("force", vec![HV::Ahead(0)], HEnd::Leave, 3, false),
        ("second-shard", vec![HV::Locked, HV::Ahead(1)], HEnd::Leave, 0, false),
        ("live-recover", vec![HV::Ahead(2)], HEnd::Leave, 0, true),
        // `abort` logs no LockRelease: the handle stays in the log as an orphaned lock, which
        // recover_from_wal on the live coordinator releases by handle
        ("orphaned-lock", vec![HV::Ahead(1)], HEnd::Abort, 0, true),
    ] {
        cx.rep.hit("directed.stale-handle");
        let sc = HScript { pre: vec![HTx { votes, skip_last: false, end }], drop_records: 0, b_locks: 4, live_recover: live, finish: vec![finish] };
        run_handles(cx, &format!("d-{name}"), &sc);
    }
    // decided but unfinished (cut between the records of a commit), an orphaned lock, a fake handle
    let sc = HScript {
        pre: vec![
            HTx { votes: vec![HV::Ahead(3)], skip_last: false, end: HEnd::Commit },
            HTx { votes: vec![HV::Fake(1), HV::Ahead(0)], skip_last: false, end: HEnd::Leave },
        ],
        drop_records: 0, b_locks: 6, live_recover: false, finish: vec![4, 0],
    };
    for drop_records in 0..=6 {
        run_handles(cx, &format!("d-cut{drop_records}"), &HScript { drop_records, ..sc.clone() });
    }
}

fn handles_stream(cx: &mut Ctx, r: &mut Rng, rounds: u64) {
    for round in 0..rounds {
        let ntx = 1 + r.below(3) as usize;
        let mut pre = vec![];
        for _ in 0..ntx {
            let nv = 1 + r.below(2) as usize;
            let votes: Vec<HV> = (0..nv).map(|_| match r.below(20) {
                0..=5 => HV::Locked,
                6..=14 => HV::Ahead(r.below(6)),
                15..=16 => HV::Fake(r.below(3)),
                _ => HV::No,
            }).collect();
            let end = match r.below(20) { 0..=10 => HEnd::Leave, 11..=15 => HEnd::Commit, _ => HEnd::Abort };
            pre.push(HTx { votes, skip_last: r.chance(3, 20), end });
        }
        let sc = HScript {
            pre,
            drop_records: if r.chance(1, 2) { 0 } else { r.below(5) as usize },
            b_locks: if r.chance(2, 3) { 7 } else { r.below(7) as usize },
            live_recover: r.chance(1, 5),
            finish: (0..3).map(|_| r.below(5) as u8).collect(),
        };
        run_handles(cx, &format!("r{round}"), &sc);
    }
}

// ------------------------------------------------------------------ direct TxWal stream

fn gen_entry(r: &mut Rng) -> TxWalEntry {
    let tx = 1 + r.below(4);
    match r.below(7) {
        0 => TxWalEntry::TxBegin { tx_id: tx, participants: (0..r.below(4) as usize).collect() },
        1 => TxWalEntry::PrepareVote {
            tx_id: tx,
            shard: r.below(3) as usize,
            vote: if r.chance(2, 3) { PrepareVoteKind::Yes { lock_handle: 1 + r.below(5) } } else { PrepareVoteKind::No },
        },
        2 => {
            let ph = [TxPhase::Preparing, TxPhase::Prepared, TxPhase::Committing, TxPhase::Committed, TxPhase::Aborting, TxPhase::Aborted];
            TxWalEntry::PhaseChange { tx_id: tx, from: *r.pick(&ph), to: *r.pick(&ph) }
        }
        3 => TxWalEntry::TxComplete { tx_id: tx, outcome: if r.chance(1, 2) { TxOutcome::Committed } else { TxOutcome::Aborted } },
        4 => TxWalEntry::LockRelease { tx_id: tx, lock_handle: 1 + r.below(5) },
        5 => TxWalEntry::AllLocksReleased { tx_id: tx },
        _ => TxWalEntry::AbortIntent { tx_id: tx, reason: ["timeout", "participant voted no", ""][r.below(3) as usize].to_string(), shards: (0..r.below(3) as usize).collect() },
    }
}

fn direct_token(e: &TxWalEntry) -> String {
    // ids are already small: identity renaming
    let b = Book::default();
    let raw = |t: u64| t;
    match e {
        TxWalEntry::TxBegin { tx_id, participants } => format!("B:{}:{}", raw(*tx_id), show_list(participants)),
        TxWalEntry::PrepareVote { tx_id, shard, vote } => format!("V:{}:{}:{}", tx_id, shard, match vote {
            PrepareVoteKind::Yes { lock_handle } => format!("y{lock_handle}"),
            _ => "n".into(),
        }),
        TxWalEntry::PhaseChange { tx_id, from, to } => format!("P:{}:{}:{}", tx_id, phase_num(*from), phase_num(*to)),
        TxWalEntry::TxComplete { tx_id, outcome } => format!("C:{}:{}", tx_id, if *outcome == TxOutcome::Committed { "c" } else { "a" }),
        TxWalEntry::LockRelease { tx_id, lock_handle } => format!("L:{tx_id}:{lock_handle}"),
        TxWalEntry::AllLocksReleased { tx_id } => format!("R:{tx_id}"),
        TxWalEntry::AbortIntent { tx_id, reason, shards } => format!("I:{}:{}:{}", tx_id, reason.replace(' ', "_"), show_list(shards)),
        _ => {
            let _ = &b;
            "?".into()
        }
    }
}

fn direct_wal(cx: &mut Ctx, r: &mut Rng, rounds: u64, sz: &WideSizes) {
    for round_no in 0..rounds {
        // occasionally (every 60th round) one of the first appends is a LONG record: the TxBegin of a
        // wide transaction, an AbortIntent over its shards, or one with a long reason, with a payload
        // around 64 KiB / 100 KB / 128 KiB; it is followed by further appends, crashes and reopens
        let long_at: Option<u64> = if round_no % 60 == 7 { Some(r.below(3)) } else { None };
        // one round in six with `enable_checksums = false`: the checksum field is written as 0 and
        // replay skips the comparison (the model's `crc := const 0` instance)
        let no_crc = round_no % 6 == 5;
        let dcfg = || if no_crc { WalConfig { enable_checksums: false, ..wal_cfg(None) } } else { wal_cfg(None) };
        let dir = tmp_dir();
        let path = dir.path().join("d.wal");
        let mut expect: Vec<(String, usize)> = vec![]; // token, end offset
        let mut trace: Vec<String> = vec![];
        let mut torn_seen = false;
        let crashes = 1 + r.below(3);
        cx.m.ask("reset_dict");
        let mut defined: HashSet<Vec<u8>> = HashSet::new();
        for round in 0..=crashes {
            let mut wal = TxWal::open_with_config(&path, dcfg()).unwrap();
            let len_open = std::fs::metadata(&path).unwrap().len() as usize;
            // replay right after open
            let k = if round == 0 { if long_at.is_some() { 4 + r.below(3) } else { r.below(6) } } else { 1 + r.below(4) };
            for j in 0..k {
                let e = if round == 0 && long_at == Some(j) {
                    cx.rep.hit("direct.append.long");
                    let n = *r.pick(&[sz.below64k, sz.above64k, sz.n100k, sz.above128k]);
                    match r.below(3) {
                        0 => TxWalEntry::TxBegin { tx_id: 1 + r.below(4), participants: (0..n).collect() },
                        1 => TxWalEntry::AbortIntent { tx_id: 1 + r.below(4), reason: "timeout".to_string(), shards: (0..n).collect() },
                        _ => intent_with_payload(65536 + r.below(5) as usize - 2, 1 + r.below(4)).unwrap_or_else(|| gen_entry(r)),
                    }
                } else {
                    gen_entry(r)
                };
                let before = std::fs::metadata(&path).unwrap().len() as usize;
                wal.append(&e).unwrap();
                let bytes = std::fs::read(&path).unwrap();
                let p = bitcode::serialize(&e).unwrap();
                let tok = direct_token(&e);
                if tok.contains("::") || tok.ends_with(':') {
                    // empty reason: token would not parse; skip defining (model treats it as undecodable) — avoid
                }
                if defined.insert(p.clone()) {
                    cx.m.ask(&format!("def {} {}", hex(&p), tok));
                }
                // frame layout + crc against the model's own encoder
                let frame = &bytes[before..];
                let m_frame = cx.m.ask(&format!("{} {}", if no_crc { "frame0" } else { "frame" }, hex(&p)));
                if no_crc {
                    cx.rep.hit("direct.append.no_checksum");
                }
                cx.rep.compare("frame", || json!({"payload": hex(&p)}), &hex(frame), &m_frame);
                let m_crc = cx.m.ask(&format!("crc {}", hex(&p)));
                cx.rep.compare("crc", || json!({"payload": hex(&p)}), &crc32fast::hash(&p).to_string(), &m_crc);
                expect.push((tok.clone(), bytes.len()));
                trace.push(if tok.len() > 120 { format!("append {}…({} bytes payload)", &tok[..40], p.len()) } else { format!("append {tok}") });
                cx.rep.hit(&format!("direct.append.{}", &tok[..1]));
            }
            let bytes = std::fs::read(&path).unwrap();
            let rp = wal.replay();
            let impl_rp = match &rp {
                Ok(es) => format!("ok {}", if es.is_empty() { "-".to_string() } else { es.iter().map(direct_token).collect::<Vec<_>>().join(" ") }),
                Err(_) => "err checksum".to_string(),
            };
            let m_rp = cx.m.ask(&format!("replay {}", hex(&bytes)));
            cx.rep.compare("wal.replay", || json!({"trace": trace, "bytes": hex(&bytes)}), &impl_rp, &m_rp);
            // oracle: everything appended and not cut away is replayed, in order
            let want = format!("ok {}", if expect.is_empty() { "-".to_string() } else { expect.iter().map(|x| x.0.clone()).collect::<Vec<_>>().join(" ") });
            if impl_rp != want {
                let class = if torn_seen { "tensor_chain.tx_wal.open/append_after_torn_tail" } else { "tensor_chain.tx_wal.replay/acknowledged_record_lost" };
                report_violation(cx.rep, class, "TxWal::replay does not return the appended records that lie before the cut",
                    json!({"trace": trace, "expected": want, "replayed": impl_rp}));
            }
            let _ = len_open;
            drop(wal);
            if round == crashes {
                break;
            }
            // crash: cut anywhere
            let n = match r.below(4) {
                0 => bytes.len(),
                1 => r.below(bytes.len() as u64 + 1) as usize,
                _ => {
                    let ends: Vec<usize> = std::iter::once(0).chain(expect.iter().map(|x| x.1)).collect();
                    let e = *r.pick(&ends) as i64 + *r.pick(&[0i64, -1, 1, -3, 3, -7, 7]);
                    e.clamp(0, bytes.len() as i64) as usize
                }
            };
            std::fs::write(&path, &bytes[..n]).unwrap();
            expect.retain(|x| x.1 <= n);
            let whole = expect.last().map(|x| x.1).unwrap_or(0);
            if whole != n {
                torn_seen = true;
                cx.rep.hit("direct.cut.torn");
            } else {
                cx.rep.hit("direct.cut.boundary");
            }
            trace.push(format!("crash cut={n}/{}", bytes.len()));
            let m_v = cx.m.ask(&format!("valid_len {}", hex(&bytes[..n])));
            let w2 = TxWal::open_with_config(&path, dcfg()).unwrap();
            let len2 = std::fs::metadata(&path).unwrap().len();
            cx.rep.compare("wal.valid_len", || json!({"trace": trace}), &len2.to_string(), &m_v);
            if len2 as usize != whole {
                // pre-fix: the tail stays; offsets of later appends shift accordingly (tracked from the file)
            }
            drop(w2);
        }
        let tkey = trace.join(";");
        cx.rep.case("wal.direct", if expect.len() >= 2 { Some(&tkey) } else { None });
    }
    // garbage: random bytes, bit flips — replay must answer like the model (error / stop), never panic
    for _ in 0..rounds {
        let dir = tmp_dir();
        let path = dir.path().join("g.wal");
        cx.m.ask("reset_dict");
        let mut wal = TxWal::open_with_config(&path, wal_cfg(None)).unwrap();
        let k = 1 + r.below(4);
        for _ in 0..k {
            let e = gen_entry(r);
            let p = bitcode::serialize(&e).unwrap();
            cx.m.ask(&format!("def {} {}", hex(&p), direct_token(&e)));
            wal.append(&e).unwrap();
        }
        drop(wal);
        let mut bytes = std::fs::read(&path).unwrap();
        let i = r.below(bytes.len() as u64) as usize;
        // flips in headers exercise torn / checksum; flips in payloads exercise checksum
        bytes[i] ^= 1 << r.below(8);
        let kind = frames(&bytes, 0).len();
        std::fs::write(&path, &bytes).unwrap();
        // open would cut by header only; replay through a handle opened on a copy
        let wal = TxWal::open_with_config(&path, wal_cfg(None)).unwrap();
        let after = std::fs::read(&path).unwrap();
        let rp = guarded(std::panic::AssertUnwindSafe(|| wal.replay()));
        let impl_rp = match rp {
            Ok(Ok(es)) => format!("ok {}", if es.is_empty() { "-".to_string() } else { es.iter().map(direct_token).collect::<Vec<_>>().join(" ") }),
            Ok(Err(_)) => "err checksum".to_string(),
            Err(p) => format!("panic {p}"),
        };
        cx.rep.hit(&format!("direct.flip.{}", if impl_rp.starts_with("err") { "checksum" } else { "stopped_or_ok" }));
        let _ = kind;
        let m_v = cx.m.ask(&format!("valid_len {}", hex(&bytes)));
        cx.rep.compare("wal.valid_len", || json!({"flip": i, "bytes": hex(&bytes)}), &after.len().to_string(), &m_v);
        // a flipped payload whose crc still matched would be undecodable for the model too only if bitcode
        // rejects it; restrict the comparison to the cases the model can decide: checksum errors and clean cuts
        let m_rp = cx.m.ask(&format!("replay {}", hex(&after)));
        if impl_rp.starts_with("err") || m_rp.starts_with("err") || bytes.len() != after.len() {
            cx.rep.compare("wal.replay.flip", || json!({"flip": i, "bytes": hex(&after)}), &impl_rp, &m_rp);
        }
        cx.rep.case("wal.flip", None);
    }
}

/// an AbortIntent whose bitcode payload has exactly `target` bytes (by the length of its reason)
fn intent_with_payload(target: usize, tx: u64) -> Option<TxWalEntry> {
    let mk = |rl: usize| TxWalEntry::AbortIntent {
        tx_id: tx,
        reason: (0..rl).map(|i| (b'a' + ((i * 7 + i / 26) % 26) as u8) as char).collect(),
        shards: vec![0, 1],
    };
    let mut rl = target.saturating_sub(16).max(1);
    for _ in 0..12 {
        let l = bitcode::serialize(&mk(rl)).unwrap().len();
        if l == target {
            return Some(mk(rl));
        }
        let next = rl as i64 + target as i64 - l as i64;
        if next < 1 {
            return None;
        }
        rl = next as usize;
    }
    None
}

/// Record sizes through `TxWal::{append, open, replay}` directly, byte-exact: a record whose payload
/// has exactly b-1 / b / b+1 bytes for every boundary b that exists or could plausibly exist in such
/// code (one-byte length 256, page 4096, the 8 KiB buffer of BufReader / BufWriter as payload and as
/// whole frame, 32 KiB, 64 KiB as payload and as whole frame, 128 KiB, 1 MiB; thorough: 4 MiB, 16 MiB),
/// written in the MIDDLE of a small transaction's records (TxBegin, Prepared before it; Committing,
/// TxComplete after it).  Oracles on the real WAL only: replay returns every appended record that
/// lies before the cut, in order; open's record count equals what replay returns; a completed
/// transaction is not classified as in progress.  Then the file is cut just before / at / just after
/// the end of the long record and just after its header, reopened, appended to, and checked again.
/// One size per boundary (and one cut) is also compared with the model's `replay` / `valid_len`.
fn direct_sizes(cx: &mut Ctx, thorough: bool) {
    let mut ladder: Vec<(usize, bool)> = vec![];
    for b in [256usize, 4096, 8184, 8192, 32768, 65528, 65536, 131_072] {
        ladder.push((b - 1, false));
        ladder.push((b, false));
        ladder.push((b + 1, true));
    }
    ladder.push((1_048_575, thorough));
    ladder.push((1_048_576, thorough));
    ladder.push((1_048_577, true));
    if thorough {
        for x in [(1usize << 22) + 1, (1 << 24) - 1, 1 << 24, (1 << 24) + 1] {
            ladder.push((x, false));
        }
    }
    let ph = |from, to| TxWalEntry::PhaseChange { tx_id: 1, from, to };
    for (target, with_model) in ladder {
        let Some(big) = intent_with_payload(target, 2) else {
            cx.rep.hit("sizes.unattainable");
            continue;
        };
        cx.rep.hit(&format!("sizes.payload.{}", len_bucket(target)));
        let dir = tmp_dir();
        let path = dir.path().join("s.wal");
        cx.m.ask("reset_dict");
        let mut trace: Vec<String> = vec![format!("long record: AbortIntent with a payload of {target} bytes")];
        // (token, end offset)
        let mut expect: Vec<(String, usize)> = vec![];
        let mut append = |cx: &mut Ctx, wal: &mut TxWal, e: &TxWalEntry, expect: &mut Vec<(String, usize)>, trace: &mut Vec<String>| {
            let p = bitcode::serialize(e).unwrap();
            let tok = direct_token(e);
            if with_model {
                cx.m.ask(&format!("def {} {}", hex(&p), tok));
            }
            let r = wal.append(e);
            let end = std::fs::metadata(&path).map(|m| m.len() as usize).unwrap_or(0);
            let short = if tok.len() > 80 { format!("{}…({} bytes payload)", &tok[..40], p.len()) } else { tok.clone() };
            trace.push(format!("append {short} -> {}", if r.is_ok() { "ok" } else { "err" }));
            if r.is_ok() {
                expect.push((tok, end));
            }
        };
        // what a fresh handle on the file says
        let verify = |cx: &mut Ctx, expect: &Vec<(String, usize)>, trace: &Vec<String>, model: bool, torn_seen: bool| {
            let wal = TxWal::open_with_config(&path, wal_cfg(None)).unwrap();
            let counted = wal.entry_count();
            let rp = wal.replay();
            let got: Vec<String> = rp.as_ref().map(|es| es.iter().map(direct_token).collect()).unwrap_or_default();
            let want: Vec<String> = expect.iter().map(|x| x.0.clone()).collect();
            let shorten = |v: &Vec<String>| v.iter().map(|t| if t.len() > 80 { format!("{}…", &t[..40]) } else { t.clone() }).collect::<Vec<_>>();
            cx.rep.hit("oracle.sizes.replay");
            if rp.is_err() || got != want {
                let class = if torn_seen { "tensor_chain.tx_wal.open/append_after_torn_tail" } else { "tensor_chain.tx_wal.replay/acknowledged_record_lost" };
                report_violation(cx.rep, class, "TxWal::replay does not return the appended records that lie before the cut",
                    json!({"trace": trace, "long_record_payload_bytes": target, "expected": shorten(&want), "replayed": shorten(&got),
                           "replay_err": rp.as_ref().err().map(|e| e.to_string())}));
            }
            if rp.is_ok() && got.len() as u64 != counted {
                let class = if torn_seen { "tensor_chain.tx_wal.open/append_after_torn_tail" } else { "tensor_chain.tx_wal.replay/fewer_records_than_open_counted" };
                report_violation(cx.rep, class,
                    "TxWal::open counted more complete records in the file than TxWal::replay returns: records written by append are invisible to recovery",
                    json!({"trace": trace, "long_record_payload_bytes": target, "entry_count_after_open": counted, "replayed": got.len()}));
            }
            if want.iter().any(|t| t == "C:1:c") {
                if let Ok(st) = TxRecoveryState::from_wal(&wal) {
                    if st.prepared_txs.iter().chain(st.committing_txs.iter()).chain(st.aborting_txs.iter()).any(|r| r.tx_id == 1) {
                        report_violation(cx.rep, "tensor_chain.tx_wal.from_wal/completed_tx_classified_in_progress",
                            "a transaction whose TxComplete record is in the file is classified as in progress by TxRecoveryState::from_wal",
                            json!({"trace": trace, "long_record_payload_bytes": target}));
                    }
                }
            }
            if model {
                let bytes = std::fs::read(&path).unwrap_or_default();
                let impl_rp = match &rp {
                    Ok(_) => format!("ok {}", if got.is_empty() { "-".to_string() } else { got.join(" ") }),
                    Err(_) => "err checksum".to_string(),
                };
                let m_rp = cx.m.ask(&format!("replay {}", hex(&bytes)));
                cx.rep.compare("wal.replay", || json!({"trace": trace, "long_record_payload_bytes": target}), &impl_rp, &m_rp);
            }
        };
        let mut wal = TxWal::open_with_config(&path, wal_cfg(None)).unwrap();
        append(cx, &mut wal, &TxWalEntry::TxBegin { tx_id: 1, participants: vec![0, 1] }, &mut expect, &mut trace);
        append(cx, &mut wal, &ph(TxPhase::Preparing, TxPhase::Prepared), &mut expect, &mut trace);
        let big_start = expect.last().map(|x| x.1).unwrap_or(0);
        append(cx, &mut wal, &big, &mut expect, &mut trace);
        let big_end = expect.last().map(|x| x.1).unwrap_or(0);
        append(cx, &mut wal, &ph(TxPhase::Prepared, TxPhase::Committing), &mut expect, &mut trace);
        append(cx, &mut wal, &TxWalEntry::TxComplete { tx_id: 1, outcome: TxOutcome::Committed }, &mut expect, &mut trace);
        // the writing handle itself, then a fresh one
        {
            let got: Vec<String> = wal.replay().map(|es| es.iter().map(direct_token).collect()).unwrap_or_default();
            if got.len() != expect.len() {
                report_violation(cx.rep, "tensor_chain.tx_wal.replay/acknowledged_record_lost",
                    "TxWal::replay on the writing handle does not return every appended record",
                    json!({"trace": trace, "long_record_payload_bytes": target, "appended": expect.len(), "replayed": got.len()}));
            }
        }
        drop(wal);
        verify(cx, &expect, &trace, with_model, false);
        let full = std::fs::read(&path).unwrap();
        let mut torn_seen = false;
        for (ci, cut) in [big_end - 1, big_end, big_end + 1, big_start + 9].into_iter().enumerate() {
            let cut = cut.min(full.len());
            std::fs::write(&path, &full[..cut]).unwrap();
            let mut exp2: Vec<(String, usize)> = expect.iter().filter(|x| x.1 <= cut).cloned().collect();
            let mut tr2 = trace.clone();
            tr2.push(format!("crash cut={cut}/{}", full.len()));
            let whole = exp2.last().map(|x| x.1).unwrap_or(0);
            let model_here = with_model && ci == 0 && (target < 512 * 1024 || thorough);
            let mut w2 = TxWal::open_with_config(&path, wal_cfg(None)).unwrap();
            if model_here {
                let m_v = cx.m.ask(&format!("valid_len {}", hex(&full[..cut])));
                let len2 = std::fs::metadata(&path).unwrap().len();
                cx.rep.compare("wal.valid_len", || json!({"trace": tr2}), &len2.to_string(), &m_v);
            }
            verify(cx, &exp2, &tr2, false, torn_seen);
            if whole != cut {
                torn_seen = true;
            }
            append(cx, &mut w2, &TxWalEntry::TxComplete { tx_id: 2, outcome: TxOutcome::Aborted }, &mut exp2, &mut tr2);
            drop(w2);
            verify(cx, &exp2, &tr2, model_here, torn_seen);
            torn_seen = false; // every cut starts from the intact file again
        }
        cx.rep.case("wal.sizes", Some(&format!("payload={target}")));
    }
}

fn main() {
    let args = parse_args();
    let mut rep = Report::new(
        "seeded scripts: interleaved life-plans of 1-4 transactions (votes incl. duplicate/late/foreign, commit, abort, \
         timeouts), the WAL cut at record boundaries +-{0,1,3,7} and random bytes (quick) or at every byte (thorough), \
         restart, random prodding (commit/abort/complete_*/force_resolve/recover/get_pending_decisions/cleanup) + new \
         transactions, up to 3 crashes, final drain + clean restart; one scenario in five on size-limited WALs whose appends \
         fail; hand-written scripts under every byte value of the size limit. A case is one \
         (script, first cut) branch; non-trivial = its log holds a phase change or an outcome; distinct = distinct op/cut trace",
    );
    rep.expected_branches = [
        "op.begin", "op.vote", "op.commit", "op.abort", "op.ccommit", "op.cabort", "op.cleanup", "op.flush", "op.recover_live",
        "res.too_many", "res.vote.duplicate", "res.vote.wrong_phase", "res.vote.not_found", "res.vote.phase", "res.vote.voted",
        "res.commit.ok", "res.commit.not_found", "res.commit.wrong_phase", "res.abort.ok", "res.abort.not_found",
        "res.ccommit.ok", "res.cabort.ok", "res.cleanup.timed_out_some",
        "wal.B", "wal.V", "wal.P", "wal.C", "wal.L", "wal.R", "wal.I",
        "restart.tx.completed", "restart.tx.forgotten", "restart.tx.prepared", "restart.tx.deciding", "restart.tx.never_logged",
        "cut.torn", "cut.boundary", "crashes.2", "crashes.3",
        "op.recover_mem", "op.decisions", "op.force", "res.force.ok", "res.force.not_found", "res.force.cannot_commit",
        "res.recover_mem.timed_out_some", "res.recover_mem.commit_some", "res.wal_err", "res.commit.wal_err", "res.abort.wal_err",
        "res.vote.wal_failed", "model.need_sizes", "oracle.memory_vs_log", "scenario.capped", "wal.rotated",
        "rot.prepared_tx_dropped", "directed.stale-handle", "direct.append.no_checksum", "op.truncate",
        "op.truncate.skipped_pending", "truncate.prepared_tx_dropped", "oracle.prepared_in_memory_durable",
        "handles.recovered_some", "handles.orphaned_some", "oracle.foreign_lock_kept", "handles.finish.commit", "handles.finish.abort",
        "handles.finish.force_resolve", "handles.finish.complete_commit",
        "wal.len.lt256", "wal.len.lt8k", "wal.len.lt64k", "wal.len.ge64k", "wal.len.ge1m", "sizes.payload.ge64k", "sizes.payload.ge1m",
        "oracle.open_count_vs_replay", "oracle.sizes.replay", "scenario.wide", "direct.append.long",
        "directed.recover-again", "oracle.recovery_call_keeps_live_tx", "oracle.recovery_call_keeps_live_tx.unrestored",
        "scenario.recover_live_sprinkled",
        "directed.wide.between-prepare-and-commit", "directed.wide.abort-intent", "directed.wide.cap", "directed.wide.ladder",
    ]
    .iter()
    .map(|s| s.to_string())
    .collect();
    let mut m = Model::spawn(&args.driver);
    let root = Rng::new(args.seed);
    let t_start = std::time::Instant::now();

    // first, on every run: long records (a wide transaction's TxBegin / AbortIntent of 64 KiB and
    // more in the middle of other transactions' records; record sizes byte-exact at every plausible
    // boundary; a long record right at the WAL's own size limit), the regression of the repaired
    // lock-handle defect (0358827a) and the directed cases of the two known findings (rotation,
    // truncate_wal with a transaction pending)
    {
        // recovery calls on the running coordinator with transactions of the current life pending
        let mut cx = Ctx { m: &mut m, rep: &mut rep, stream_prefix: "live." };
        directed_recover_again(&mut cx);
    }
    let sizes = WideSizes::measure();
    rep.note(&format!(
        "wide transactions: TxBegin payload bytes for the participant counts used - {} -> {}, {} -> {}, {} -> {}, {} -> {}, {} -> {}, {} -> {}",
        sizes.below8k, begin_payload_len(sizes.below8k), sizes.above8k, begin_payload_len(sizes.above8k),
        sizes.below64k, begin_payload_len(sizes.below64k), sizes.above64k, begin_payload_len(sizes.above64k),
        sizes.above128k, begin_payload_len(sizes.above128k), sizes.above1m, begin_payload_len(sizes.above1m)));
    {
        let mut cx = Ctx { m: &mut m, rep: &mut rep, stream_prefix: "wide." };
        directed_wide(&mut cx, &sizes, args.thorough);
        directed_wide_caps(&mut cx, &sizes);
        direct_sizes(&mut cx, args.thorough);
    }
    rep.note(&format!("long-record directed cases took {:.1} s", t_start.elapsed().as_secs_f64()));
    {
        let mut cx = Ctx { m: &mut m, rep: &mut rep, stream_prefix: "" };
        directed_stale_handle(&mut cx);
    }
    {
        let mut cx = Ctx { m: &mut m, rep: &mut rep, stream_prefix: "rot." };
        directed_rot(&mut cx);
    }
    {
        let mut cx = Ctx { m: &mut m, rep: &mut rep, stream_prefix: "" };
        // direct WAL differential
        let mut r = root.fork("direct");
        direct_wal(&mut cx, &mut r, if args.thorough { 1500 } else { 150 }, &sizes);
        // hand-written shapes, every byte
        directed(&mut cx);
        directed_timeout_after_restart(&mut cx);
        // the handle counter with real handle numbers
        let mut r = root.fork("handles");
        handles_stream(&mut cx, &mut r, if args.thorough { 1500 } else { 150 });
    }
    {
        let mut cx = Ctx { m: &mut m, rep: &mut rep, stream_prefix: "full." };
        directed_full(&mut cx, args.thorough);
    }
    rep.note(&format!("direct + directed streams took {:.1} s", t_start.elapsed().as_secs_f64()));
    // seeded scenarios
    let budget = if args.thorough { Duration::from_secs(600) } else { Duration::from_secs(40) };
    let n_scen = if args.thorough { 400 } else { 10_000 };
    let r = root.fork("scenario");
    let mut done = 0u64;
    for i in 0..n_scen {
        if t_start.elapsed() > budget {
            break;
        }
        let mut rs = r.fork(&format!("s{i}"));
        let mut cx = Ctx { m: &mut m, rep: &mut rep, stream_prefix: "" };
        // thorough: every byte of phase A's file for every scenario; quick: every byte for 1 in 12
        let all = args.thorough || i % 12 == 0;
        // occasionally (every 41st scenario) one of the transactions of phase A is WIDE: its
        // TxBegin payload is just below / just above 64 KiB, ~100 KB or ~128 KiB
        let wide = if i % 41 == 7 {
            let mut rw = rs.fork("wide");
            Some(*rw.pick(&[sizes.below64k, sizes.above64k, sizes.above64k, sizes.n100k, sizes.above128k]))
        } else {
            None
        };
        let (c, _) = scenario(&mut rs, &mut cx, None, all, wide);
        done += c;
    }
    rep.note(&format!("scenario branches run: {done}; model lines: {}", m.lines));
    rep.note("clock: timeouts are driven by the wall clock; a cleanup is only issued when every pending transaction is >30 ms away from its deadline, scenarios where the clock moved across a deadline during the call are dropped (counted as clock.unsure_dropped)");
    rep.write(&args.out);
}
