//! C10 correspondence + oracles: real `RaftNode::with_wal` / `RaftWal` vs the Lean Raft-WAL model.
//!
//! Streams
//!   node.*      a real node driven synchronously through elections, vote grants, step-downs,
//!               appends, conflict truncations and proposals; after every handler call the WAL
//!               records it appended, its reply and its state are compared with the model's `ev`.
//!   cut.*       byte-granular cuts of the real WAL file; a real node is restarted on each cut;
//!               (term, votedFor, log) compared with the model's `recover`/`restart` of the same
//!               bytes; the property oracle is evaluated on what the real node ANSWERED before
//!               the cut (term acted on, votes granted, entries acknowledged / proposed).
//!   chain       a cut is chosen, the restarted real node continues with more protocol steps on
//!               the cut file and crashes again (up to three crashes).
//!   raw.*       `RaftWal::open/append/replay` + `RaftRecoveryState::from_entries` on random
//!               record lists (all seven kinds), cuts, bit flips, reopen-and-append.
//!   snapshot    the same machinery on scripted histories around `install_snapshot` /
//!               `install_snapshot_streaming` on a WAL-backed follower: the follower lags behind the
//!               snapshot, holds an agreeing suffix beyond the snapshot index, or holds a conflicting
//!               log with a local suffix beyond the snapshot index; then the leader's next
//!               AppendEntries on top of the snapshot; byte cuts inside the install's records,
//!               restarts on them, crash chains continuing from a half-written install.
//!               (random `install_snapshot` events also occur in every chain script.)
//!   install.cut directed, run first: a follower acknowledges entries, then installs a snapshot reaching
//!               beyond / below / exactly to what it acknowledged, conflicting with a local suffix, or a
//!               second snapshot; the WAL is cut at EVERY byte the install wrote.
//!   large.*    directed, run first: log entries whose block carries a large transaction payload (serialized
//!               entry >= 64 KiB, >= 1 MiB, thorough: >= 4 MiB) arriving through AppendEntries, `propose` and a
//!               snapshot install, in the MIDDLE of a history: smaller entries, a term change and a granted vote
//!               are written after it; then a restart from the complete file, further protocol steps, a second
//!               restart. The same oracles as everywhere else judge the restarted real node.
//!   sizes.raw   directed, run first: byte-exact payload sizes at every boundary that exists or could plausibly
//!               exist in such code, through `RaftWal::{append, open, replay}` directly, the long record in the
//!               middle of term / vote / entry records; cuts around the long record, reopen, append, reopen.
//!   (large entries also occur, rarely, in the random chain / snapshot / fail streams and in raw.*)
//!
//! After every handler call: the votes the node has announced so far (before and after its restarts) never
//! name two candidates for one term. Two oracles on the restarted REAL node at every cut, neither gated on
//! the model:
//!   record-derived  the obligations of the last completed handler call, released by the WAL records of the
//!                   in-flight call that survive the cut (the model's `microG`);
//!   order-derived   the entries acknowledged before the in-flight call, released only by what the ORDER
//!                   being carried out says (`order_may_drop`: a snapshot replaces what it contradicts and
//!                   what lies beyond it, an AppendEntries what follows its first term conflict) — a record
//!                   the code has no business writing excuses nothing.
use std::collections::{BTreeSet, HashSet};
use std::path::{Path, PathBuf};
use std::sync::Arc;

use nverif::*;
use serde_json::{json, Value};
use tensor_chain::block::{Block, BlockHeader};
use tensor_chain::network::{
    AppendEntries, AppendEntriesResponse, LogEntry, MemoryTransport, Message, PreVote, PreVoteResponse,
    RequestVote, RequestVoteResponse, TimeoutNow,
};
use tensor_chain::raft::{RaftConfig, RaftNode, RaftState};
use tensor_chain::{serialize_entries, RaftRecoveryState, RaftWal, RaftWalEntry, SnapshotBufferConfig, SnapshotMetadata, Transaction};
use tensor_store::SparseVector;

const SELF_ID: u64 = 0;
const NPEERS: u64 = 4;

fn nid(k: u64) -> String {
    k.to_string()
}
fn nid_num(s: &str) -> u64 {
    s.parse().unwrap_or(77)
}

/// Commands (block heights) from `SIZE_UNIT` on stand for blocks that carry ONE large `Put` transaction:
/// `c / SIZE_UNIT` is the size class, the payload bytes are a function of `c` alone, so that an event line
/// (`ev ae 1 1 1 1 1.2000007`) reproduces the entry. The model's entry is (index, term, command) whatever
/// the size: its theorems hold for every serializer, i.e. for every assignment of record sizes.
const SIZE_UNIT: u64 = 1_000_000;
/// payload bytes of the size classes 1.. (serialized `LogEntry` >= 64 KiB, >= 1 MiB, >= 4 MiB; class 4: a
/// few KiB, more than any buffer-less small record)
const CLASS_PAYLOAD: [usize; 4] = [64 * 1024, 1024 * 1024, 4 * 1024 * 1024, 5000];

fn payload_of(c: u64) -> Option<Vec<u8>> {
    let class = (c / SIZE_UNIT) as usize;
    if class == 0 {
        return None;
    }
    let n = CLASS_PAYLOAD[(class - 1).min(CLASS_PAYLOAD.len() - 1)];
    // xorshift: every byte value occurs, nothing for an encoder to pack
    let mut x = c.wrapping_mul(0x9E37_79B9_7F4A_7C15) | 1;
    let mut v = Vec::with_capacity(n + 8);
    while v.len() < n {
        x ^= x << 13;
        x ^= x >> 7;
        x ^= x << 17;
        v.extend_from_slice(&x.to_le_bytes());
    }
    v.truncate(n);
    Some(v)
}

fn mk_block(height: u64) -> Block {
    let header = BlockHeader::new(height, [0u8; 32], [0u8; 32], [0u8; 32], "p".to_string());
    let txs = match payload_of(height) {
        Some(data) => vec![Transaction::Put { key: "blob".to_string(), data }],
        None => vec![],
    };
    Block::new(header, txs)
}

/// How large the entries of the random generators may get in the current case: 0 = empty blocks only (the
/// default), k = size classes 1..=k. `BIG_BUDGET` bounds the number of large entries of one case.
static SIZE_MODE: std::sync::atomic::AtomicU64 = std::sync::atomic::AtomicU64::new(0);
static BIG_BUDGET: std::sync::atomic::AtomicU64 = std::sync::atomic::AtomicU64::new(0);

/// the command of a NEW entry
fn gen_cmd(r: &mut Rng) -> u64 {
    let base = 1 + r.below(900);
    let mode = SIZE_MODE.load(std::sync::atomic::Ordering::Relaxed);
    if mode == 0 {
        return base;
    }
    if r.chance(1, 4) && BIG_BUDGET.load(std::sync::atomic::Ordering::Relaxed) > 0 {
        BIG_BUDGET.fetch_sub(1, std::sync::atomic::Ordering::Relaxed);
        let class = if r.chance(1, 3) { 4 } else { 1 + r.below(mode) };
        return class * SIZE_UNIT + base;
    }
    base
}

/// `snapshot_trailing_logs` of the nodes the harness creates (100 = the default: no compaction of the
/// short logs of most streams; the `compact` stream sets 0..2)
static TRAILING: std::sync::atomic::AtomicUsize = std::sync::atomic::AtomicUsize::new(100);

fn cfg() -> RaftConfig {
    let mut c = RaftConfig::default();
    c.enable_geometric_tiebreak = false;
    c.auto_heartbeat = false;
    c.snapshot_trailing_logs = TRAILING.load(std::sync::atomic::Ordering::Relaxed);
    c
}

fn mk_node(path: &Path) -> std::io::Result<RaftNode> {
    let transport = Arc::new(MemoryTransport::new(nid(SELF_ID)));
    RaftNode::with_wal(
        nid(SELF_ID),
        (1..=NPEERS).map(nid).collect(),
        transport,
        cfg(),
        path,
    )
}

// ---------------------------------------------------------------- canonical forms

fn data_tok(d: &[u8]) -> String {
    match bitcode::deserialize::<LogEntry>(d) {
        Ok(e) => format!("{}.{}.{}", e.index, e.term, e.block.header.height),
        Err(_) => format!("x{}", hex(d)),
    }
}

fn rec_tok(e: &RaftWalEntry) -> String {
    match e {
        RaftWalEntry::TermChange { new_term } => format!("T{new_term}"),
        RaftWalEntry::VoteCast { term, candidate_id } => format!("V{term}:{}", nid_num(candidate_id)),
        RaftWalEntry::TermAndVote { term, voted_for } => format!(
            "TV{term}:{}",
            voted_for.as_ref().map_or("-".to_string(), |c| nid_num(c).to_string())
        ),
        RaftWalEntry::LogAppend { index, term, .. } => format!("LA{index}:{term}"),
        RaftWalEntry::LogTruncate { from_index } => format!("LT{from_index}"),
        RaftWalEntry::SnapshotTaken {
            last_included_index,
            last_included_term,
        } => format!("S{last_included_index}:{last_included_term}"),
        RaftWalEntry::LogEntryFull {
            index,
            term,
            entry_data,
        } => format!("F{index}:{term}:{}", data_tok(entry_data)),
        _ => "?".to_string(),
    }
}

fn list_or_dash(v: &[String]) -> String {
    if v.is_empty() {
        "-".into()
    } else {
        v.join(",")
    }
}

fn opt_tok(v: &Option<u64>) -> String {
    v.map_or("-".into(), |x| x.to_string())
}

fn rstate_tok(s: &RaftRecoveryState) -> String {
    format!(
        "term={} voted={} snap={}:{} log={}",
        s.current_term,
        s.voted_for.as_ref().map_or("-".to_string(), |c| nid_num(c).to_string()),
        opt_tok(&s.last_snapshot_index),
        opt_tok(&s.last_snapshot_term),
        list_or_dash(&s.recovered_log.iter().map(|d| data_tok(d)).collect::<Vec<_>>())
    )
}

/// complete `[len][crc][payload]` frames by header walk: (start, end) byte ranges
fn frames(b: &[u8]) -> Vec<(usize, usize)> {
    let mut v = vec![];
    let mut pos = 0usize;
    while pos + 8 <= b.len() {
        let len = u32::from_le_bytes([b[pos], b[pos + 1], b[pos + 2], b[pos + 3]]) as usize;
        if pos + 8 + len > b.len() {
            break;
        }
        v.push((pos, pos + 8 + len));
        pos += 8 + len;
    }
    v
}

/// tell the model what bitcode says about every complete frame's payload
fn register(m: &mut Model, seen: &mut HashSet<Vec<u8>>, bytes: &[u8]) {
    for (s, e) in frames(bytes) {
        let p = &bytes[s + 8..e];
        if seen.contains(p) {
            continue;
        }
        if let Ok(ent) = bitcode::deserialize::<RaftWalEntry>(p) {
            let tok = rec_tok(&ent);
            if tok != "?" {
                let a = m.ask(&format!("def {} {}", hex(p), tok));
                debug_assert_eq!(a, "ok");
            }
        }
        seen.insert(p.to_vec());
    }
}

fn decode_frames(bytes: &[u8], from: usize) -> Vec<RaftWalEntry> {
    frames(bytes)
        .iter()
        .skip(from)
        .filter_map(|(s, e)| bitcode::deserialize::<RaftWalEntry>(&bytes[s + 8..*e]).ok())
        .collect()
}

fn real_recover(path: &Path) -> String {
    match RaftWal::open(path) {
        Err(e) => format!("err open {}", err_class(&e)),
        Ok(w) => match w.replay() {
            Err(e) => format!("err {}", err_class(&e)),
            Ok(es) => format!("ok n={} {}", es.len(), rstate_tok(&RaftRecoveryState::from_entries(&es))),
        },
    }
}

/// Error canonicalisation (BUILDING.md), rule 1: by the structured part of the error, never its wording.
/// The raft WAL API returns `io::Error`; `impl From<WalError> for io::Error` (raft_wal.rs) keeps a genuine
/// I/O error as it is (its kind is the OS's, never `Other`) and wraps every WAL-level refusal with
/// `io::Error::other(text)` = kind `Other`. On the open / replay path the only WAL-level refusal is
/// `ChecksumMismatch` (the model's only error, `err checksum`); on the append path see `append_err`.
fn err_class(e: &std::io::Error) -> &'static str {
    if e.kind() == std::io::ErrorKind::Other {
        "checksum"
    } else {
        "io"
    }
}
/// `RaftWal::append` with a size limit: the WAL-level refusal (kind `Other`) is `SizeLimitExceeded`, the one
/// refusal the model of the size rule knows (`err size`); a genuine I/O error is named by its kind.
fn append_err(e: &std::io::Error) -> String {
    if e.kind() == std::io::ErrorKind::Other {
        "err size".to_string()
    } else {
        format!("err:io:{:?}", e.kind())
    }
}

// ---------------------------------------------------------------- node observation

type Ent = (u64, u64, u64); // index, term, cmd

/// the node's in-memory log (after `truncate_log`: the part beyond `log_base_index`)
fn node_log(n: &RaftNode) -> Vec<Ent> {
    let (_, _, es, _) = n.get_entries_for_follower(&"zz".to_string());
    if es.len() == n.log_length() {
        return es.iter().map(|e| (e.index, e.term, e.block.header.height)).collect();
    }
    // compacted (`get_entries_for_follower` cannot start at index 1 any more): terms and payloads from the
    // verification hook, indices counted back from the last one
    let d = n.verif_dump();
    let toks: Vec<(u64, u64)> = d
        .split(' ')
        .find_map(|f| f.strip_prefix("log="))
        .filter(|l| *l != "-")
        .map(|l| {
            l.split(',')
                .filter_map(|x| {
                    let mut p = x.split(':');
                    Some((p.next()?.parse().ok()?, p.next()?.parse().ok()?))
                })
                .collect()
        })
        .unwrap_or_default();
    let last = n.last_log_index();
    let len = toks.len() as u64;
    toks.iter().enumerate().map(|(i, (t, c))| (last + 1 + i as u64 - len, *t, *c)).collect()
}

/// entry with logical index `idx` of an in-memory log (which may start beyond index 1 after compaction)
fn at(log: &[Ent], idx: u64) -> Option<Ent> {
    log.iter().find(|e| e.0 == idx).copied()
}

/// `log_base_index` as far as it shows: index of the first in-memory entry - 1
fn base_tok(log: &[Ent]) -> String {
    format!("b={}", log.first().map_or(0, |e| e.0.saturating_sub(1)))
}

fn role_tok(n: &RaftNode) -> &'static str {
    match n.state() {
        RaftState::Follower => "F",
        RaftState::Candidate => "C",
        RaftState::Leader => "L",
        _ => "?",
    }
}

/// volatile election state through `RaftNode::verif_dump` (cfg neumann_verif):
/// (voted_for, "l=<current_leader> pv=<in_pre_vote> votes=<ids> pvotes=<ids>")
fn dump_fields(n: &RaftNode) -> (String, String) {
    let d = n.verif_dump();
    let get = |k: &str| -> String {
        d.split(' ').find_map(|f| f.strip_prefix(&format!("{k}="))).unwrap_or("?").to_string()
    };
    (get("v"), format!("l={} pv={} votes={} pvotes={}", get("l"), get("pv"), get("votes"), get("pvotes")))
}
fn in_pre_vote(n: &RaftNode) -> bool {
    dump_fields(n).1.contains("pv=1")
}

fn log_tok(l: &[Ent]) -> String {
    list_or_dash(&l.iter().map(|(i, t, c)| format!("{i}:{t}:{c}")).collect::<Vec<_>>())
}

/// Which candidate does this node consider itself to have voted for in its current term?
/// Asked through the public protocol only (destructive: use a throw-away node).
fn probe_voted(n: &RaftNode) -> String {
    let term = n.current_term();
    let ask = |c: &str| -> bool {
        let rv = RequestVote {
            term,
            candidate_id: c.to_string(),
            last_log_index: u64::MAX / 2,
            last_log_term: u64::MAX / 2,
            state_embedding: SparseVector::new(0),
        };
        matches!(
            n.handle_message(&c.to_string(), &Message::RequestVote(rv)),
            Some(Message::RequestVoteResponse(RequestVoteResponse { vote_granted: true, .. }))
        )
    };
    if ask("99") {
        return "-".into();
    }
    for k in 0..=NPEERS {
        if ask(&nid(k)) {
            return k.to_string();
        }
    }
    "?".into()
}

// ---------------------------------------------------------------- events

#[derive(Clone, Debug)]
enum Ev {
    Elect,
    Rv { t: u64, c: u64, li: u64, lt: u64 },
    Rvr { from: u64, t: u64, g: bool },
    PreStart,
    PreVote { t: u64, c: u64, li: u64, lt: u64 },
    Pvr { from: u64, t: u64, g: bool },
    TNow { from: u64, t: u64, l: u64 },
    /// `truncate_log` with a snapshot at index `i` (log compaction: in memory only)
    Compact { i: u64 },
    Lead,
    Ae { t: u64, l: u64, pi: u64, pt: u64, ents: Vec<(u64, u64)> },
    Aer { t: u64 },
    Prop { c: u64 },
    /// `install_snapshot` (bytes) / `install_snapshot_streaming` with metadata (li, lt) and entries 1..n
    Snap { li: u64, lt: u64, ents: Vec<(u64, u64)>, streaming: bool },
}

fn pairs_tok(v: &[(u64, u64)]) -> String {
    list_or_dash(&v.iter().map(|(t, c)| format!("{t}.{c}")).collect::<Vec<_>>())
}

impl Ev {
    fn line(&self) -> String {
        match self {
            Ev::Elect => "ev elect".into(),
            Ev::Rv { t, c, li, lt } => format!("ev rv {t} {c} {li} {lt}"),
            Ev::Rvr { from, t, g } => format!("ev rvr {from} {t} {}", u8::from(*g)),
            Ev::PreStart => "ev prestart".into(),
            Ev::PreVote { t, c, li, lt } => format!("ev pv {t} {c} {li} {lt}"),
            Ev::Pvr { from, t, g } => format!("ev pvr {from} {t} {}", u8::from(*g)),
            Ev::TNow { from, t, l } => format!("ev tnow {from} {t} {l}"),
            Ev::Compact { i } => format!("ev compact {i}"),
            Ev::Lead => "ev lead".into(),
            Ev::Ae { t, l, pi, pt, ents } => format!("ev ae {t} {l} {pi} {pt} {}", pairs_tok(ents)),
            Ev::Aer { t } => format!("ev aer {t}"),
            Ev::Prop { c } => format!("ev prop {c}"),
            Ev::Snap { li, lt, ents, .. } => format!("ev snap {li} {lt} {}", pairs_tok(ents)),
        }
    }
    fn tag(&self) -> &'static str {
        match self {
            Ev::Elect => "elect",
            Ev::Rv { .. } => "request_vote",
            Ev::Rvr { .. } => "vote_response",
            Ev::PreStart => "start_pre_vote",
            Ev::PreVote { .. } => "pre_vote",
            Ev::Pvr { .. } => "prevote_response",
            Ev::TNow { .. } => "timeout_now",
            Ev::Compact { .. } => "compact",
            Ev::Lead => "become_leader",
            Ev::Ae { .. } => "append_entries",
            Ev::Aer { .. } => "append_response",
            Ev::Prop { .. } => "propose",
            Ev::Snap { .. } => "install_snapshot",
        }
    }
}

/// what the node has told the world (the obligations of the property)
#[derive(Clone, Debug, Default)]
struct Ghost {
    acted: u64,
    votes: BTreeSet<(u64, u64)>,
    acked: BTreeSet<Ent>,
}

impl Ghost {
    fn tok(&self) -> String {
        format!(
            "acted={} votes={} acked={}",
            self.acted,
            list_or_dash(&self.votes.iter().map(|(t, c)| format!("{t}:{c}")).collect::<Vec<_>>()),
            list_or_dash(&self.acked.iter().map(|(i, t, c)| format!("{i}:{t}:{c}")).collect::<Vec<_>>())
        )
    }
    /// an obligation about an acknowledged entry ends when the durable log starts to drop it on a
    /// later leader's order: conflict truncation, or a snapshot entry written over it
    fn shrink(&mut self, recs: &[RaftWalEntry]) {
        for r in recs {
            match r {
                RaftWalEntry::LogTruncate { from_index } => self.acked.retain(|e| e.0 < *from_index),
                RaftWalEntry::LogEntryFull { index, entry_data, .. } => {
                    let new: Option<Ent> = bitcode::deserialize::<LogEntry>(entry_data)
                        .ok()
                        .map(|e| (e.index, e.term, e.block.header.height));
                    self.acked.retain(|e| e.0 != *index || Some(*e) == new);
                }
                _ => {}
            }
        }
    }
    /// obligations violated by a restarted node; returns (kind, detail)
    fn check(&self, term: u64, voted: &str, log: &[Ent]) -> Vec<(&'static str, String)> {
        let mut bad = vec![];
        if term < self.acted {
            bad.push(("lost_term", format!("restarted with term {term} < acted term {}", self.acted)));
        }
        for (t, c) in &self.votes {
            if !(term > *t || (term == *t && voted == c.to_string())) {
                bad.push((
                    "lost_vote",
                    format!("vote for n{c} in term {t} granted before the crash; restarted with term {term} votedFor {voted}"),
                ));
            }
        }
        for e in &self.acked {
            if !log.contains(e) {
                bad.push(("lost_entry", format!("acknowledged entry {e:?} missing after restart")));
            }
        }
        bad
    }
}

struct Live {
    node: RaftNode,
}

/// run one event on the real node; returns the canonical reply
fn apply_real(lv: &mut Live, ev: &Ev) -> String {
    let n = &lv.node;
    match ev {
        Ev::Elect => {
            n.start_election();
            "none".into()
        }
        Ev::Rv { t, c, li, lt } => {
            let rv = RequestVote {
                term: *t,
                candidate_id: nid(*c),
                last_log_index: *li,
                last_log_term: *lt,
                state_embedding: SparseVector::new(0),
            };
            match n.handle_message(&nid(*c), &Message::RequestVote(rv)) {
                Some(Message::RequestVoteResponse(r)) => format!("vote:{}:{}", r.term, u8::from(r.vote_granted)),
                _ => "?".into(),
            }
        }
        Ev::Rvr { from, t, g } => {
            let r = RequestVoteResponse { term: *t, vote_granted: *g, voter_id: nid(*from) };
            n.handle_message(&nid(*from), &Message::RequestVoteResponse(r));
            "none".into()
        }
        Ev::PreStart => {
            n.start_pre_vote();
            "none".into()
        }
        Ev::PreVote { t, c, li, lt } => {
            let pv = PreVote {
                term: *t,
                candidate_id: nid(*c),
                last_log_index: *li,
                last_log_term: *lt,
                state_embedding: SparseVector::new(0),
            };
            match n.handle_message(&nid(*c), &Message::PreVote(pv)) {
                // `vote_granted` depends on the time since the last heartbeat: not compared
                Some(Message::PreVoteResponse(r)) => format!("prevote:{}", r.term),
                _ => "?".into(),
            }
        }
        Ev::Pvr { from, t, g } => {
            let r = PreVoteResponse { term: *t, vote_granted: *g, voter_id: nid(*from) };
            n.handle_message(&nid(*from), &Message::PreVoteResponse(r));
            "none".into()
        }
        Ev::TNow { from, t, l } => {
            let tn = TimeoutNow { term: *t, leader_id: nid(*l) };
            n.handle_message(&nid(*from), &Message::TimeoutNow(tn));
            "none".into()
        }
        Ev::Compact { i } => {
            let peers: Vec<String> = (1..=NPEERS).map(nid).collect();
            let meta = SnapshotMetadata::new(*i, 0, [0u8; 32], peers, 0);
            match n.truncate_log(&meta) {
                Ok(()) => "none".into(),
                Err(e) => format!("err:{}", format!("{e:?}").split(|c: char| !c.is_alphanumeric()).next().unwrap_or("")),
            }
        }
        Ev::Lead => {
            n.become_leader();
            "none".into()
        }
        Ev::Ae { t, l, pi, pt, ents } => {
            let entries: Vec<LogEntry> = ents
                .iter()
                .enumerate()
                .map(|(k, (et, c))| LogEntry::new(*et, pi + 1 + k as u64, mk_block(*c)))
                .collect();
            let ae = AppendEntries {
                term: *t,
                leader_id: nid(*l),
                prev_log_index: *pi,
                prev_log_term: *pt,
                entries,
                leader_commit: 0,
                block_embedding: None,
            };
            match n.handle_message(&nid(*l), &Message::AppendEntries(ae)) {
                Some(Message::AppendEntriesResponse(r)) => {
                    format!("append:{}:{}:{}", r.term, u8::from(r.success), r.match_index)
                }
                _ => "?".into(),
            }
        }
        Ev::Aer { t } => {
            let r = AppendEntriesResponse {
                term: *t,
                success: false,
                follower_id: nid(3),
                match_index: 0,
                used_fast_path: false,
            };
            n.handle_message(&nid(3), &Message::AppendEntriesResponse(r));
            "none".into()
        }
        Ev::Prop { c } => {
            if n.is_leader() {
                // make `is_write_safe` true: two followers answer a heartbeat of this term
                for k in 1..=2 {
                    let r = AppendEntriesResponse {
                        term: n.current_term(),
                        success: true,
                        follower_id: nid(k),
                        match_index: 0,
                        used_fast_path: false,
                    };
                    n.handle_message(&nid(k), &Message::AppendEntriesResponse(r));
                }
            }
            match n.propose(mk_block(*c)) {
                Ok(i) => format!("proposed:{i}"),
                // errors are mapped by VARIANT, never by message wording (a reworded message is not a
                // behaviour change). `ConsensusError(String)` carries three refusals of `propose` (not leader,
                // leadership transfer in progress, quorum not available); the harness rules the last two out
                // before the call (no transfer is ever started, two followers just answered), the model has the
                // ONE refusal `notleader`, and the C10 oracles only use `proposed:<i>`: one token (rule 2).
                Err(tensor_chain::ChainError::StorageError(_)) => "walfail".into(),
                Err(tensor_chain::ChainError::ConsensusError(_)) => "notleader".into(),
                Err(e) => format!("err:{}", format!("{e:?}").split(|c: char| !c.is_alphanumeric()).next().unwrap_or("")),
            }
        }
        Ev::Snap { li, lt, ents, streaming } => {
            let entries: Vec<LogEntry> = ents
                .iter()
                .enumerate()
                .map(|(k, (t, c))| LogEntry::new(*t, 1 + k as u64, mk_block(*c)))
                .collect();
            let peers: Vec<String> = (1..=NPEERS).map(nid).collect();
            let res: Result<(), String> = if *streaming || entries.is_empty() {
                match serialize_entries(&entries, SnapshotBufferConfig::default()) {
                    Ok(buf) => {
                        let meta = SnapshotMetadata::new(*li, *lt, buf.hash(), peers, buf.total_len());
                        n.install_snapshot_streaming(meta, &buf).map_err(|e| e.to_string())
                    }
                    Err(e) => Err(format!("helper: {e}")),
                }
            } else {
                // a real node holding exactly these entries produces the snapshot bytes and their hash
                let helper = RaftNode::with_state(
                    nid(9),
                    peers.clone(),
                    Arc::new(MemoryTransport::new(nid(9))),
                    cfg(),
                    0,
                    None,
                    entries.clone(),
                );
                helper.set_finalized_height(entries.len() as u64);
                match helper.create_snapshot() {
                    Ok((mut meta, data)) => {
                        meta.last_included_index = *li;
                        meta.last_included_term = *lt;
                        meta.config = peers;
                        n.install_snapshot(meta, &data).map_err(|e| e.to_string())
                    }
                    Err(e) => Err(format!("helper: {e}")),
                }
            };
            match res {
                Ok(()) => "snap:1".into(),
                Err(e) if e.starts_with("helper:") => "err:helper".into(),
                Err(_) => "snap:0".into(),
            }
        }
    }
}

/// a snapshot as some leader could send it, relative to the follower's current log
fn gen_snap(r: &mut Rng, cur: u64, log: &[Ent]) -> Ev {
    let len = log.last().map_or(0, |e| e.0);
    let n = match r.below(20) {
        0 => 0,
        1..=7 if len > 1 => 1 + r.below(len - 1), // local suffix beyond the snapshot index
        8..=10 if len > 0 => len,
        _ => len + 1 + r.below(3),
    };
    let mut ents: Vec<(u64, u64)> = vec![];
    let mut conflict = false;
    let mut prev_t = 0u64;
    for idx in 1..=n {
        let existing = at(log, idx);
        match existing {
            Some(e) if !conflict && e.1 >= prev_t && r.chance(4, 5) => {
                ents.push((e.1, e.2));
                prev_t = e.1;
            }
            _ => {
                conflict = true;
                let t = match r.below(4) {
                    0 => cur + 1,
                    1 => cur.saturating_sub(1),
                    _ => cur,
                }
                .max(prev_t)
                .max(1);
                ents.push((t, gen_cmd(r)));
                prev_t = t;
            }
        }
    }
    let li = match r.below(12) {
        0 => n + 1,
        1 => n.saturating_sub(1),
        _ => n,
    };
    let lt = if r.chance(1, 12) { prev_t + 1 } else { prev_t };
    Ev::Snap { li, lt, ents, streaming: r.chance(1, 2) }
}

/// Scripted histories around one snapshot install (stream `snapshot`).
fn snapshot_script(r: &mut Rng) -> (Vec<Ev>, &'static str) {
    let t0 = 1 + r.below(2);
    let t1 = t0 + 1 + r.below(2);
    let total = 3 + r.below(5);
    let snap = 1 + r.below(total);
    let j = r.below(snap + 1); // the leader's entries 1..j are of term t0, the rest of term t1
    let leader: Vec<(u64, u64)> = (1..=total + 2).map(|i| (if i <= j { t0 } else { t1 }, 100 + i)).collect();
    let term_at = |i: u64| leader[(i - 1) as usize].0;
    let extra = 1 + r.below(2);
    let on_top = leader[snap as usize..(snap + extra) as usize].to_vec();
    let install = Ev::Snap { li: snap, lt: term_at(snap), ents: leader[..snap as usize].to_vec(), streaming: r.chance(1, 2) };
    let ack_on_top = Ev::Ae { t: t1, l: 1, pi: snap, pt: term_at(snap), ents: on_top };
    match r.below(3) {
        0 => {
            // the follower lags behind the snapshot
            let have = r.below(snap);
            let mut v = vec![];
            if have > 0 {
                v.push(Ev::Ae { t: t1, l: 1, pi: 0, pt: 0, ents: leader[..have as usize].to_vec() });
            }
            v.push(install);
            v.push(ack_on_top);
            (v, "gap")
        }
        1 => {
            // the follower already holds the leader's log beyond the snapshot index
            let have = (snap + 1 + r.below(2)).min(total + 2);
            (vec![Ev::Ae { t: t1, l: 1, pi: 0, pt: 0, ents: leader[..have as usize].to_vec() }, install, ack_on_top], "suffix_agrees")
        }
        _ => {
            // entries j+1.. were written by the deposed leader of term t0 and reach beyond the snapshot index
            let have = snap + 1 + r.below(3);
            let local: Vec<(u64, u64)> = (1..=have).map(|i| if i <= j { leader[(i - 1) as usize] } else { (t0, 500 + i) }).collect();
            (vec![Ev::Ae { t: t0, l: 2, pi: 0, pt: 0, ents: local }, install, ack_on_top], "suffix_conflicts")
        }
    }
}

fn gen_event(r: &mut Rng, lv: &Live) -> Ev {
    let n = &lv.node;
    let cur = n.current_term();
    let log = node_log(n);
    let len = log.last().map_or(0, |e| e.0);
    let role = n.state();
    let term_near = |r: &mut Rng| -> u64 {
        match r.below(10) {
            0 => cur.saturating_sub(1),
            1..=4 => cur,
            5..=8 => cur + 1,
            _ => cur + 2 + r.below(3),
        }
    };
    if TRAILING.load(std::sync::atomic::Ordering::Relaxed) < 50 && len >= 2 && r.chance(1, 9) {
        // the snapshot index need not be inside the log (truncate_log does not check)
        let last = log.last().map_or(0, |e| e.0);
        return Ev::Compact { i: r.below(last + 2) };
    }
    if role == RaftState::Candidate && r.chance(2, 5) {
        return Ev::Lead;
    }
    if role == RaftState::Leader && r.chance(2, 5) {
        return Ev::Prop { c: gen_cmd(r) };
    }
    loop {
        match r.below(100) {
            0..=9 => return Ev::Elect,
            10..=29 => {
                let (lli, llt) = log.last().map_or((0, 0), |e| (e.0, e.1));
                let (li, lt) = match r.below(6) {
                    0 => (lli, llt),
                    1 => (lli + 1 + r.below(3), llt),
                    2 => (r.below(lli + 2), llt + 1),
                    3 if lli > 0 => (lli - 1, llt),
                    4 if llt > 0 => (lli + 5, llt - 1),
                    _ => (lli + r.below(2), llt + r.below(2)),
                };
                return Ev::Rv { t: term_near(r), c: 1 + r.below(NPEERS), li, lt };
            }
            30..=35 => {
                // while a candidate: mostly votes of the current term (a quorum makes it leader)
                let t = if role == RaftState::Candidate && r.chance(2, 3) { cur } else { term_near(r) };
                return Ev::Rvr { from: 1 + r.below(NPEERS), t, g: r.chance(2, 3) };
            }
            36..=41 => {
                if !in_pre_vote(n) && r.chance(1, 2) {
                    return Ev::PreStart;
                }
                let t = if in_pre_vote(n) && r.chance(2, 3) { cur } else { term_near(r) };
                return Ev::Pvr { from: 1 + r.below(NPEERS), t, g: r.chance(2, 3) };
            }
            42..=49 => {
                if role == RaftState::Candidate || r.chance(1, 8) {
                    return Ev::Lead;
                }
            }
            50..=84 => {
                let t = term_near(r);
                let pi = match r.below(10) {
                    0 => len + 1 + r.below(2),
                    1..=5 => len,
                    _ => r.below(len + 1),
                };
                let pt = if pi >= 1 && pi <= len {
                    let real = at(&log, pi).map_or(1 + r.below(cur + 1), |e| e.1);
                    if r.chance(1, 8) {
                        real + 1
                    } else {
                        real
                    }
                } else if pi == 0 {
                    0
                } else {
                    r.below(cur + 2)
                };
                let k = match r.below(8) {
                    0 => 0,
                    1..=4 => 1 + r.below(2),
                    _ => 2 + r.below(4),
                };
                let mut ents = vec![];
                let mut conflict_started = false;
                for j in 0..k {
                    let idx = pi + 1 + j;
                    let existing = if idx <= len { at(&log, idx) } else { None };
                    let et = match existing {
                        Some(e) if !conflict_started && r.chance(3, 5) => e.1,
                        _ => {
                            conflict_started = true;
                            if r.chance(1, 6) {
                                t.saturating_sub(1).max(1)
                            } else {
                                t.max(1)
                            }
                        }
                    };
                    let c = match existing {
                        Some(e) if et == e.1 => e.2,
                        _ => gen_cmd(r),
                    };
                    ents.push((et, c));
                }
                return Ev::Ae { t, l: 1 + r.below(NPEERS), pi, pt, ents };
            }
            85..=86 => return Ev::Aer { t: term_near(r) },
            87 => return Ev::TNow { from: 1 + r.below(NPEERS), t: if r.chance(3, 4) { cur } else { term_near(r) }, l: 1 + r.below(NPEERS) },
            88 => return Ev::PreVote { t: term_near(r), c: 1 + r.below(NPEERS), li: r.below(len + 2), lt: r.below(cur + 2) },
            89..=93 => return gen_snap(r, cur, &log),
            _ => {
                if role == RaftState::Leader || r.chance(1, 6) {
                    return Ev::Prop { c: gen_cmd(r) };
                }
            }
        }
    }
}

fn shm_dir() -> tempfile::TempDir {
    if Path::new("/dev/shm").is_dir() {
        tempfile::tempdir_in("/dev/shm").unwrap_or_else(|_| tempfile::tempdir().unwrap())
    } else {
        tempfile::tempdir().unwrap()
    }
}

struct Ctx<'a> {
    m: &'a mut Model,
    rep: &'a mut Report,
    seen: HashSet<Vec<u8>>,
    thorough: bool,
    /// how many more failing handler calls may go through `persist_term_and_vote`'s retry sleeps
    slow_budget: u64,
    /// cut at EVERY byte a snapshot install wrote (also in the quick tier)
    dense_install: bool,
    /// the first crash of the case is a restart from the COMPLETE file (no byte lost)
    restart_whole_first: bool,
    /// scripted events of the phase after the first restart (the rest of that phase is random)
    script_after_restart: Vec<Ev>,
}

/// Files beyond these sizes hold a long record. The real node is restarted on every chosen cut as always
/// (both oracles); the MODEL is asked at fewer of them (its byte lists cost ~0.2 s per MiB and question):
/// above `LARGE_FILE` at the complete file and at the boundaries of the (first two) long records; above
/// `HUGE_FILE` at no cut — the model reads the file's bytes where the case crashes for real (`restart <hex>`,
/// for the directed large cases the complete file first) and every handler call after that compares the
/// restarted real node's whole state with the model's — and the cuts of the ordinary records are thinned to
/// their last byte and their end (all of +-{0,1,3,7}, the byte behind the header and the middle of the
/// payload stay around a long record).
const LARGE_FILE: usize = 48 * 1024;
const HUGE_FILE: usize = 256 * 1024;
/// a record this long counts as a long record
const LONG_RECORD: usize = 32 * 1024;

/// One recorded handler call.
struct Step {
    ev: Ev,
    frames_after: usize,
    bytes_before: usize,
    bytes_after: usize,
    ghost_after: Ghost,
    slot: usize,
    /// what the node had told the world before this handler call started
    ghost_before: Ghost,
    /// its in-memory log at that moment
    log_before: Vec<Ent>,
}

/// May the ORDER carried by `ev` (a leader's AppendEntries or snapshot) remove the acknowledged entry
/// `e` from the log of a node that held `log_before`? Computed from the message and the log the node
/// held when it arrived — never from the WAL records the implementation chose to write, so a record the
/// code has no business writing (a `LogTruncate` in front of a snapshot's entries, say) excuses nothing.
///   snapshot 1..n : an entry beyond n, or one whose index carries another (term, payload) in the snapshot
///   AppendEntries : an entry at or beyond the first sent index at which the node holds another term
///   anything else : nothing
fn order_may_drop(ev: &Ev, log_before: &[Ent], e: &Ent) -> bool {
    match ev {
        Ev::Snap { ents, .. } => {
            if ents.is_empty() {
                return false; // refused: "snapshot contains no entries"
            }
            match ents.get((e.0 as usize).wrapping_sub(1)) {
                Some((t, c)) if e.0 >= 1 => (*t, *c) != (e.1, e.2),
                _ => true,
            }
        }
        Ev::Ae { pi, ents, .. } => {
            let first_conflict = ents.iter().enumerate().find_map(|(k, (t, _))| {
                let idx = pi + 1 + k as u64;
                match at(log_before, idx) {
                    Some(old) if old.1 != *t => Some(idx),
                    _ => None,
                }
            });
            first_conflict.map_or(false, |f| e.0 >= f)
        }
        _ => false,
    }
}

/// Reported by the order-derived oracle (and, for histories without an install, by the record-derived one).
const LOST_ENTRY_CLASS: &str = "tensor_chain.raft_wal.recover/lost_entry";

/// Obligations in force when the file is cut so that `k` whole records survive.
fn obligations_at(steps: &[Step], base_ghost: &Ghost, base_slot: usize, base_frames: usize, k: usize, file: &[u8]) -> (Ghost, usize, Vec<RaftWalEntry>) {
    let mut g = base_ghost.clone();
    let mut slot = base_slot;
    let mut done = base_frames;
    for s in steps {
        if s.frames_after <= k {
            g = s.ghost_after.clone();
            slot = s.slot;
            done = s.frames_after;
        } else {
            break;
        }
    }
    let inflight: Vec<RaftWalEntry> = decode_frames(file, done).into_iter().take(k - done).collect();
    g.shrink(&inflight);
    (g, slot, inflight)
}

fn violation_class(kind: &str, repaired: bool, after_install: bool) -> String {
    if repaired && after_install && kind == "lost_entry" {
        "tensor_chain.raft.install_snapshot/acked_entries_not_durable".to_string()
    } else if repaired {
        format!("tensor_chain.raft_wal.recover/{kind}")
    } else {
        "tensor_chain.raft_wal.open/append_after_torn_tail".to_string()
    }
}

/// A whole case: up to `max_crashes` phases on one WAL file.
/// WAL-failure plan of a case: which scripted events run while every `RaftWal::append` fails, and the
/// per-event chance (percent) for the random ones. `FailCfg::none()` for the crash-only streams.
#[derive(Clone, Default)]
struct FailCfg {
    scripted: Vec<bool>,
    prob: u64,
}
impl FailCfg {
    fn none() -> Self {
        FailCfg::default()
    }
}

/// Fixed by 54033160 (append_leader_entries persists before it changes memory). An acknowledged entry
/// missing after a restart in a history with failed appends is reported under this class.
const WALFAIL_CLASS: &str = "tensor_chain.raft.append_leader_entries/unlogged_entry_acknowledged_after_wal_failure";

/// Would this handler call reach `persist_term_and_vote` (three attempts, 100 + 200 ms of sleep when
/// they fail)? Conservative.
fn is_slow_fail(ev: &Ev, lv: &Live) -> bool {
    let cur = lv.node.current_term();
    match ev {
        Ev::Elect => true,
        Ev::Rv { t, .. } => *t >= cur,
        Ev::Rvr { t, .. } => *t > cur && lv.node.state() == RaftState::Candidate,
        Ev::Pvr { t, g, .. } => in_pre_vote(&lv.node) && (*t > cur || (*g && *t == cur)),
        Ev::TNow { t, .. } => *t == cur,
        Ev::PreStart | Ev::PreVote { .. } | Ev::Compact { .. } => false,
        Ev::Aer { t } => *t > cur && lv.node.state() == RaftState::Leader,
        Ev::Ae { t, .. } => *t > cur,
        Ev::Snap { lt, .. } => *lt > cur,
        Ev::Lead | Ev::Prop { .. } => false,
    }
}

/// an AppendEntries of the node's current term (no term record needed): new entries beyond the log,
/// entries it already holds, or entries conflicting with an older-term suffix
fn gen_ae_same_term(r: &mut Rng, lv: &Live) -> Ev {
    let cur = lv.node.current_term().max(1);
    let log = node_log(&lv.node);
    let len = log.last().map_or(0, |e| e.0);
    let pi = if r.chance(3, 5) { len } else { r.below(len + 1) };
    let pt = if pi >= 1 && pi <= len { at(&log, pi).map_or(0, |e| e.1) } else { 0 };
    let k = r.below(4);
    let mut ents = vec![];
    let mut conflict = false;
    for j in 0..k {
        let idx = pi + 1 + j;
        match at(&log, idx) {
            Some(e) if !conflict && (e.1 == cur || r.chance(1, 2)) => ents.push((e.1, e.2)),
            _ => {
                conflict = true;
                ents.push((cur, gen_cmd(r)));
            }
        }
    }
    Ev::Ae { t: lv.node.current_term(), l: 1 + r.below(NPEERS), pi, pt, ents }
}

fn gen_event_failing(r: &mut Rng, lv: &Live, slow_budget: &mut u64) -> Ev {
    for _ in 0..20 {
        let ev = match r.below(20) {
            0..=9 => gen_ae_same_term(r, lv),
            10..=12 => Ev::Prop { c: gen_cmd(r) },
            13..=14 => gen_snap(r, lv.node.current_term(), &node_log(&lv.node)),
            _ => gen_event(r, lv),
        };
        if !is_slow_fail(&ev, lv) {
            return ev;
        }
        if *slow_budget > 0 {
            *slow_budget -= 1;
            return ev;
        }
    }
    gen_ae_same_term(r, lv)
}

fn run_case(cx: &mut Ctx, r: &mut Rng, case_no: u64, max_crashes: usize, script: Option<Vec<Ev>>, stream: &str, fails: &FailCfg) {
    let t_case = std::time::Instant::now();
    run_case_inner(cx, r, case_no, max_crashes, script, stream, fails);
    if std::env::var("C10_TIMES").is_ok() && t_case.elapsed().as_millis() > 400 {
        eprintln!("  slow case {stream} {case_no}: {:?} size_mode={}", t_case.elapsed(), SIZE_MODE.load(std::sync::atomic::Ordering::Relaxed));
    }
}

fn run_case_inner(cx: &mut Ctx, r: &mut Rng, case_no: u64, max_crashes: usize, script: Option<Vec<Ev>>, stream: &str, fails: &FailCfg) {
    let dir = shm_dir();
    // the WAL lives in its own directory: hiding that directory makes `check_space` (statvfs of the
    // parent) fail, i.e. every `RaftWal::append` returns Err before writing anything
    let wal_dir = dir.path().join("d");
    let wal_dir_hidden = dir.path().join("d_hidden");
    std::fs::create_dir(&wal_dir).unwrap();
    let path: PathBuf = wal_dir.join("raft.wal");
    let mut had_fail = false;
    cx.m.ask("clear");
    cx.m.ask("drop_slots");
    cx.seen.clear();
    cx.m.ask(&format!("node {SELF_ID} {}", TRAILING.load(std::sync::atomic::Ordering::Relaxed)));
    let mut lv = Live { node: mk_node(&path).expect("fresh wal") };
    let mut ghost = Ghost::default();
    let mut base_slot: usize = cx.m.ask("save").parse().unwrap_or(0);
    let mut history: Vec<Value> = vec![];
    // did every reopen so far leave the file equal to its complete-frame prefix?
    let mut all_repaired = true;
    let mut key = String::new();
    let mut state_changes = 0u64;
    let mut after_install = false;
    let mut double_vote_reported = false;

    for phase in 0..=max_crashes {
        let base_bytes = std::fs::read(&path).unwrap_or_default();
        let base_frames = frames(&base_bytes).len();
        let base_len = base_bytes.len();
        let base_ghost = ghost.clone();
        let scripted: Vec<Ev> = if phase == 0 {
            script.clone().unwrap_or_default()
        } else if phase == 1 {
            cx.script_after_restart.clone()
        } else {
            vec![]
        };
        let nev = if cx.restart_whole_first && !scripted.is_empty() {
            // the directed large cases: exactly the scripted history (the failing input stays minimal)
            scripted.len()
        } else if phase == 0 {
            if script.is_some() { scripted.len() + r.below(3) as usize } else { 6 + r.below(14) as usize }
        } else if !scripted.is_empty() {
            scripted.len() + r.below(3) as usize
        } else {
            2 + r.below(7) as usize
        };
        let mut steps: Vec<Step> = vec![];
        for ei in 0..nev {
            let failing = if ei < scripted.len() {
                phase == 0 && fails.scripted.get(ei).copied().unwrap_or(false)
            } else {
                fails.prob > 0 && r.chance(fails.prob, 100)
            };
            let ev = if ei < scripted.len() {
                scripted[ei].clone()
            } else if failing {
                gen_event_failing(r, &lv, &mut cx.slow_budget)
            } else {
                gen_event(r, &lv)
            };
            let before = std::fs::read(&path).unwrap_or_default();
            let nb = frames(&before).len();
            let term_before = lv.node.current_term();
            let role_before = lv.node.state();
            let log_before = node_log(&lv.node);
            let ghost_before = ghost.clone();
            if failing {
                had_fail = true;
                cx.rep.hit(if is_slow_fail(&ev, &lv) { "fail.ev.term_record_path" } else { "fail.ev.log_or_none_path" });
                std::fs::rename(&wal_dir, &wal_dir_hidden).unwrap();
            }
            let reply = apply_real(&mut lv, &ev);
            if failing {
                std::fs::rename(&wal_dir_hidden, &wal_dir).unwrap();
            }
            let after = std::fs::read(&path).unwrap_or_default();
            register(cx.m, &mut cx.seen, &after);
            let new_recs = decode_frames(&after, nb);
            let log = node_log(&lv.node);
            let term = lv.node.current_term();
            // ghost from the node's own answers
            ghost.shrink(&new_recs);
            match &ev {
                Ev::Elect => {
                    // an election that could not persist its record returns without announcing anything
                    if term == term_before + 1 {
                        ghost.acted = ghost.acted.max(term);
                        ghost.votes.insert((term, SELF_ID));
                    }
                }
                Ev::Rv { c, .. } => {
                    let p: Vec<&str> = reply.split(':').collect();
                    if p.len() == 3 {
                        let rt: u64 = p[1].parse().unwrap_or(0);
                        ghost.acted = ghost.acted.max(rt);
                        if p[2] == "1" {
                            ghost.votes.insert((rt, *c));
                        }
                    }
                }
                Ev::Ae { .. } => {
                    let p: Vec<&str> = reply.split(':').collect();
                    if p.len() == 4 {
                        let rt: u64 = p[1].parse().unwrap_or(0);
                        ghost.acted = ghost.acted.max(rt);
                        if p[2] == "1" {
                            let mi: u64 = p[3].parse().unwrap_or(0);
                            for e in log.iter().filter(|e| e.0 <= mi) {
                                ghost.acked.insert(*e);
                            }
                        }
                    }
                }
                Ev::Prop { .. } => {
                    if let Some(i) = reply.strip_prefix("proposed:") {
                        let i: u64 = i.parse().unwrap_or(0);
                        ghost.acted = ghost.acted.max(term);
                        // the accepted entry is the one just pushed (after a WAL failure left a hole in the
                        // recovered log, an older entry may carry the same index)
                        if let Some(e) = log.iter().rev().find(|e| e.0 == i) {
                            ghost.acked.insert(*e);
                        }
                    }
                }
                Ev::Rvr { .. } | Ev::Pvr { .. } | Ev::Aer { .. } | Ev::TNow { .. } => {
                    if term != term_before {
                        ghost.acted = ghost.acted.max(term);
                    }
                    // a quorum of pre-votes / a TimeoutNow starts an election: vote for itself
                    if term == term_before + 1
                        && new_recs.iter().any(|x| matches!(x, RaftWalEntry::TermAndVote { term: rt, voted_for: Some(v) } if *rt == term && *v == nid(SELF_ID)))
                        && lv.node.state() == RaftState::Candidate
                    {
                        ghost.votes.insert((term, SELF_ID));
                        cx.rep.hit(if matches!(ev, Ev::TNow { .. }) { "branch.election_by_timeout_now" } else { "branch.election_by_prevote_quorum" });
                    }
                    if matches!(ev, Ev::Rvr { .. }) && role_before == RaftState::Candidate && lv.node.state() == RaftState::Leader {
                        cx.rep.hit("branch.leader_by_vote_quorum");
                    }
                }
                Ev::PreVote { .. } => {
                    if let Some(rt) = reply.strip_prefix("prevote:") {
                        ghost.acted = ghost.acted.max(rt.parse().unwrap_or(0));
                    }
                }
                Ev::Lead | Ev::PreStart => {}
                Ev::Compact { .. } => {
                    if log.len() < log_before.len() {
                        cx.rep.hit("branch.compaction_drained");
                    }
                }
                Ev::Snap { li, lt, ents, streaming } => {
                    let n = ents.len() as u64;
                    if reply == "snap:1" {
                        after_install = true;
                        ghost.acted = ghost.acted.max(term);
                        for e in &log {
                            ghost.acked.insert(*e);
                        }
                        cx.rep.hit(if *streaming { "snapshot.path.streaming" } else { "snapshot.path.bytes" });
                        if (n as usize) < log_before.len() {
                            cx.rep.hit("snapshot.local_suffix_beyond");
                        }
                        if log_before.len() < n as usize {
                            cx.rep.hit("snapshot.fills_gap");
                        }
                        let conflicts = log_before.iter().zip(log.iter()).any(|(a, b)| a != b);
                        if conflicts {
                            cx.rep.hit("snapshot.conflicts_local");
                            if (n as usize) < log_before.len() {
                                cx.rep.hit("snapshot.conflicts_local_with_suffix_beyond");
                            }
                        }
                        if new_recs.iter().any(|x| matches!(x, RaftWalEntry::TermAndVote { .. })) {
                            cx.rep.hit("snapshot.higher_term");
                        }
                        if lv.node.state() != RaftState::Follower {
                            cx.rep.hit("snapshot.on_non_follower");
                        }
                    } else if reply == "snap:0" {
                        let well_formed = n > 0 && *li == n && ents.last().map(|x| x.0) == Some(*lt);
                        cx.rep.hit(if well_formed { "snapshot.rejected_stale" } else { "snapshot.rejected_invalid" });
                    }
                }
            }
            // the consequence the property names, on the node's own answers: never two candidates in one term
            // (across any number of restarts: the ghost carries over what was announced before a crash)
            if !double_vote_reported {
                let mut prev: Option<(u64, u64)> = None;
                for v in &ghost.votes {
                    if let Some(p) = prev {
                        if p.0 == v.0 && p.1 != v.1 {
                            double_vote_reported = true;
                            let mut h = history.clone();
                            h.push(json!({"phase": phase, "ev": ev.line(), "reply": reply}));
                            cx.rep.violation(
                                "tensor_chain.raft.vote/two_candidates_in_one_term",
                                &format!("the node announced its vote of term {} for n{} and for n{}", v.0, p.1, v.1),
                                json!({"case": case_no, "history": h, "votes_announced": ghost.tok()}),
                            );
                            break;
                        }
                    }
                    prev = Some(*v);
                }
            }
            let (voted_now, extra_now) = dump_fields(&lv.node);
            let imp = format!(
                "recs={} reply={} state={}/{}/{}/{} {} {}",
                list_or_dash(&new_recs.iter().map(rec_tok).collect::<Vec<_>>()),
                reply,
                term,
                voted_now,
                role_tok(&lv.node),
                log_tok(&log),
                extra_now,
                base_tok(&log)
            );
            let line = if failing { ev.line().replacen("ev ", "evf ", 1) } else { ev.line() };
            let mo = cx.m.ask(&line);
            if failing {
                cx.rep.hit(&format!("fail.{}", ev.tag()));
                if after.len() != before.len() {
                    cx.rep.disagree("fail.wrote", json!({"history": history, "ev": line}), "the WAL file changed during a handler whose appends must all fail", "unchanged file");
                }
                if !matches!(ev, Ev::Compact { .. }) && (log.len() != log_before.len() || log.iter().zip(log_before.iter()).any(|(a, b)| a != b)) {
                    // what append_leader_entries did before fix 54033160
                    cx.rep.violation(
                        WALFAIL_CLASS,
                        "the in-memory log changed during a handler whose WAL appends all failed",
                        json!({"case": case_no, "history": history, "ev": line, "log_before": log_tok(&log_before), "log_after": log_tok(&log)}),
                    );
                }
            }
            // votedFor and the volatile election state are read through the verification hook here, and
            // probed through RequestVote at restarts
            let mo_cmp = mo.clone();
            history.push(if failing { json!({"phase": phase, "ev": line, "impl": imp, "wal_appends_fail": true}) } else { json!({"phase": phase, "ev": line, "impl": imp}) });
            let h = history.clone();
            cx.rep.compare("node.step", || json!({"history": h}), &imp, &mo_cmp);
            let mg = cx.m.ask("ghost");
            let h = history.clone();
            cx.rep.compare("node.ghost", || json!({"history": h}), &ghost.tok(), &mg);
            let slot: usize = cx.m.ask("save").parse().unwrap_or(0);
            cx.rep.hit(&format!("ev.{}", ev.tag()));
            for nr in &new_recs {
                state_changes += 1;
                cx.rep.hit(&format!("rec.{}", rec_kind(nr)));
            }
            if new_recs.iter().any(|x| matches!(x, RaftWalEntry::LogTruncate { .. })) {
                cx.rep.hit("branch.conflict_truncate");
            }
            if reply.starts_with("snap:") || reply.starts_with("err:") {
                cx.rep.hit(&format!("reply.{}", reply.split(' ').next().unwrap_or("")));
            } else {
                cx.rep.hit(&format!("reply.{}", reply.split(':').take(3).enumerate().filter(|(i, _)| *i != 1).map(|(_, s)| s).collect::<Vec<_>>().join(":")));
            }
            key.push_str(&line);
            key.push(';');
            steps.push(Step { ev, frames_after: frames(&after).len(), bytes_before: before.len(), bytes_after: after.len(), ghost_after: ghost.clone(), slot, ghost_before, log_before });
        }

        // ------------------------------------------------ cuts of this phase's file
        let file = std::fs::read(&path).unwrap_or_default();
        let fr = frames(&file);
        let mut cuts: BTreeSet<usize> = BTreeSet::new();
        let large = file.len() > LARGE_FILE;
        let huge = file.len() > HUGE_FILE;
        let long_recs: Vec<(usize, usize)> = fr.iter().skip(base_frames).filter(|(s, e)| e - s > LONG_RECORD).copied().collect();
        if !long_recs.is_empty() {
            cx.rep.hit("phase.wrote_long_record");
            if long_recs.iter().any(|(_, e)| fr.iter().any(|(s2, _)| s2 >= e)) {
                cx.rep.hit("phase.records_behind_long_record");
            }
        } else if fr.iter().take(base_frames).any(|(s, e)| e - s > LONG_RECORD) && fr.len() > base_frames {
            cx.rep.hit("phase.records_behind_long_record_of_earlier_phase");
        }
        // (thorough: every byte of a phase of ordinary size; a phase that wrote KiB-sized or longer records is
        // cut like a quick one, with more random cuts)
        if cx.thorough && file.len() - base_len <= 6 * 1024 {
            for n in base_len..=file.len() {
                cuts.insert(n);
            }
        } else {
            let all_d: [i64; 7] = [0, 1, 3, 7, -1, -3, -7];
            for (s, e) in fr.iter().skip(base_frames) {
                let long = e - s > LONG_RECORD;
                for d in all_d {
                    for b in [*s as i64, *e as i64] {
                        // a huge file: an ordinary record's end and the byte before it
                        if huge && !long && !(b == *e as i64 && (d == 0 || d == -1)) {
                            continue;
                        }
                        let n = b + d;
                        if n >= base_len as i64 && n <= file.len() as i64 {
                            cuts.insert(n as usize);
                        }
                    }
                }
                if long {
                    // just behind the header, and in the middle of the payload
                    for n in [s + 8, s + 9, s + (e - s) / 2] {
                        if n >= base_len && n <= file.len() {
                            cuts.insert(n);
                        }
                    }
                }
            }
            for _ in 0..(if cx.thorough { 24 } else { 6 }) {
                if file.len() > base_len {
                    cuts.insert(base_len + r.below((file.len() - base_len + 1) as u64) as usize);
                }
            }
            cuts.insert(file.len());
        }
        // every byte a snapshot install wrote; the bytes that are not among the cuts chosen above are judged
        // on the restarted real node alone (both oracles; no model question: the framing around each record
        // boundary is compared with the model at the cuts above)
        let mut real_only: BTreeSet<usize> = BTreeSet::new();
        if cx.dense_install {
            for st in steps.iter().filter(|st| matches!(st.ev, Ev::Snap { .. })) {
                for n in st.bytes_before.max(base_len)..=st.bytes_after.min(file.len()) {
                    if cuts.insert(n) {
                        real_only.insert(n);
                    }
                }
            }
        }
        if large {
            // which cuts the model is asked about (see LARGE_FILE)
            let mut ask: BTreeSet<usize> = BTreeSet::new();
            if !huge {
                ask.insert(file.len());
                for (s, e) in long_recs.iter().take(2) {
                    ask.insert(*s);
                    ask.insert(*e);
                }
            }
            for n in &cuts {
                if !ask.contains(n) {
                    real_only.insert(*n);
                }
            }
            cx.rep.hit(if huge { "cuts.huge_file" } else { "cuts.large_file" });
        }
        let cuts: Vec<usize> = cuts.into_iter().collect();
        // cuts that fall inside the records of a snapshot install (first record begun, last not complete)
        let mid_install: Vec<usize> = cuts
            .iter()
            .copied()
            .filter(|n| steps.iter().any(|s| matches!(s.ev, Ev::Snap { .. }) && s.bytes_before < *n && *n < s.bytes_after))
            .collect();
        let chosen = if phase == 0 && cx.restart_whole_first && phase < max_crashes {
            cx.rep.hit("chain.restart_on_complete_file");
            Some(file.len())
        } else if phase < max_crashes && !cuts.is_empty() {
            // prefer a cut that tears a record
            let torn: Vec<usize> = cuts.iter().copied().filter(|n| !fr.iter().any(|(_, e)| e == n) && *n != base_len).collect();
            if !mid_install.is_empty() && r.chance(if script.is_some() { 2 } else { 1 }, 3) {
                cx.rep.hit("chain.crash_mid_install");
                Some(*r.pick(&mid_install))
            } else if !torn.is_empty() && r.chance(4, 5) {
                Some(*r.pick(&torn))
            } else {
                Some(*r.pick(&cuts))
            }
        } else {
            None
        };
        for &n in &cuts {
            let cutb = &file[..n];
            let k = frames(cutb).len();
            let (obl, _slot, inflight) = obligations_at(&steps, &base_ghost, base_slot, base_frames, k, &file);
            let torn = fr.iter().all(|(_, e)| *e != n) && n != 0;
            cx.rep.hit(if torn { "cut.torn" } else { "cut.boundary" });
            if !inflight.is_empty() {
                cx.rep.hit("cut.inflight_records");
            }
            if mid_install.contains(&n) {
                cx.rep.hit("cut.mid_snapshot_install");
                if cx.dense_install {
                    cx.rep.hit("cut.mid_snapshot_install.every_byte");
                }
                if inflight.iter().any(|x| matches!(x, RaftWalEntry::LogEntryFull { .. })) {
                    cx.rep.hit("cut.mid_snapshot_install.some_entries_durable");
                }
            }
            let light = real_only.contains(&n);
            // (a) WAL level: open + from_wal vs model
            let p1 = dir.path().join("cut_a.wal");
            let repaired = if light {
                cx.rep.hit("cut.real_node_only");
                true
            } else {
                std::fs::write(&p1, cutb).unwrap();
                let imp = real_recover(&p1);
                let len_after_open = std::fs::metadata(&p1).map(|m| m.len()).unwrap_or(0);
                let mo = cx.m.ask(&format!("recover {}", hex(cutb)));
                let mv = cx.m.ask(&format!("valid_len {}", hex(cutb)));
                let hist = history.clone();
                cx.rep.compare("cut.recover", || json!({"history": hist, "cut": n, "file_len": file.len()}), &imp, &mo);
                let hist = history.clone();
                cx.rep.compare("cut.open_repair", || json!({"history": hist, "cut": n, "file_len": file.len(), "what": "file length after RaftWal::open vs complete-frame prefix"}), &len_after_open.to_string(), &mv);
                len_after_open.to_string() == mv
            };
            // (b) node level: restart, observe, oracle
            let p2 = dir.path().join("cut_b.wal");
            std::fs::write(&p2, cutb).unwrap();
            let p3 = dir.path().join("cut_c.wal");
            // the throw-away copy for the vote probes is not needed when no vote is owed and nothing is
            // compared with the model
            let need_probe = !light || !obl.votes.is_empty();
            // at a real-node-only cut the probes go to the restarted node itself, after its term, log and
            // volatile state were read (the probes change nothing that is read afterwards)
            let own_probe = light && need_probe;
            if need_probe && !own_probe {
                std::fs::write(&p3, cutb).unwrap();
            }
            let rnode = mk_node(&p2);
            let pnode = if need_probe && !own_probe { mk_node(&p3) } else { mk_node(&dir.path().join("cut_unused.wal")) };
            // model restart on the same bytes (state restored afterwards)
            let mo_node = if light {
                String::new()
            } else {
                let keep: usize = cx.m.ask("save").parse().unwrap_or(0);
                let mo_node = cx.m.ask(&format!("restart {SELF_ID} {}", hex(cutb)));
                cx.m.ask(&format!("load {keep}"));
                mo_node
            };
            match (rnode, pnode) {
                (Ok(rn), Ok(pn)) => {
                    let term = rn.current_term();
                    let log = node_log(&rn);
                    let (role_rn, dump_rn) = (role_tok(&rn), dump_fields(&rn).1);
                    let voted = if own_probe {
                        probe_voted(&rn)
                    } else if need_probe {
                        probe_voted(&pn)
                    } else {
                        "not-probed".to_string()
                    };
                    let imp_node = format!("{}/{}/{}/{} {} {}", term, voted, role_rn, log_tok(&log), dump_rn, base_tok(&log));
                    if !light {
                        let hist = history.clone();
                        cx.rep.compare("cut.restart", || json!({"history": hist, "cut": n}), &imp_node, &mo_node);
                    }
                    // Order-derived oracle (independent of the model AND of the records the implementation
                    // wrote): the handler call this cut falls into was carrying out some order; every entry
                    // acknowledged BEFORE that call which the order itself does not replace or drop must be
                    // in the restarted node's log, wherever inside the call's WAL writes the crash hit.
                    if let Some(st) = steps.iter().find(|st| st.bytes_before < n && n <= st.bytes_after) {
                        cx.rep.hit("oracle.order_derived.evaluated");
                        let inside_install = matches!(st.ev, Ev::Snap { .. }) && n < st.bytes_after;
                        if inside_install {
                            cx.rep.hit("oracle.order_derived.inside_install");
                        }
                        let owed: Vec<Ent> = st.ghost_before.acked.iter().copied().filter(|e| !order_may_drop(&st.ev, &st.log_before, e)).collect();
                        if inside_install && !owed.is_empty() {
                            cx.rep.hit("oracle.order_derived.inside_install_with_acked_entries");
                        }
                        let lost: Vec<Ent> = owed.iter().copied().filter(|e| !log.contains(e)).collect();
                        if !lost.is_empty() {
                            cx.rep.violation(
                                LOST_ENTRY_CLASS,
                                &format!(
                                    "entries {} acknowledged before `{}` and not replaced or dropped by that order are missing after a restart from a crash {} bytes into the {} bytes the call wrote",
                                    log_tok(&lost), st.ev.line(), n - st.bytes_before, st.bytes_after - st.bytes_before
                                ),
                                json!({"case": case_no, "phase": phase, "history": history, "in_flight": st.ev.line(), "cut": n,
                                       "call_wrote_bytes": [st.bytes_before, st.bytes_after], "file_len": file.len(),
                                       "acknowledged_before_the_call": log_tok(&st.ghost_before.acked.iter().copied().collect::<Vec<_>>()),
                                       "owed_whatever_the_call_writes": log_tok(&owed), "lost": log_tok(&lost),
                                       "records_on_disk_from_the_call": inflight.iter().map(rec_tok).collect::<Vec<_>>(),
                                       "restarted": imp_node}),
                            );
                        }
                    }
                    for (kind, detail) in obl.check(term, &voted, &log) {
                        let input = json!({"case": case_no, "phase": phase, "history": history, "cut": n, "file_len": file.len(),
                                   "obligations": obl.tok(), "restarted": imp_node});
                        if had_fail && kind == "lost_entry" {
                            // an entry held in memory but never logged was acknowledged after a failed append
                            cx.rep.violation(WALFAIL_CLASS, &detail, input);
                        } else {
                            cx.rep.violation(&violation_class(kind, all_repaired && repaired, after_install), &detail, input);
                        }
                    }
                }
                (Err(e), _) | (_, Err(e)) => {
                    // a node that cannot restart has forgotten everything it promised
                    let nonempty = obl.acted > 0 || !obl.votes.is_empty() || !obl.acked.is_empty();
                    if !light {
                        let hist = history.clone();
                        cx.rep.compare("cut.restart", || json!({"history": hist, "cut": n}), &format!("err {}", err_class(&e)), &mo_node);
                    }
                    if nonempty {
                        cx.rep.violation(
                            &violation_class("restart_fails", all_repaired && repaired, after_install),
                            &format!("RaftNode::with_wal fails on the crashed log: {e}"),
                            json!({"case": case_no, "phase": phase, "history": history, "cut": n, "file_len": file.len(), "obligations": obl.tok()}),
                        );
                    }
                }
            }
            cx.rep.case("cut", Some(&format!("{key}|{phase}|{n}")));
        }

        // ------------------------------------------------ crash for real and continue
        let Some(n) = chosen else { break };
        let cutb = file[..n].to_vec();
        let k = frames(&cutb).len();
        let (obl, slot, inflight) = obligations_at(&steps, &base_ghost, base_slot, base_frames, k, &file);
        let ph = dir.path().join(format!("placeholder{phase}.wal"));
        let old = std::mem::replace(&mut lv.node, mk_node(&ph).expect("placeholder"));
        drop(old);
        std::fs::write(&path, &cutb).unwrap();
        history.push(json!({"phase": phase, "crash_at_byte": n, "file_len": file.len(), "whole_records": k}));
        match mk_node(&path) {
            Ok(nn) => {
                lv = Live { node: nn };
            }
            Err(e) => {
                let nonempty = obl.acted > 0 || !obl.votes.is_empty() || !obl.acked.is_empty();
                if nonempty {
                    cx.rep.violation(
                        &violation_class("restart_fails", false, after_install),
                        &format!("RaftNode::with_wal fails on the crashed log: {e}"),
                        json!({"case": case_no, "phase": phase, "history": history, "obligations": obl.tok()}),
                    );
                }
                break;
            }
        }
        let len_after = std::fs::metadata(&path).map(|m| m.len()).unwrap_or(0) as usize;
        let valid: usize = frames(&cutb).last().map_or(0, |x| x.1);
        if len_after != valid {
            all_repaired = false;
        }
        // model: back to the last completed handler, apply the in-flight records, restart
        cx.m.ask(&format!("load {slot}"));
        let toks: Vec<String> = inflight.iter().map(rec_tok).collect();
        cx.m.ask(&format!("shrink {}", if toks.is_empty() { "-".to_string() } else { toks.join(" ") }));
        cx.m.ask(&format!("restart {SELF_ID} {}", hex(&cutb)));
        ghost = obl;
        let mg = cx.m.ask("ghost");
        let hist = history.clone();
        cx.rep.compare("node.ghost", || json!({"history": hist, "at": "restart"}), &ghost.tok(), &mg);
        base_slot = cx.m.ask("save").parse().unwrap_or(0);
        cx.rep.hit(&format!("chain.crash{}", phase + 1));
        if n != valid {
            cx.rep.hit("chain.crash_torn_tail");
        }
    }
    cx.rep.case(stream, if state_changes > 0 { Some(&key) } else { None });
    if cx.rep.samples.len() < 4 || (stream == "snapshot" && cx.rep.samples.len() < 6) {
        cx.rep.sample(json!({"stream": stream, "history": history.iter().take(12).collect::<Vec<_>>()}));
    }
}

fn rec_kind(e: &RaftWalEntry) -> &'static str {
    match e {
        RaftWalEntry::TermChange { .. } => "TermChange",
        RaftWalEntry::VoteCast { .. } => "VoteCast",
        RaftWalEntry::TermAndVote { .. } => "TermAndVote",
        RaftWalEntry::LogAppend { .. } => "LogAppend",
        RaftWalEntry::LogTruncate { .. } => "LogTruncate",
        RaftWalEntry::SnapshotTaken { .. } => "SnapshotTaken",
        RaftWalEntry::LogEntryFull { .. } => "LogEntryFull",
        _ => "other",
    }
}

// ---------------------------------------------------------------- raw record lists

fn gen_raw(r: &mut Rng, term_hi: u64) -> RaftWalEntry {
    let t = r.below(term_hi + 1);
    match r.below(12) {
        0 => RaftWalEntry::TermChange { new_term: t },
        1 | 2 => RaftWalEntry::VoteCast { term: t, candidate_id: nid(r.below(4)) },
        3..=5 => RaftWalEntry::TermAndVote {
            term: t,
            voted_for: if r.chance(2, 3) { Some(nid(r.below(4))) } else { None },
        },
        6 => RaftWalEntry::LogAppend { index: r.below(9), term: t, command_hash: [r.below(256) as u8; 32] },
        7 => RaftWalEntry::LogTruncate { from_index: r.below(9) },
        8 => RaftWalEntry::SnapshotTaken { last_included_index: r.below(9), last_included_term: r.below(term_hi + 2) },
        _ => {
            let idx = 1 + r.below(8);
            let data = if r.chance(5, 6) {
                bitcode::serialize(&LogEntry::new(t, idx, mk_block(r.below(50)))).unwrap()
            } else {
                let n = r.below(12) as usize;
                r.bytes(n)
            };
            RaftWalEntry::LogEntryFull { index: idx, term: t, entry_data: data }
        }
    }
}

/// `long`: (size class, position in percent) of one `LogEntryFull` with a large block put among the records
fn run_raw(cx: &mut Ctx, r: &mut Rng, case_no: u64, long: Option<(u64, u64)>) {
    let dir = shm_dir();
    let path = dir.path().join("w.wal");
    cx.m.ask("clear");
    cx.seen.clear();
    let n = 1 + r.below(14) as usize;
    let hi = 1 + r.below(5);
    let mut ents: Vec<RaftWalEntry> = (0..n).map(|_| gen_raw(r, hi)).collect();
    if let Some((class, pos)) = long {
        let idx = 1 + pos % 8;
        let e = LogEntry::new(hi, idx, mk_block(big(class, pos)));
        let at = (pos as usize * (ents.len() + 1)) / 100;
        ents.insert(at.min(ents.len()), RaftWalEntry::LogEntryFull { index: idx, term: hi, entry_data: bitcode::serialize(&e).unwrap() });
        cx.rep.hit(&format!("raw.long_record.class{class}"));
    }
    let toks: Vec<String> = ents.iter().map(rec_tok).collect();
    for e in &ents {
        cx.rep.hit(&format!("raw.rec.{}", rec_kind(e)));
    }
    // from_entries
    let imp = rstate_tok(&RaftRecoveryState::from_entries(&ents));
    let mo = cx.m.ask(&format!("entries {}", toks.join(" ")));
    cx.rep.compare("raw.from_entries", || json!({"entries": toks}), &imp, &mo);
    // write through the real WAL
    {
        let mut w = RaftWal::open(&path).unwrap();
        for e in &ents {
            w.append(e).unwrap();
        }
    }
    let file = std::fs::read(&path).unwrap();
    register(cx.m, &mut cx.seen, &file);
    // framing: the model's record bytes for every payload
    let mut model_file = vec![];
    for (s, e) in frames(&file) {
        model_file.extend_from_slice(&unhex(&cx.m.ask(&format!("frame {}", hex(&file[s + 8..e])))));
    }
    cx.rep.compare("raw.framing", || json!({"entries": toks}), &hex(&file), &hex(&model_file));
    let fr = frames(&file);
    // cuts
    let mut cuts: BTreeSet<usize> = BTreeSet::new();
    for (s, e) in &fr {
        for d in [0i64, 1, 3, 7, -1, -3] {
            for b in [*s as i64, *e as i64] {
                let x = b + d;
                if x >= 0 && x <= file.len() as i64 {
                    cuts.insert(x as usize);
                }
            }
        }
    }
    for _ in 0..4 {
        cuts.insert(r.below(file.len() as u64 + 1) as usize);
    }
    let cuts: Vec<usize> = cuts.into_iter().collect();
    for &c in &cuts {
        let cutb = &file[..c];
        let p = dir.path().join("c.wal");
        std::fs::write(&p, cutb).unwrap();
        let imp = real_recover(&p);
        let mo = cx.m.ask(&format!("recover {}", hex(cutb)));
        cx.rep.compare("raw.cut_recover", || json!({"entries": toks, "cut": c}), &imp, &mo);
        // the WAL-level statement: exactly the records wholly before the cut
        let k = frames(cutb).len();
        let want = format!("ok n={} {}", k, rstate_tok(&RaftRecoveryState::from_entries(&ents[..k])));
        if imp != want {
            cx.rep.violation(
                "tensor_chain.raft_wal.replay/not_whole_record_prefix",
                "replay of a cut log is not the records wholly before the cut",
                json!({"case": case_no, "entries": toks, "cut": c, "got": imp, "want": want}),
            );
        }
        cx.rep.case("raw.cut", Some(&format!("{}|{c}", toks.join(" "))));
    }
    // reopen a cut file, append more, replay (the torn-tail step of the crash chain)
    for _ in 0..3 {
        let c = *r.pick(&cuts);
        let cutb = &file[..c];
        let p = dir.path().join("r.wal");
        std::fs::write(&p, cutb).unwrap();
        let more: Vec<RaftWalEntry> = (0..1 + r.below(3)).map(|_| gen_raw(r, hi + 1)).collect();
        let res = RaftWal::open(&p).and_then(|mut w| {
            for e in &more {
                w.append(e)?;
            }
            w.replay()
        });
        let after = std::fs::read(&p).unwrap_or_default();
        register(cx.m, &mut cx.seen, &after);
        let k = frames(cutb).len();
        let mut expect: Vec<RaftWalEntry> = ents[..k].to_vec();
        expect.extend(more.iter().cloned());
        let want = format!("ok n={} {}", expect.len(), rstate_tok(&RaftRecoveryState::from_entries(&expect)));
        let imp = match &res {
            Ok(es) => format!("ok n={} {}", es.len(), rstate_tok(&RaftRecoveryState::from_entries(es))),
            Err(e) => format!("err {}", err_class(&e)),
        };
        let mo = cx.m.ask(&format!("recover {}", hex(&after)));
        let more_toks: Vec<String> = more.iter().map(rec_tok).collect();
        cx.rep.compare("raw.reopen_append", || json!({"entries": toks, "cut": c, "appended": more_toks}), &imp, &mo);
        let torn = c != frames(cutb).last().map_or(0, |x| x.1);
        cx.rep.hit(if torn { "raw.reopen.torn" } else { "raw.reopen.clean" });
        if imp != want {
            cx.rep.violation(
                "tensor_chain.raft_wal.open/append_after_torn_tail",
                "records appended after reopening a crashed log are lost or make the log unreadable",
                json!({"case": case_no, "entries": toks, "cut": c, "appended": more_toks, "got": imp, "want": want}),
            );
        }
        cx.rep.case("raw.reopen", Some(&format!("{}|{c}|{}", toks.join(" "), more_toks.join(" "))));
    }
    // bit flips: checksum error / undecodable / reframing must be judged alike
    for _ in 0..4 {
        if file.is_empty() {
            break;
        }
        let mut b = file.clone();
        let pos = r.below(b.len() as u64 * 8) as usize;
        b[pos / 8] ^= 1 << (pos % 8);
        if r.chance(1, 3) {
            let c = r.below(b.len() as u64 + 1) as usize;
            b.truncate(c);
        }
        let p = dir.path().join("f.wal");
        std::fs::write(&p, &b).unwrap();
        register(cx.m, &mut cx.seen, &b);
        let imp = real_recover(&p);
        let mo = cx.m.ask(&format!("recover {}", hex(&b)));
        cx.rep.compare("raw.bitflip", || json!({"entries": toks, "bit": pos, "len": b.len()}), &imp, &mo);
        cx.rep.hit(if imp.starts_with("err") { "raw.flip.error" } else { "raw.flip.ok" });
        cx.rep.case("raw.flip", None);
    }
    // crc
    let blen = r.below(40) as usize;
    let blob = r.bytes(blen);
    cx.rep.compare("raw.crc", || json!({"bytes": hex(&blob)}), &crc32fast::hash(&blob).to_string(), &cx.m.ask(&format!("crc {}", hex(&blob))));
}


// ---------------------------------------------------------------- snapshot install on a WAL-backed follower

fn prime_leader(n: &RaftNode) {
    for k in [2u64, 3u64] {
        let r = AppendEntriesResponse {
            term: n.current_term(),
            success: true,
            follower_id: nid(k),
            match_index: 0,
            used_fast_path: false,
        };
        n.handle_message(&nid(k), &Message::AppendEntriesResponse(r));
    }
}

/// `propose_codebook_replace` (outside C10's listed operations): is the accepted entry logged?
fn probe_codebook(cx: &mut Ctx) {
    let dir = shm_dir();
    let path = dir.path().join("c.wal");
    let n = mk_node(&path).expect("node");
    n.start_election();
    n.become_leader();
    prime_leader(&n);
    let snap = n.global_codebook().to_snapshot(1);
    let res = n.propose_codebook_replace(snap);
    let before = n.log_length();
    drop(n);
    if let (Ok(idx), Ok(rn)) = (res, mk_node(&path)) {
        let after = rn.log_length();
        cx.rep.observe(json!({"probe": "propose_codebook_replace on a WAL-backed leader", "accepted_index": idx,
            "log_len_before_crash": before, "log_len_after_restart": after,
            "note": if after < before { "entry accepted as leader is NOT written to the WAL (no persist_log_entry call); outside C10's listed operations" } else { "entry survives restart" }}));
    }
}


// ---------------------------------------------------------------- WAL append failures

/// directed histories: (event, does every WAL append fail during it?)
fn fail_scripts() -> Vec<(Vec<Ev>, Vec<bool>)> {
    let ae = |t: u64, l: u64, pi: u64, pt: u64, ents: &[(u64, u64)]| Ev::Ae { t, l, pi, pt, ents: ents.to_vec() };
    let snap = |li: u64, lt: u64, ents: &[(u64, u64)], streaming: bool| Ev::Snap { li, lt, ents: ents.to_vec(), streaming };
    let raw: Vec<Vec<(Ev, bool)>> = vec![
        // a new entry stays in memory after its append failed; the leader's retry acknowledges it unlogged
        vec![(ae(1, 2, 0, 0, &[(1, 11)]), false), (ae(1, 2, 1, 1, &[(1, 12)]), true), (ae(1, 2, 1, 1, &[(1, 12)]), false)],
        // conflict: LogTruncate result ignored, memory overwritten, LogEntryFull fails; retry acknowledges
        vec![
            (ae(1, 2, 0, 0, &[(1, 11), (1, 12)]), false),
            (ae(2, 3, 0, 0, &[]), false),
            (ae(2, 3, 1, 1, &[(2, 22)]), true),
            (ae(2, 3, 1, 1, &[(2, 22)]), false),
        ],
        // election and proposal
        vec![(Ev::Elect, true), (Ev::Elect, false), (Ev::Lead, false), (Ev::Prop { c: 31 }, true), (Ev::Prop { c: 32 }, false)],
        // vote request of a higher term: answered with the old term, nothing granted; then granted; then refused
        vec![
            (Ev::Rv { t: 3, c: 2, li: 0, lt: 0 }, true),
            (Ev::Rv { t: 3, c: 2, li: 0, lt: 0 }, false),
            (Ev::Rv { t: 3, c: 3, li: 0, lt: 0 }, false),
        ],
        // snapshot install
        vec![
            (ae(1, 2, 0, 0, &[(1, 11)]), false),
            (snap(2, 1, &[(1, 11), (1, 12)], false), true),
            (snap(2, 1, &[(1, 11), (1, 12)], true), false),
        ],
        // the unlogged entry under a later leader term of the node itself: WAL log with a hole
        vec![
            (ae(1, 2, 0, 0, &[(1, 11)]), false),
            (ae(1, 2, 1, 1, &[(1, 12)]), true),
            (Ev::Elect, false),
            (Ev::Lead, false),
            (Ev::Prop { c: 33 }, false),
        ],
        // candidate sees a higher term while the WAL fails: stays candidate in its term
        vec![(Ev::Elect, false), (Ev::Rvr { from: 1, t: 7, g: false }, true), (Ev::Rvr { from: 1, t: 7, g: false }, false)],
        // a quorum of pre-votes while the WAL fails: pre-vote phase over, no election, term unchanged;
        // votes counted and leadership taken without the WAL
        vec![
            (Ev::PreStart, false),
            (Ev::Pvr { from: 1, t: 0, g: true }, true),
            (Ev::Pvr { from: 2, t: 0, g: true }, true),
            (Ev::PreStart, false),
            (Ev::Pvr { from: 1, t: 0, g: true }, false),
            (Ev::Pvr { from: 2, t: 0, g: true }, false),
            (Ev::Rvr { from: 1, t: 1, g: true }, true),
            (Ev::Rvr { from: 2, t: 1, g: true }, true),
        ],
        // leadership transfer while the WAL fails
        vec![(ae(1, 2, 0, 0, &[]), false), (Ev::TNow { from: 2, t: 1, l: 2 }, true), (Ev::TNow { from: 2, t: 1, l: 2 }, false)],
        // heartbeat / duplicate while the WAL fails: nothing to write, ordinary success
        vec![(ae(1, 2, 0, 0, &[(1, 11), (1, 12)]), false), (ae(1, 2, 0, 0, &[(1, 11)]), true), (ae(1, 2, 2, 1, &[]), true)],
    ];
    raw.into_iter().map(|v| (v.iter().map(|x| x.0.clone()).collect(), v.iter().map(|x| x.1).collect())).collect()
}

// ---------------------------------------------------------------- crash inside a snapshot install

/// Directed histories (run first): a follower acknowledges entries to its leader, then installs a
/// snapshot; the WAL is cut at EVERY byte the install wrote and a real node restarted on every cut
/// (`Ctx::dense_install`). The shortest histories in which the ORDER of the install's WAL writes is the
/// only thing between a crash and a forgotten acknowledged entry: whatever the install writes first, the
/// entries acknowledged before it that the snapshot repeats must be recoverable from every prefix.
fn install_cut_scripts() -> Vec<(Vec<Ev>, &'static str)> {
    let same = |n: u64| -> Vec<(u64, u64)> { (1..=n).map(|i| (1, 100 + i)).collect() };
    let ae = |t: u64, l: u64, pi: u64, pt: u64, ents: Vec<(u64, u64)>| Ev::Ae { t, l, pi, pt, ents };
    vec![
        // acknowledged 1..=5, snapshot 1..=8 from the same leader (the snapshot reaches beyond the log)
        (vec![ae(1, 1, 0, 0, same(5)), Ev::Snap { li: 8, lt: 1, ents: same(8), streaming: false }, ae(1, 1, 8, 1, vec![(1, 109)])], "snapshot_beyond_acked"),
        // acknowledged 1..=5, snapshot 1..=3: an agreeing local suffix 4, 5 beyond the snapshot index
        (vec![ae(1, 1, 0, 0, same(5)), Ev::Snap { li: 3, lt: 1, ents: same(3), streaming: true }, ae(1, 1, 3, 1, vec![(1, 104)])], "snapshot_below_acked"),
        // acknowledged 1..=5 in two calls, snapshot 1..=5
        (vec![ae(1, 1, 0, 0, same(2)), ae(1, 1, 2, 1, same(5)[2..].to_vec()), Ev::Snap { li: 5, lt: 1, ents: same(5), streaming: false }], "snapshot_equals_acked"),
        // acknowledged 1..=6 under the leader of term 1; the snapshot 1..=4 of the term-2 leader agrees on
        // 1, 2, replaces 3, 4 and leaves a conflicting local suffix 5, 6 beyond its index
        (
            vec![
                ae(1, 2, 0, 0, vec![(1, 101), (1, 102), (1, 503), (1, 504), (1, 505), (1, 506)]),
                Ev::Snap { li: 4, lt: 2, ents: vec![(1, 101), (1, 102), (2, 103), (2, 104)], streaming: true },
                ae(2, 1, 4, 2, vec![(2, 105)]),
            ],
            "snapshot_conflicts_with_suffix_beyond",
        ),
        // a second, longer snapshot over an installed one plus entries acknowledged on top of it
        (
            vec![
                Ev::Snap { li: 2, lt: 1, ents: same(2), streaming: false },
                ae(1, 1, 2, 1, same(4)[2..].to_vec()),
                Ev::Snap { li: 6, lt: 1, ents: same(6), streaming: false },
            ],
            "second_snapshot_over_acked_on_top",
        ),
    ]
}


// ---------------------------------------------------------------- large entries

/// a command of size class `class` (see `SIZE_UNIT`)
fn big(class: u64, c: u64) -> u64 {
    class * SIZE_UNIT + c
}

/// Directed histories with ONE large entry in the middle (run first). For each: (name, events before the
/// first restart — which is a restart from the complete file —, events after it, WAL-failure flags).
/// The shortest histories in which "replay reads every record append wrote, whatever its length" is the only
/// thing between a restart and a forgotten entry / term / vote: the large entry is acknowledged, then smaller
/// entries, a higher term and a vote are written BEHIND it; after the restart a second candidate asks for the
/// vote of that term (must be refused), more records are written behind the long one, and the node restarts
/// again. Neighbours: the large entry first / last in the file, two of them, one that a later leader's
/// conflict truncation replaces, one whose first append fails.
fn large_scripts(class: u64) -> Vec<(&'static str, Vec<Ev>, Vec<Ev>, Vec<bool>)> {
    let ae = |t: u64, l: u64, pi: u64, pt: u64, ents: Vec<(u64, u64)>| Ev::Ae { t, l, pi, pt, ents };
    let rv = |t: u64, c: u64, li: u64, lt: u64| Ev::Rv { t, c, li, lt };
    let b = big(class, 2);
    vec![
        // follower: entries 1, 2 (large), 3 acknowledged to the leader of term 1, vote of term 2 to n2
        (
            "append_entries",
            vec![ae(1, 1, 0, 0, vec![(1, 11)]), ae(1, 1, 1, 1, vec![(1, b)]), ae(1, 1, 2, 1, vec![(1, 13)]), rv(2, 2, 3, 1)],
            vec![rv(2, 3, 9, 9), ae(2, 2, 3, 1, vec![(2, 14)]), rv(3, 4, 4, 2)],
            vec![],
        ),
        // leader: proposes 1, 2 (large), 3 in term 1, steps down for term 2, votes for n2
        (
            "propose",
            vec![Ev::Elect, Ev::Lead, Ev::Prop { c: 31 }, Ev::Prop { c: b }, Ev::Prop { c: 33 }, Ev::Aer { t: 2 }, rv(2, 2, 3, 1)],
            vec![rv(2, 3, 9, 9), Ev::Elect, Ev::Lead, Ev::Prop { c: 34 }],
            vec![],
        ),
        // follower: a snapshot 1..3 whose entry 2 is large (re-persisted as LogEntryFull records), an entry
        // acknowledged on top, vote of term 2; after the restart a second snapshot 1..5 repeats the large entry
        (
            "install_snapshot",
            vec![
                ae(1, 1, 0, 0, vec![(1, 11)]),
                Ev::Snap { li: 3, lt: 1, ents: vec![(1, 11), (1, b), (1, 13)], streaming: false },
                ae(1, 1, 3, 1, vec![(1, 14)]),
                rv(2, 2, 4, 1),
            ],
            vec![
                rv(2, 3, 9, 9),
                Ev::Snap { li: 5, lt: 1, ents: vec![(1, 11), (1, b), (1, 13), (1, 14), (1, 15)], streaming: true },
                ae(2, 2, 5, 1, vec![(2, 16)]),
            ],
            vec![],
        ),
    ]
}

fn large_neighbours(class: u64) -> Vec<(&'static str, Vec<Ev>, Vec<Ev>, Vec<bool>)> {
    let ae = |t: u64, l: u64, pi: u64, pt: u64, ents: Vec<(u64, u64)>| Ev::Ae { t, l, pi, pt, ents };
    let rv = |t: u64, c: u64, li: u64, lt: u64| Ev::Rv { t, c, li, lt };
    let b = big(class, 2);
    let b2 = big(class, 4);
    vec![
        ("first_entry_is_large", vec![ae(1, 1, 0, 0, vec![(1, b)]), ae(1, 1, 1, 1, vec![(1, 12)]), rv(1, 2, 2, 1)], vec![rv(1, 3, 9, 9)], vec![]),
        ("last_record_is_large", vec![ae(1, 1, 0, 0, vec![(1, 11)]), rv(2, 2, 1, 1), ae(2, 2, 1, 1, vec![(2, b)])], vec![ae(2, 2, 2, 2, vec![(2, 13)])], vec![]),
        (
            "two_large_in_one_call",
            vec![ae(1, 1, 0, 0, vec![(1, b), (1, 12), (1, b2)]), rv(2, 2, 3, 1)],
            vec![rv(2, 3, 9, 9), ae(2, 2, 3, 1, vec![(2, 14)])],
            vec![],
        ),
        // the large acknowledged entry is replaced on a later leader's order (LogTruncate + a small entry)
        (
            "large_replaced_by_conflict",
            vec![ae(1, 1, 0, 0, vec![(1, 11), (1, b), (1, 13)]), ae(2, 2, 1, 1, vec![(2, 22)]), rv(3, 3, 2, 2)],
            vec![rv(3, 4, 9, 9), ae(3, 3, 2, 2, vec![(3, b2)])],
            vec![],
        ),
        // the append of the large entry fails first (nothing written, not acknowledged), the retry succeeds
        (
            "large_after_failed_append",
            vec![ae(1, 1, 0, 0, vec![(1, 11)]), ae(1, 1, 1, 1, vec![(1, b)]), ae(1, 1, 1, 1, vec![(1, b)]), ae(1, 1, 2, 1, vec![(1, 13)]), rv(2, 2, 3, 1)],
            vec![rv(2, 3, 9, 9)],
            vec![false, true, false, false, false],
        ),
    ]
}

/// the WAL configuration of `RaftNode::with_wal`
fn node_wal_cfg() -> tensor_chain::raft_wal::WalConfig {
    let mut c = tensor_chain::raft_wal::WalConfig::default();
    c.auto_rotate = false;
    c.max_size_bytes = u64::MAX;
    c
}

/// A `LogEntryFull` record (entry `idx` of term `term`, command `cmd`) whose serialized `RaftWalEntry` — the
/// payload of its WAL frame — has EXACTLY `target` bytes, if the encoding allows it.
fn record_with_payload(target: usize, idx: u64, term: u64, cmd: u64) -> Option<RaftWalEntry> {
    let mk = |n: usize| -> RaftWalEntry {
        let mut x = (target as u64).wrapping_mul(0x9E37_79B9_7F4A_7C15) | 1;
        let mut data = Vec::with_capacity(n + 8);
        while data.len() < n {
            x ^= x << 13;
            x ^= x >> 7;
            x ^= x << 17;
            data.extend_from_slice(&x.to_le_bytes());
        }
        data.truncate(n);
        let header = BlockHeader::new(cmd, [0u8; 32], [0u8; 32], [0u8; 32], "p".to_string());
        let block = Block::new(header, vec![Transaction::Put { key: "blob".to_string(), data }]);
        let e = LogEntry::new(term, idx, block);
        RaftWalEntry::LogEntryFull { index: idx, term, entry_data: bitcode::serialize(&e).unwrap() }
    };
    let mut n = target.saturating_sub(400).max(1);
    for _ in 0..16 {
        let l = bitcode::serialize(&mk(n)).unwrap().len();
        if l == target {
            return Some(mk(n));
        }
        let next = n as i64 + target as i64 - l as i64;
        if next < 1 {
            return None;
        }
        n = next as usize;
    }
    None
}

fn len_bucket(n: usize) -> &'static str {
    match n {
        0..=1023 => "lt1K",
        1024..=8191 => "1K-8K",
        8192..=65535 => "8K-64K",
        65536..=1048575 => "64K-1M",
        1048576..=4194303 => "1M-4M",
        _ => "ge4M",
    }
}

const SIZES_CLASS: &str = "tensor_chain.raft_wal.replay/not_whole_record_prefix";

/// Record sizes through `RaftWal::{append, open, replay}` directly, byte-exact: a `LogEntryFull` record whose
/// payload has exactly b-1 / b / b+1 bytes for every boundary b that exists or could plausibly exist in such
/// code (one-byte length 256, page 4096, the 8 KiB buffer of BufReader / BufWriter as payload and as whole
/// frame, 32 KiB, 64 KiB as payload and as whole frame, 128 KiB, 1 MiB as payload and as whole frame; thorough:
/// 4 MiB, 16 MiB), written in the MIDDLE of a node's records (TermAndVote, a small entry before it; a small
/// entry and the TermAndVote of a granted vote after it), with the WAL configuration of `RaftNode::with_wal`.
/// Oracles on the real WAL and the real node only: replay — on the writing handle and on a fresh one — returns
/// every appended record that lies before the cut, in order (`from_entries` of them is what `from_wal`
/// reports); `open` counts no more records than replay returns and leaves a file of complete frames alone; a
/// node started on the file has the term, the vote and the three entries. Then the file is cut just before /
/// at / just after the end of the long record, just after its header and in its middle, reopened, appended
/// to, and checked again. One size per boundary is also compared with the model (`recover`, `valid_len`,
/// `wal_append`: the frame bytes).
fn run_sizes_raw(cx: &mut Ctx, thorough: bool) {
    const MIB: usize = 1024 * 1024;
    let mut ladder: Vec<(usize, bool)> = vec![];
    for b in [256usize, 4096, 8184, 8192, 32768, 65528, 65536, 131_072] {
        ladder.push((b - 1, false));
        ladder.push((b, false));
        ladder.push((b + 1, true));
    }
    for (x, m) in [(MIB - 9, false), (MIB - 8, thorough), (MIB - 7, false), (MIB - 1, false), (MIB, thorough), (MIB + 1, true), (2 * MIB + 1, false)] {
        ladder.push((x, m));
    }
    if thorough {
        for x in [4 * MIB - 1, 4 * MIB, 4 * MIB + 1, 16 * MIB - 1, 16 * MIB, 16 * MIB + 1] {
            ladder.push((x, x == 4 * MIB + 1));
        }
    }
    let mut selftest_done = false;
    for (target, with_model) in ladder {
        let Some(long) = record_with_payload(target, 2, 1, 2000) else {
            cx.rep.hit("sizes.unattainable");
            continue;
        };
        cx.rep.hit(&format!("sizes.payload.{}", len_bucket(target)));
        let dir = shm_dir();
        let path = dir.path().join("s.wal");
        cx.m.ask("clear");
        cx.seen.clear();
        let small = |idx: u64, cmd: u64| RaftWalEntry::LogEntryFull {
            index: idx,
            term: 1,
            entry_data: bitcode::serialize(&LogEntry::new(1, idx, mk_block(cmd))).unwrap(),
        };
        let recs: Vec<RaftWalEntry> = vec![
            RaftWalEntry::TermAndVote { term: 1, voted_for: None },
            small(1, 11),
            long,
            small(3, 13),
            RaftWalEntry::TermAndVote { term: 2, voted_for: None },
            RaftWalEntry::TermAndVote { term: 2, voted_for: Some(nid(2)) },
        ];
        let mut trace: Vec<String> = vec![format!("long record: LogEntryFull of entry 2 with a payload of {target} bytes (frame {} bytes)", target + 8)];
        // (record, end offset)
        let mut written: Vec<(RaftWalEntry, usize)> = vec![];
        let mut refused = false;
        if with_model {
            cx.m.ask("wal_new 18446744073709551615 3 0");
        }
        {
            let mut w = RaftWal::open_with_config(&path, node_wal_cfg()).unwrap();
            for e in &recs {
                let res = w.append(e);
                let end = std::fs::metadata(&path).map(|m| m.len() as usize).unwrap_or(0);
                trace.push(format!("append {} -> {}", rec_tok(e), if res.is_ok() { "ok".to_string() } else { append_err(res.as_ref().err().unwrap()) }));
                if with_model && target <= 140_000 {
                    // the frame bytes, and that the write side has no per-record limit
                    let imp = match &res {
                        Ok(()) => wal_files_tok(&path),
                        Err(e) => append_err(e),
                    };
                    let mo = cx.m.ask(&format!("wal_append {}", hex(&bitcode::serialize(e).unwrap())));
                    let t = trace.clone();
                    cx.rep.compare("sizes.append", || json!({"trace": t}), &imp, &mo);
                }
                match res {
                    Ok(()) => written.push((e.clone(), end)),
                    Err(_) => {
                        refused = true;
                        break;
                    }
                }
            }
            if refused {
                // a refused append is not acknowledged: no obligation of C10 arises (the model's write side
                // has no per-record limit; the comparison above reports the difference where it is made)
                cx.rep.hit("sizes.append_refused");
                cx.rep.observe(json!({"stream": "sizes.raw", "note": "RaftWal::append refused a record although the file is far below max_size_bytes", "trace": trace}));
                continue;
            }
            // the writing handle itself
            let got = w.replay().map(|es| es.len()).unwrap_or(0);
            cx.rep.hit("oracle.sizes.replay");
            if got != written.len() {
                cx.rep.violation(SIZES_CLASS, "RaftWal::replay on the writing handle does not return every appended record",
                    json!({"trace": trace, "long_record_payload_bytes": target, "appended": written.len(), "replayed": got}));
            }
        }
        let full = std::fs::read(&path).unwrap();
        let big_start = written[1].1;
        let big_end = written[2].1;
        // what a fresh handle on `p` says, given the records expected in it
        let verify = |cx: &mut Ctx, p: &Path, expect: &[RaftWalEntry], trace: &Vec<String>, torn_seen: bool, model: bool| -> bool {
            let mut fine = true;
            let len_before = std::fs::metadata(p).map(|m| m.len()).unwrap_or(0) as usize;
            let valid = frames(&std::fs::read(p).unwrap_or_default()).last().map_or(0, |x| x.1);
            let w = match RaftWal::open_with_config(p, node_wal_cfg()) {
                Ok(w) => w,
                Err(e) => {
                    cx.rep.violation("tensor_chain.raft_wal.recover/restart_fails", &format!("RaftWal::open fails on a log of complete records and a torn tail: {e}"),
                        json!({"trace": trace, "long_record_payload_bytes": target}));
                    return false;
                }
            };
            let len_after = std::fs::metadata(p).map(|m| m.len()).unwrap_or(0) as usize;
            let counted = w.entry_count();
            let rp = w.replay();
            let imp = match &rp {
                Ok(es) => format!("ok n={} {}", es.len(), rstate_tok(&RaftRecoveryState::from_entries(es))),
                Err(e) => format!("err {}", err_class(e)),
            };
            let want = format!("ok n={} {}", expect.len(), rstate_tok(&RaftRecoveryState::from_entries(expect)));
            cx.rep.hit("oracle.sizes.replay");
            if imp != want {
                fine = false;
                let class = if torn_seen { "tensor_chain.raft_wal.open/append_after_torn_tail" } else { SIZES_CLASS };
                cx.rep.violation(class, "replay of a log is not the appended records that lie wholly before the cut",
                    json!({"trace": trace, "long_record_payload_bytes": target, "got": imp, "want": want}));
            }
            if let Ok(es) = &rp {
                // (the direction that loses something: frames `open` takes for complete records and appends
                // behind, which recovery does not return)
                if (es.len() as u64) < counted {
                    fine = false;
                    let class = if torn_seen { "tensor_chain.raft_wal.open/append_after_torn_tail" } else { "tensor_chain.raft_wal.replay/fewer_records_than_open_counted" };
                    cx.rep.violation(class,
                        "RaftWal::open counted more complete records in the file than RaftWal::replay returns: records written by append are invisible to recovery",
                        json!({"trace": trace, "long_record_payload_bytes": target, "entry_count_after_open": counted, "replayed": es.len()}));
                }
            }
            if len_after != valid {
                fine = false;
                cx.rep.violation(if len_after < valid { "tensor_chain.raft_wal.open/complete_record_cut_away" } else { "tensor_chain.raft_wal.open/append_after_torn_tail" },
                    "RaftWal::open does not leave exactly the complete records of the file",
                    json!({"trace": trace, "long_record_payload_bytes": target, "len_before_open": len_before, "complete_frames": valid, "len_after_open": len_after}));
            }
            if model {
                let bytes = std::fs::read(p).unwrap_or_default();
                register(cx.m, &mut cx.seen, &bytes);
                let mo = cx.m.ask(&format!("recover {}", hex(&bytes)));
                let t = trace.clone();
                cx.rep.compare("sizes.recover", || json!({"trace": t, "long_record_payload_bytes": target}), &imp, &mo);
            }
            fine
        };
        let all: Vec<RaftWalEntry> = written.iter().map(|x| x.0.clone()).collect();
        verify(cx, &path, &all, &trace, false, with_model);
        // the node on the complete file: term 2, vote for n2, entries 1..3
        {
            let mut g = Ghost::default();
            g.acted = 2;
            g.votes.insert((2, 2));
            for e in [(1u64, 1u64, 11u64), (2, 1, 2000), (3, 1, 13)] {
                g.acked.insert(e);
            }
            let p2 = dir.path().join("n.wal");
            let p3 = dir.path().join("p.wal");
            std::fs::write(&p2, &full).unwrap();
            std::fs::write(&p3, &full).unwrap();
            match (mk_node(&p2), mk_node(&p3)) {
                (Ok(rn), Ok(pn)) => {
                    let log = node_log(&rn);
                    let voted = probe_voted(&pn);
                    cx.rep.hit("oracle.sizes.node_restart");
                    for (kind, detail) in g.check(rn.current_term(), &voted, &log) {
                        cx.rep.violation(&format!("tensor_chain.raft_wal.recover/{kind}"), &detail,
                            json!({"trace": trace, "long_record_payload_bytes": target, "obligations": g.tok(),
                                   "restarted": format!("{}/{}/{}", rn.current_term(), voted, log_tok(&log))}));
                    }
                }
                (Err(e), _) | (_, Err(e)) => {
                    cx.rep.violation("tensor_chain.raft_wal.recover/restart_fails", &format!("RaftNode::with_wal fails on a complete log: {e}"),
                        json!({"trace": trace, "long_record_payload_bytes": target}));
                }
            }
        }
        // would the oracle notice a reader that refuses long frames? (the model's capped variant, NOT the code)
        if with_model && !selftest_done && target > 65536 + 16 {
            selftest_done = true;
            let want = format!("ok n={} {}", all.len(), rstate_tok(&RaftRecoveryState::from_entries(&all)));
            let capped = cx.m.ask(&format!("recover_capped 65536 {}", hex(&full)));
            let short = format!("ok n=2 {}", rstate_tok(&RaftRecoveryState::from_entries(&all[..2])));
            let t = trace.clone();
            cx.rep.compare("sizes.selftest.capped_variant", || json!({"trace": t, "what": "the model's capped replay variant on this file: the records before the long one"}), &short, &capped);
            if capped != want {
                cx.rep.hit("oracle.sizes.selftest.capped_reader_would_be_flagged");
            }
        }
        // cuts around the long record; reopen, append, reopen
        let more = RaftWalEntry::TermAndVote { term: 3, voted_for: None };
        let mut cuts = vec![big_end - 1, big_end, big_end + 1, big_start + 9, big_start + 8 + target / 2];
        cuts.dedup();
        for (ci, cut) in cuts.into_iter().enumerate() {
            let cut = cut.min(full.len());
            let p = dir.path().join("c.wal");
            std::fs::write(&p, &full[..cut]).unwrap();
            let mut expect: Vec<RaftWalEntry> = written.iter().filter(|x| x.1 <= cut).map(|x| x.0.clone()).collect();
            let whole = written.iter().filter(|x| x.1 <= cut).last().map_or(0, |x| x.1);
            let mut tr = trace.clone();
            tr.push(format!("crash cut={cut}/{}", full.len()));
            let model_here = with_model && ci == 0 && (target < 512 * 1024 || thorough);
            if model_here {
                let mv = cx.m.ask(&format!("valid_len {}", hex(&full[..cut])));
                let t = tr.clone();
                cx.rep.compare("sizes.valid_len", || json!({"trace": t}), &whole.to_string(), &mv);
            }
            let pre_ok = verify(cx, &p, &expect, &tr, false, false);
            // records lost after appending behind a torn tail are the torn-tail class only if the cut file
            // itself was read correctly
            let torn = whole != cut && pre_ok;
            match RaftWal::open_with_config(&p, node_wal_cfg()).and_then(|mut w| w.append(&more)) {
                Ok(()) => {
                    expect.push(more.clone());
                    tr.push(format!("reopen; append {} -> ok", rec_tok(&more)));
                }
                Err(e) => tr.push(format!("reopen; append {} -> {}", rec_tok(&more), append_err(&e))),
            }
            verify(cx, &p, &expect, &tr, torn, model_here);
            cx.rep.hit(if whole != cut { "sizes.cut.torn" } else { "sizes.cut.boundary" });
        }
        cx.rep.case("sizes.raw", Some(&format!("payload={target}")));
    }
}

// ---------------------------------------------------------------- size limit / rotation

/// Fixed by c45da25c (`RaftNode::with_wal` opens its WAL with auto_rotate = false). A node whose WAL is
/// rotated away again is reported under this class.
const ROTATION_CLASS: &str = "tensor_chain.raft_wal.rotate/restart_ignores_rotated_segments";

fn hex_or_dash(b: &[u8]) -> String {
    if b.is_empty() {
        "-".into()
    } else {
        hex(b)
    }
}

fn rotated_path(path: &Path, k: usize) -> PathBuf {
    let name = path.file_name().unwrap().to_string_lossy().to_string();
    path.with_file_name(format!("{name}.{k}"))
}

/// live file + `<wal>.1`, `<wal>.2`, … in the model's notation
fn wal_files_tok(path: &Path) -> String {
    let cur = std::fs::read(path).unwrap_or_default();
    let mut rot = vec![];
    for k in 1..=8 {
        match std::fs::read(rotated_path(path, k)) {
            Ok(b) => rot.push(hex_or_dash(&b)),
            Err(_) => break,
        }
    }
    format!("cur={} rot={}", hex_or_dash(&cur), if rot.is_empty() { "-".to_string() } else { rot.join(";") })
}

fn report_rotation(cx: &mut Ctx, what: &str, input: Value) {
    cx.rep.violation(ROTATION_CLASS, what, input);
}

/// `RaftWal::open_with_config` with a small `max_size_bytes`, with and without `auto_rotate`: every append
/// compared (live file and rotated files, byte for byte; refusal) with the model's `walAppend`; oracle: as
/// long as nothing was rotated, `from_wal` returns the state of exactly the accepted records.
fn run_rot_raw(cx: &mut Ctx, r: &mut Rng, case_no: u64) {
    let dir = shm_dir();
    let path = dir.path().join("w.wal");
    let max = 30 + r.below(260);
    let maxrot = r.below(4) as usize;
    let auto = r.chance(1, 2);
    let mut c = tensor_chain::raft_wal::WalConfig::default();
    c.max_size_bytes = max;
    c.max_rotated_files = maxrot;
    c.auto_rotate = auto;
    cx.m.ask(&format!("wal_new {max} {maxrot} {}", u8::from(auto)));
    let mut w = RaftWal::open_with_config(&path, c.clone()).unwrap();
    let n = 4 + r.below(20) as usize;
    let mut all: Vec<RaftWalEntry> = vec![];
    let mut toks: Vec<String> = vec![];
    let mut rotated = false;
    let mut forgot = false;
    for _ in 0..n {
        if r.chance(1, 8) {
            drop(w);
            w = RaftWal::open_with_config(&path, c.clone()).unwrap();
            let mo = cx.m.ask("wal_reopen");
            let t = toks.clone();
            cx.rep.compare("rot.reopen", || json!({"max": max, "maxrot": maxrot, "entries": t}), &wal_files_tok(&path), &mo);
            toks.push("reopen".into());
        }
        // small records mostly, so that several fit below the limit
        let rec = if r.chance(3, 4) {
            match r.below(3) {
                0 => RaftWalEntry::TermAndVote { term: 1 + r.below(6), voted_for: if r.chance(1, 2) { Some(nid(r.below(4))) } else { None } },
                1 => RaftWalEntry::LogTruncate { from_index: r.below(9) },
                _ => RaftWalEntry::LogEntryFull { index: 1 + r.below(6), term: 1 + r.below(6), entry_data: r.bytes(3) },
            }
        } else {
            gen_raw(r, 6)
        };
        let payload = bitcode::serialize(&rec).unwrap();
        let before_len = std::fs::metadata(&path).map(|m| m.len()).unwrap_or(0);
        let res = w.append(&rec);
        toks.push(rec_tok(&rec));
        let imp = match &res {
            Ok(()) => wal_files_tok(&path),
            Err(e) => append_err(e),
        };
        if res.is_ok() {
            all.push(rec.clone());
        } else {
            toks.push("(refused)".into());
        }
        let mo = cx.m.ask(&format!("wal_append {}", hex(&payload)));
        let t = toks.clone();
        cx.rep.compare("rot.append", || json!({"max": max, "maxrot": maxrot, "auto_rotate": auto, "entries": t}), &imp, &mo);
        if before_len + 8 + payload.len() as u64 > max {
            if auto {
                rotated = true;
                cx.rep.hit("rot.append.rotates");
            } else {
                cx.rep.hit("rot.append.refused");
            }
        } else {
            cx.rep.hit("rot.append.fits");
        }
        // oracle: a restart (from_wal) must see everything that was appended
        let got = match w.replay() {
            Ok(es) => rstate_tok(&RaftRecoveryState::from_entries(&es)),
            Err(e) => format!("err {}", err_class(&e)),
        };
        let want = rstate_tok(&RaftRecoveryState::from_entries(&all));
        if got != want {
            if !rotated {
                cx.rep.violation(
                    "tensor_chain.raft_wal.append/record_lost_within_size_limit",
                    "from_wal does not return the state of the appended records although the size limit was never reached",
                    json!({"case": case_no, "max": max, "maxrot": maxrot, "entries": toks, "got": got, "want": want}),
                );
            } else if !forgot {
                // RaftWal level, auto_rotate chosen by the caller: what rotation means (the node does not
                // choose it any more since c45da25c; the node-level regression case is rot.node)
                forgot = true;
                cx.rep.hit("rot.forgot_after_rotation");
            }
        }
    }
    if !rotated {
        cx.rep.hit("rot.case.never_rotated");
    }
    cx.rep.case("rot.raw", Some(&format!("{max}|{maxrot}|{auto}|{}", toks.join(" "))));
}

/// Directed regression case for c45da25c on a real `RaftNode::with_wal`: the harness stands in for
/// 1 GiB of earlier history (the `WalConfig` default limit, which the node used before the fix) by padding
/// the live file with sparse filler frames (stored checksum 0, undecodable: replay stops at the first
/// one), restarts the node (everything is still recovered — checked) and lets it acknowledge one more
/// entry. Before the fix that append rotated the live file away and the next restart had forgotten term,
/// vote and log (then granted a second vote in the same term); now no `<wal>.1` may appear.
fn run_rot_node(cx: &mut Ctx, r: &mut Rng, case_no: u64) {
    use std::io::{Seek, SeekFrom, Write};
    const MAX: u64 = 1024 * 1024 * 1024;
    const CHUNK: u64 = 16 * 1024 * 1024;
    let dir = shm_dir();
    let path = dir.path().join("raft.wal");
    let t = 2 + r.below(7);
    let c1 = 1 + r.below(NPEERS);
    let c2 = 1 + (c1 % NPEERS);
    let k = 1 + r.below(3);
    let ents: Vec<(u64, u64)> = (0..k).map(|_| (t, 1 + r.below(900))).collect();
    let extra = (t, 1 + r.below(900));
    let mut lv = Live { node: mk_node(&path).expect("fresh wal") };
    let mut history = vec![];
    let mut ghost = Ghost::default();
    let ev1 = Ev::Rv { t, c: c1, li: 0, lt: 0 };
    let ev2 = Ev::Ae { t, l: c1, pi: 0, pt: 0, ents: ents.clone() };
    let ev3 = Ev::Ae { t, l: c1, pi: k, pt: t, ents: vec![extra] };
    let r1 = apply_real(&mut lv, &ev1);
    history.push(json!({"ev": ev1.line(), "reply": r1}));
    let r2 = apply_real(&mut lv, &ev2);
    history.push(json!({"ev": ev2.line(), "reply": r2}));
    if r1 != format!("vote:{t}:1") || r2 != format!("append:{t}:1:{k}") {
        cx.rep.disagree("rot.node", json!({"history": history}), &format!("{r1} {r2}"), "vote granted, entries acknowledged");
        return;
    }
    ghost.acted = t;
    ghost.votes.insert((t, c1));
    for e in node_log(&lv.node) {
        ghost.acked.insert(e);
    }
    drop(lv);
    // pad to MAX - 8 bytes: no further record fits
    let len = std::fs::metadata(&path).unwrap().len();
    {
        let mut f = std::fs::OpenOptions::new().write(true).open(&path).unwrap();
        let end = MAX - 8;
        let mut pos = len;
        while pos < end {
            let mut body = (end - pos - 8).min(CHUNK);
            // never leave a gap smaller than a frame header
            if end - (pos + 8 + body) > 0 && end - (pos + 8 + body) < 8 {
                body -= 8;
            }
            f.seek(SeekFrom::Start(pos)).unwrap();
            f.write_all(&(body as u32).to_le_bytes()).unwrap();
            f.write_all(&0u32.to_le_bytes()).unwrap();
            pos += 8 + body;
        }
        f.set_len(end).unwrap();
    }
    history.push(json!({"harness": "live file padded with sparse filler frames", "from_len": len, "to_len": MAX - 8}));
    // restart 1: below the limit nothing is forgotten
    let n1 = match mk_node(&path) {
        Ok(n) => n,
        Err(e) => {
            cx.rep.disagree("rot.node", json!({"history": history}), &format!("restart fails: {e}"), "restart on the padded file");
            return;
        }
    };
    {
        let p = dir.path().join("probe1.wal");
        // the probe copy need not be padded: same records, same recovery
        let mut head = vec![0u8; len as usize];
        {
            use std::io::Read;
            std::fs::File::open(&path).and_then(|mut f| f.read_exact(&mut head)).unwrap();
        }
        std::fs::write(&p, &head).unwrap();
        let voted = mk_node(&p).map(|pn| probe_voted(&pn)).unwrap_or("?".into());
        let bad = ghost.check(n1.current_term(), &voted, &node_log(&n1));
        for (kind, detail) in bad {
            cx.rep.violation(&format!("tensor_chain.raft_wal.recover/{kind}"), &detail, json!({"case": case_no, "history": history, "at": "restart below the size limit"}));
        }
    }
    let mut lv = Live { node: n1 };
    let r3 = apply_real(&mut lv, &ev3);
    history.push(json!({"ev": ev3.line(), "reply": r3}));
    if r3 == format!("append:{t}:1:{}", k + 1) {
        for e in node_log(&lv.node) {
            ghost.acked.insert(e);
        }
    }
    let rotated_len = std::fs::metadata(rotated_path(&path, 1)).map(|m| m.len()).unwrap_or(0);
    let live_len = std::fs::metadata(&path).map(|m| m.len()).unwrap_or(0);
    history.push(json!({"files": {"raft.wal": live_len, "raft.wal.1": rotated_len}}));
    cx.rep.hit(if rotated_len > 0 { "rot.node.rotated" } else { "rot.node.not_rotated" });
    drop(lv);
    if rotated_len == 0 {
        // the node's WAL does not rotate: the record went behind the harness' filler frames, where replay
        // cannot see it by construction of the filler — nothing more to judge here
        cx.rep.case("rot.node", Some(&format!("{t}|{c1}|{k}|{ents:?}|{extra:?}")));
        return;
    }
    // restart 2
    let p2 = dir.path().join("probe2.wal");
    std::fs::copy(&path, &p2).unwrap();
    match (mk_node(&path), mk_node(&p2)) {
        (Ok(n2), Ok(pn)) => {
            let term = n2.current_term();
            let log = node_log(&n2);
            let voted = probe_voted(&pn);
            let bad = ghost.check(term, &voted, &log);
            // the consequence the property names: a second candidate gets the vote of the same term
            let mut lv2 = Live { node: n2 };
            let again = apply_real(&mut lv2, &Ev::Rv { t, c: c2, li: u64::MAX / 2, lt: u64::MAX / 2 });
            let double = again == format!("vote:{t}:1");
            if !bad.is_empty() {
                cx.rep.hit("rot.node.forgot_after_rotation");
                if double {
                    cx.rep.hit("rot.node.double_vote");
                }
                let lost: Vec<String> = bad.iter().map(|(k, d)| format!("{k}: {d}")).collect();
                report_rotation(
                    cx,
                    "the WAL of a RaftNode reached max_size_bytes; the next append rotated the live file to <wal>.1; RaftNode::with_wal reads the live file only: term, vote and acknowledged entries written before are forgotten",
                    json!({"case": case_no, "level": "RaftNode::with_wal", "history": history, "obligations": ghost.tok(),
                           "restarted": format!("{}/{}/{}", term, voted, log_tok(&log)), "lost": lost,
                           "then": format!("RequestVote(term {t}, candidate n{c2}) -> {again}"),
                           "double_vote_in_one_term": double}),
                );
            } else {
                cx.rep.hit("rot.node.nothing_forgotten");
            }
        }
        (Err(e), _) | (_, Err(e)) => {
            cx.rep.disagree("rot.node", json!({"history": history}), &format!("restart fails: {e}"), "restart after rotation");
        }
    }
    cx.rep.case("rot.node", Some(&format!("{t}|{c1}|{k}|{ents:?}|{extra:?}")));
}

fn main() {
    let args = parse_args();
    let mut rep = Report::new(
        "seeded protocol scripts on a real WAL-backed RaftNode; a chain case is non-trivial when its handlers appended \
         at least one WAL record; a cut case is one (script, phase, byte) triple; distinct = distinct canonical script text",
    );
    rep.expected_branches = [
        "rec.TermAndVote", "rec.LogEntryFull", "rec.LogTruncate", "branch.conflict_truncate",
        "ev.elect", "ev.request_vote", "ev.vote_response", "ev.prevote_response", "ev.become_leader",
        "ev.append_entries", "ev.append_response", "ev.propose",
        "reply.vote:1", "reply.vote:0", "reply.append:1", "reply.append:0", "reply.proposed", "reply.notleader",
        "cut.torn", "cut.boundary", "cut.inflight_records", "chain.crash1", "chain.crash2", "chain.crash3",
        "chain.crash_torn_tail", "raw.rec.TermChange", "raw.rec.VoteCast", "raw.rec.TermAndVote", "raw.rec.LogAppend",
        "raw.rec.LogTruncate", "raw.rec.SnapshotTaken", "raw.rec.LogEntryFull", "raw.reopen.torn", "raw.reopen.clean",
        "raw.flip.error",
        "ev.install_snapshot", "reply.snap:1", "reply.snap:0", "snapshot.path.streaming", "snapshot.path.bytes",
        "snapshot.local_suffix_beyond", "snapshot.fills_gap", "snapshot.conflicts_local",
        "snapshot.conflicts_local_with_suffix_beyond", "snapshot.higher_term", "snapshot.on_non_follower",
        "snapshot.rejected_stale", "snapshot.rejected_invalid", "snapshot.script.gap", "snapshot.script.suffix_agrees",
        "snapshot.script.suffix_conflicts", "cut.mid_snapshot_install", "cut.mid_snapshot_install.some_entries_durable",
        "chain.crash_mid_install",
        "rot.append.rotates", "rot.append.fits", "rot.append.refused", "rot.case.never_rotated", "rot.node.not_rotated",
        "fail.ev.term_record_path", "fail.ev.log_or_none_path", "fail.append_entries", "fail.propose",
        "fail.install_snapshot", "fail.elect", "fail.request_vote", "fail.vote_response",
        "reply.walfail",
        "ev.start_pre_vote", "ev.pre_vote", "ev.timeout_now", "branch.election_by_prevote_quorum",
        "branch.election_by_timeout_now", "branch.leader_by_vote_quorum", "fail.prevote_response", "fail.timeout_now",
        "ev.compact", "branch.compaction_drained",
        "install_cut.script.snapshot_beyond_acked", "install_cut.script.snapshot_below_acked",
        "install_cut.script.snapshot_equals_acked", "install_cut.script.snapshot_conflicts_with_suffix_beyond",
        "install_cut.script.second_snapshot_over_acked_on_top", "cut.mid_snapshot_install.every_byte",
        "cut.real_node_only", "oracle.order_derived.evaluated", "oracle.order_derived.inside_install",
        "oracle.order_derived.inside_install_with_acked_entries",
        "large.script.append_entries.class1", "large.script.append_entries.class2", "large.script.propose.class2",
        "large.script.install_snapshot.class2", "large.script.first_entry_is_large.class1",
        "large.script.last_record_is_large.class1", "large.script.two_large_in_one_call.class1",
        "large.script.large_replaced_by_conflict.class1", "large.script.large_after_failed_append.class1",
        "phase.wrote_long_record", "phase.records_behind_long_record", "phase.records_behind_long_record_of_earlier_phase",
        "chain.restart_on_complete_file", "cuts.large_file", "cuts.huge_file", "case.size_mode.1",
        "raw.long_record.class4", "oracle.sizes.replay", "oracle.sizes.node_restart",
        "oracle.sizes.selftest.capped_reader_would_be_flagged", "sizes.cut.torn", "sizes.cut.boundary",
        "sizes.payload.lt1K", "sizes.payload.1K-8K", "sizes.payload.8K-64K", "sizes.payload.64K-1M", "sizes.payload.1M-4M",
    ]
    .iter()
    .map(|s| s.to_string())
    .collect();

    let t_all_end = std::time::Instant::now();
    let mut m = Model::spawn(&args.driver);
    let root = Rng::new(args.seed);
    let thorough = args.thorough;
    {
        let mut cx = Ctx { m: &mut m, rep: &mut rep, seen: HashSet::new(), thorough, slow_budget: if thorough { 40 } else { 2 }, dense_install: false,
            restart_whole_first: false, script_after_restart: vec![] };
        let t_all = std::time::Instant::now();
        // debugging aid: C10_ONLY_COMPACT=1 runs the compact stream alone
        let only_compact = std::env::var("C10_ONLY_COMPACT").is_ok();
        let cnt = |t: u64, q: u64| -> u64 { if only_compact { 0 } else if thorough { t } else { q } };
        // directed, first: large log entries in the middle of a history (AppendEntries, propose, snapshot
        // install), a restart from the complete file, more steps, a second restart; then byte-exact record
        // sizes on RaftWal itself
        let mut rl = root.fork("large");
        cx.thorough = false;
        cx.restart_whole_first = true;
        let mut sized: Vec<(String, Vec<Ev>, Vec<Ev>, Vec<bool>)> = vec![];
        for class in if thorough { vec![1u64, 2, 3] } else { vec![1u64, 2] } {
            for (name, a, b, f) in large_scripts(class) {
                // quick tier: all three paths at >= 1 MiB, the 64 KiB class through AppendEntries (and the neighbours)
                if thorough || class == 2 || name == "append_entries" {
                    sized.push((format!("{name}.class{class}"), a, b, f));
                }
            }
        }
        for class in if thorough { vec![1u64, 2] } else { vec![1u64] } {
            for (name, a, b, f) in large_neighbours(class) {
                sized.push((format!("{name}.class{class}"), a, b, f));
            }
        }
        // debugging aid: C10_SKIP_LARGE=1 skips the directed large / sizes.raw streams
        let skip_large = std::env::var("C10_SKIP_LARGE").is_ok();
        for (i, (name, before, after, flags)) in sized.into_iter().enumerate().filter(|_| !only_compact && !skip_large) {
            cx.rep.hit(&format!("large.script.{name}"));
            cx.script_after_restart = after;
            let t_case = std::time::Instant::now();
            run_case(&mut cx, &mut rl, 70_000 + i as u64, 2, Some(before), "large", &FailCfg { scripted: flags, prob: 0 });
            if std::env::var("C10_TIMES").is_ok() { eprintln!("  large.{name} {:?}", t_case.elapsed()); }
        }
        cx.script_after_restart = vec![];
        cx.restart_whole_first = false;
        if std::env::var("C10_TIMES").is_ok() { eprintln!("before sizes.raw {:?}", t_all.elapsed()); }
        if !only_compact && !skip_large {
            run_sizes_raw(&mut cx, thorough);
        }
        cx.m.ask("clear");
        cx.seen.clear();
        if std::env::var("C10_TIMES").is_ok() { eprintln!("before install.cut {:?}", t_all.elapsed()); }
        // occasionally a random case may generate large entries (drawn from its own stream, so that the
        // cases without them are the ones of earlier runs)
        let mut rsz = root.fork("sizes");
        let draw_size_mode = |rsz: &mut Rng, rep: &mut Report| {
            let mode = if rsz.chance(1, if thorough { 16 } else { 14 }) && std::env::var("C10_NO_SIZED").is_err() {
                if thorough {
                    match rsz.below(8) {
                        0..=3 => 1,
                        4..=6 => 2,
                        _ => 3,
                    }
                } else if rsz.chance(1, 6) {
                    2
                } else {
                    1
                }
            } else {
                0
            };
            SIZE_MODE.store(mode, std::sync::atomic::Ordering::Relaxed);
            BIG_BUDGET.store(if mode > 0 { 2 } else { 0 }, std::sync::atomic::Ordering::Relaxed);
            if mode > 0 {
                rep.hit(&format!("case.size_mode.{mode}"));
            }
        };
        // directed: a crash at every byte of a snapshot install on a follower holding acknowledged entries
        let mut ri = root.fork("install.cut");
        cx.thorough = false;
        cx.dense_install = true;
        for (i, (script, variant)) in install_cut_scripts().into_iter().enumerate().filter(|_| !only_compact) {
            cx.rep.hit(&format!("install_cut.script.{variant}"));
            run_case(&mut cx, &mut ri, 60_000 + i as u64, if thorough { 2 } else { 1 }, Some(script), "install.cut", &FailCfg::none());
        }
        cx.dense_install = false;
        cx.thorough = thorough;
        // directed regression cases of the two fixed findings of this round run next
        if std::env::var("C10_TIMES").is_ok() { eprintln!("before rot.node {:?}", t_all.elapsed()); }
        let mut r = root.fork("rot.node");
        for i in 0..cnt(6, 2) {
            run_rot_node(&mut cx, &mut r, 30_000 + i);
        }
        let mut rf = root.fork("fail");
        cx.thorough = false;
        for (i, (script, flags)) in fail_scripts().into_iter().enumerate().filter(|_| !only_compact) {
            cx.rep.hit("fail.script.directed");
            run_case(&mut cx, &mut rf, 40_000 + i as u64, if thorough { 2 } else { 1 }, Some(script), "fail", &FailCfg { scripted: flags, prob: 25 });
        }
        cx.thorough = thorough;
        if std::env::var("C10_TIMES").is_ok() { eprintln!("before raw {:?}", t_all.elapsed()); }
        let mut r = root.fork("raw");
        let n_raw = cnt(1500, 150);
        for i in 0..n_raw {
            let long = if rsz.chance(1, 12) {
                // a few KiB mostly; 64 KiB (every cut and bit flip of it goes to the model) in the thorough tier
                Some((if thorough && rsz.chance(1, 5) { 1 } else { 4 }, rsz.below(100)))
            } else {
                None
            };
            run_raw(&mut cx, &mut r, i, long);
        }
        if std::env::var("C10_TIMES").is_ok() { eprintln!("before rot.raw {:?}", t_all.elapsed()); }
        let mut r = root.fork("rot.raw");
        for i in 0..cnt(800, 80) {
            run_rot_raw(&mut cx, &mut r, 20_000 + i);
        }
        cx.m.ask("clear");
        if std::env::var("C10_TIMES").is_ok() { eprintln!("before snapshot {:?}", t_all.elapsed()); }
        let mut r = root.fork("snapshot");
        for i in 0..cnt(300, 30) {
            let (script, variant) = snapshot_script(&mut r);
            cx.rep.hit(&format!("snapshot.script.{variant}"));
            cx.thorough = thorough && i < 30;
            // every byte of the install's records for the first scripts, frame boundaries +-{1,3,7} after
            cx.dense_install = i < if thorough { 60 } else { 2 };
            draw_size_mode(&mut rsz, cx.rep);
            run_case(&mut cx, &mut r, 10_000 + i, 2, Some(script), "snapshot", &FailCfg::none());
        }
        SIZE_MODE.store(0, std::sync::atomic::Ordering::Relaxed);
        cx.dense_install = false;
        if std::env::var("C10_TIMES").is_ok() { eprintln!("before compact {:?}", t_all.elapsed()); }
        // log compaction: small snapshot_trailing_logs, truncate_log events among the others (and some
        // failing appends); directed script first
        let mut r = root.fork("compact");
        cx.thorough = false;
        for i in 0..(if thorough { 200 } else { 8 }) {
            let tr = r.below(3) as usize;
            TRAILING.store(tr, std::sync::atomic::Ordering::Relaxed);
            let script = if i == 0 {
                TRAILING.store(1, std::sync::atomic::Ordering::Relaxed);
                Some(vec![
                    Ev::Ae { t: 1, l: 2, pi: 0, pt: 0, ents: vec![(1, 11), (1, 12), (1, 13), (1, 14), (1, 15)] },
                    Ev::Compact { i: 4 },
                    Ev::Ae { t: 2, l: 3, pi: 2, pt: 9, ents: vec![(2, 99)] },
                    Ev::Ae { t: 2, l: 3, pi: 5, pt: 1, ents: vec![(2, 16)] },
                    Ev::Compact { i: 9 },
                    Ev::Ae { t: 2, l: 3, pi: 4, pt: 1, ents: vec![(2, 25), (2, 26)] },
                ])
            } else {
                None
            };
            run_case(&mut cx, &mut r, 50_000 + i, 2, script, "compact", &FailCfg { scripted: vec![], prob: 8 });
        }
        TRAILING.store(100, std::sync::atomic::Ordering::Relaxed);
        if std::env::var("C10_TIMES").is_ok() { eprintln!("before fail {:?}", t_all.elapsed()); }
        cx.thorough = false;
        for i in 0..cnt(300, 8) {
            draw_size_mode(&mut rsz, cx.rep);
            run_case(&mut cx, &mut rf, 41_000 + i, 2, None, "fail", &FailCfg { scripted: vec![], prob: 30 });
        }
        SIZE_MODE.store(0, std::sync::atomic::Ordering::Relaxed);
        if !only_compact {
            probe_codebook(&mut cx);
        }
        if std::env::var("C10_TIMES").is_ok() { eprintln!("before chain {:?}", t_all.elapsed()); }
        let mut r = root.fork("chain");
        // thorough: every byte of every phase for the first 30 scripts, then many more scripts with
        // boundary±{1,3,7} + random cuts
        let n_chain = cnt(400, 40);
        for i in 0..n_chain {
            cx.thorough = thorough && i < 30;
            draw_size_mode(&mut rsz, cx.rep);
            run_case(&mut cx, &mut r, i, 3, None, "chain", &FailCfg::none());
        }
        SIZE_MODE.store(0, std::sync::atomic::Ordering::Relaxed);
    }
    if std::env::var("C10_TIMES").is_ok() { eprintln!("end {:?}", t_all_end.elapsed()); }
    rep.note("votedFor of a restarted real node is observed through RequestVote probes on a throw-away copy (no getter exists)");
    rep.note(&format!(
        "large entries: a block command c >= {SIZE_UNIT} carries one Put of {:?} payload bytes for the size classes 1.. (c / {SIZE_UNIT}); serialized LogEntry / WAL record payload of the classes 1, 2: {} / {}, {} / {} bytes",
        CLASS_PAYLOAD,
        bitcode::serialize(&LogEntry::new(1, 2, mk_block(big(1, 2)))).unwrap().len(),
        bitcode::serialize(&RaftWalEntry::LogEntryFull { index: 2, term: 1, entry_data: bitcode::serialize(&LogEntry::new(1, 2, mk_block(big(1, 2)))).unwrap() }).unwrap().len(),
        bitcode::serialize(&LogEntry::new(1, 2, mk_block(big(2, 2)))).unwrap().len(),
        bitcode::serialize(&RaftWalEntry::LogEntryFull { index: 2, term: 1, entry_data: bitcode::serialize(&LogEntry::new(1, 2, mk_block(big(2, 2)))).unwrap() }).unwrap().len(),
    ));
    rep.write(&args.out);
}
