//! C03 correspondence: a real `DistributedTxCoordinator` + 2–3 real `TxParticipant`s over real
//! `TensorStore`s, glued by a harness-owned append-only message pool, against the Lean model
//! (`drv_twopc`).  Every event is one protocol line executed on both sides; after every event the
//! answer (vote / error kind / new messages) and the full canonical state (pending txs with phases
//! and votes, per shard: prepared set with undo images, lock table, tx_locks, full store contents,
//! decision / applied / discarded histories) are compared.
//!
//! Monitors = the theorems' statements evaluated on the REAL objects' return values and stores:
//!   tensor_chain.2pc/decision_changed        a tx got both a commit and an abort decision
//!   tensor_chain.2pc/commit_without_all_yes  coordinator.commit() succeeded without a YES from every participant
//!   tensor_chain.2pc/applied_without_commit  participant.commit() applied writes of a tx never decided commit
//!   tensor_chain.2pc/split_outcome           one shard applied, another shard discarded its prepared entry
//!   tensor_chain.2pc/abort_changed_shard     an event other than an applying commit delivery changed a shard's data
//!   tensor_chain.2pc/commit_wrong_writes     an applying commit delivery produced something else than the tx's ops
//!   tensor_chain.distributed_tx.participant/finished_tx_prepare_takes_lock
//!                                            a PREPARE for a tx already finished on the shard moved the lock of a key held by another tx
//!   tensor_chain.distributed_tx.participant/prepare_takes_lock_of_other_tx   same, the preparing tx not finished there
//!   tensor_chain.distributed_tx.participant/prepared_tx_without_its_lock     a prepared tx does not hold (tx id + handle) the lock of one of its keys
//!   tensor_chain.distributed_tx.participant/committed_write_lost  a shard no longer holds initial data + the applied writes of commit-decided txs
//!   tensor_chain.distributed_tx.participant/shards_split          … while another shard still shows the same tx's writes
//!   tensor_chain.distributed_tx.participant/prepared_together_on_shared_key  two txs are prepared on one shard although an operation of one
//!                                            and an operation of the other share a logical / storage / write key
//!   tensor_chain.distributed_tx.participant/abort_undoes_commit_via_storage_key_alias
//!                                            (regression oracle of 3e4ef1c8) an ABORT delivery changed a storage key that the aborted tx holds an
//!                                            undo image of and that a commit-decided tx wrote under a DIFFERENT logical key
//!   tensor_chain.distributed_tx.coordinator/record_vote_phase3_overwrites_decided_phase
//!                                            (regression oracle of f07ecb9a, two real threads) phase 3 of record_vote answered Prepared for a tx that
//!                                            another thread had moved to Aborting between the two critical sections
//!   tensor_chain.distributed_tx.coordinator/wal_restart_restores_abort_decided_tx
//!                                            (WAL-backed coordinator, `wrestart`) recover_from_wal() put a transaction whose ABORT was
//!                                            announced before the crash into `pending` in a phase other than Aborting
//!   tensor_chain.distributed_tx.coordinator/wal_restart_commits_abort_decided_tx | wal_restart_aborts_commit_decided_tx
//!                                            after crash + recover_from_wal() + recover(), get_pending_decisions contradicts a decision
//!                                            announced before the crash
//!   tensor_chain.distributed_tx.coordinator/wal_restart_restores_commit_decided_tx_as_aborting
//!   tensor_chain.distributed_tx.coordinator/{timeout,vote,cross_shard,}_abort_not_sent_to_prepared_participant
//!                                            (`settle`: every ABORT in the pool of a transaction whose only decision is abort was delivered) a
//!                                            participant is still in get_awaiting_decision / named in the lock table and no ABORT addressed to it exists
//!   tensor_chain.distributed_tx.participant/abort_delivered_but_tx_still_prepared   same, but an ABORT addressed to it was delivered
//!   tensor_chain.distributed_tx.coordinator/aborted_tx_blocks_later_tx_abort_never_sent | participant/aborted_tx_blocks_later_tx_after_abort_delivery
//!                                            a PREPARE was refused with CONFLICT naming a transaction whose only decision is abort and to whose
//!                                            participant no ABORT was ever addressed / an ABORT was delivered after its last PREPARE there
//! Timeout aborts.  `directed_timeout_abort()` (run first) is the history "T0's PREPARE reaches every shard, one YES vote is delayed past the
//! coordinator's timeout / lost / delivered after the abort deliveries; sweep; `settle`; a loss-free T1 on the same keys must commit everywhere"
//! in its variants over 2 and 3 shards, written against the real pool (`Script`); `timeout-abort-schedules` draws the same shape at random,
//! and every random schedule of the other streams ends with `settle` (Lean: Settle.lean, PropsSettle.lean).
//! After a model-vs-implementation disagreement, and after a first monitor hit, the rest of the script
//! still runs on the REAL objects with every monitor armed (each class is reported once per script).
//!
//! Late duplicates.  `directed_late()` (run first) is the history "T0 prepared on shard 0 and finished
//! there; T1 prepares the same key; a delayed duplicate PREPARE(T0) arrives while T1 is prepared; T1
//! commits everywhere; a re-sent ABORT(T0) / the participant's stale cleanup runs" in its variants;
//! the stream `late-duplicates` draws random schedules over 1–2 keys in which PREPARE/COMMIT/ABORT
//! messages of transactions already FINISHED on the addressed shard are re-delivered late, between
//! the steps of later transactions on the same keys and after their commits.
//!
//! WAL.  In the streams `directed-wal`, `wal-restart-schedules` and `wal-observations` (`Setup::wal`) the coordinator is built
//! `.with_wal(TxWal::open(<tmpfs file>))`; the records `TxWal::replay` reads back are part of the dump compared after every
//! event (`dumpw`, Lean `Wal.lean`: what each coordinator call appends), and `wrestart` is the event "the coordinator process
//! crashes; a new process opens the same log, recover_from_wal() + recover(), every pending decision is re-sent".  All
//! monitors stay armed across it; the model tags a `wrestart` `!outside` only when its log disagrees with an announced
//! decision (on the code as it is: after the unlogged timeout abort of a PREPARED entry — replayed as an observation).
//! `directed_wal()` (run first) starts from the shortest history in which "restore only what the LOG says is Prepared" is the
//! only thing between a restart and a changed decision (timeout fires before the last vote; the late YES is rejected but
//! logged); the random stream biases towards that shape (`wal.restart.after_abort_of_tx_with_a_logged_yes_from_every_participant`).
//! A restored entry is a `DistributedTransaction::new` (deadline 5000 ms after the restart): on the virtual clock its
//! `begun_at` is the restart and its limit 0 units; every virtual-clock reload of the coordinator re-opens the log.
//!
//! Time.  The code reads the wall clock.  Coordinator timeouts are driven on a virtual clock
//! (1 unit = 1 h): before every sweep the coordinator is round-tripped through its public
//! persistence API (`to_state` → bitcode → `load_from_store`) with each pending tx's `started_at`
//! set to `real_now - elapsed_units * 1h`; `prepare_timeout_ms = T*1h + 30min`, so the real
//! `is_timed_out` decides exactly `elapsed > T`.  A second small stream uses the untouched wall clock
//! (1 ms timeout + 3 ms sleeps).  Participant lock ageing (outside the property's alphabet) is only
//! used by the two witness replays, through `ParticipantState` / `load_from_store`.
use nverif::*;
use serde_json::json;
use std::collections::{BTreeMap, HashMap, HashSet};
use std::time::{Duration, SystemTime, UNIX_EPOCH};
use tensor_chain::block::Transaction;
use tensor_chain::consensus::{ConsensusConfig, ConsensusManager, DeltaVector};
use tensor_chain::distributed_tx::{
    verif_clock, CoordinatorState, DistributedTransaction, DistributedTxConfig, DistributedTxCoordinator, ParticipantState, PrepareRequest,
    PrepareVote, SerializableLockState, TxParticipant, TxPhase, UndoEntry, VoteRecordError,
};
use tensor_chain::tx_wal::{PrepareVoteKind, TxWal, TxWalEntry};
use tensor_store::{ScalarValue, SparseVector, TensorData, TensorStore, TensorValue};

const UNIT: u64 = 3_600_000;

fn now_ms() -> u64 {
    SystemTime::now().duration_since(UNIX_EPOCH).unwrap_or_default().as_millis() as u64
}
/// Key strings <-> key numbers (the convention of `TwoPC/Model.lean`): `k<n>` = n (n < 10000),
/// "emb:"+name = 10000+n, "node:"+name = 20000+n, "table:"+name = 30000+n,
/// "table:k<t>:row:<r>" = 40000+100t+r, "edge:k<f>:k<t>:k<y>" = 50000+100f+10t+y.
fn kname(k: u64) -> String {
    match k {
        0..=9_999 => format!("k{k}"),
        10_000..=19_999 => format!("emb:{}", kname(k - 10_000)),
        20_000..=29_999 => format!("node:{}", kname(k - 20_000)),
        30_000..=39_999 => format!("table:{}", kname(k - 30_000)),
        40_000..=49_999 => format!("table:k{}:row:{}", (k - 40_000) / 100, (k - 40_000) % 100),
        _ => format!("edge:k{}:k{}:k{}", (k - 50_000) / 100, (k - 50_000) / 10 % 10, (k - 50_000) % 10),
    }
}
fn kid(s: &str) -> u64 {
    let raw = |x: &str| x.strip_prefix('k').and_then(|n| n.parse::<u64>().ok()).filter(|n| *n < 10_000);
    if let Some(n) = raw(s) {
        return n;
    }
    if let Some(r) = s.strip_prefix("emb:") {
        return raw(r).map_or(999_999, |n| 10_000 + n);
    }
    if let Some(r) = s.strip_prefix("node:") {
        return raw(r).map_or(999_999, |n| 20_000 + n);
    }
    if let Some(r) = s.strip_prefix("table:") {
        if let Some((t, row)) = r.split_once(":row:") {
            return match (raw(t), row.parse::<u64>()) {
                (Some(t), Ok(row)) if t < 100 && row < 100 => 40_000 + 100 * t + row,
                _ => 999_999,
            };
        }
        return raw(r).map_or(999_999, |n| 30_000 + n);
    }
    if let Some(r) = s.strip_prefix("edge:") {
        let p: Vec<Option<u64>> = r.split(':').map(raw).collect();
        if let [Some(f), Some(t), Some(y)] = p[..] {
            if f < 100 && t < 10 && y < 10 {
                return 50_000 + 100 * f + 10 * t + y;
            }
        }
    }
    999_999
}
fn dotted(v: &[u64]) -> String {
    v.iter().map(|x| x.to_string()).collect::<Vec<_>>().join(".")
}
/// canonical text of a stored value = `showVal` of the model: which field carries the payload
fn val_of(t: &TensorData) -> String {
    let byte = |f: &str| match t.get(f) {
        Some(TensorValue::Scalar(ScalarValue::Bytes(b))) if b.len() == 1 => Some(u64::from(b[0])),
        _ => None,
    };
    if let Some(v) = byte("data") {
        return v.to_string();
    }
    if let Some(TensorValue::Vector(v)) = t.get("vector") {
        return format!("vec:{}", v.first().map_or(999_999, |x| *x as u64));
    }
    if let Some(TensorValue::Scalar(ScalarValue::String(l))) = t.get("_label") {
        return format!("node:{}", l.trim_start_matches('L'));
    }
    if t.get("_from").is_some() && t.get("_to").is_some() {
        return "edge".into();
    }
    if let Some(v) = byte("values") {
        return match t.get("row_id") {
            Some(TensorValue::Scalar(ScalarValue::Int(r))) => format!("row:{r}:{v}"),
            _ => format!("rows:{v}"),
        };
    }
    "?".into()
}
fn tensor_of(v: u64) -> TensorData {
    let mut t = TensorData::new();
    t.set("data", TensorValue::Scalar(ScalarValue::Bytes(vec![v as u8])));
    t
}
fn emb_vec(e: u64) -> SparseVector {
    let mut d = vec![0.0f32; 3];
    if (1..=3).contains(&e) {
        d[(e - 1) as usize] = 1.0;
    }
    SparseVector::from_dense(&d)
}

#[derive(Clone, Debug, PartialEq)]
enum Op {
    Put(u64, u64),
    Del(u64),
    Embed(u64, u64),
    NodeCreate(u64, u64),
    NodeDelete(u64),
    EdgeCreate(u64, u64, u64),
    TableInsert(u64, u64),
    TableUpdate(u64, u64, u64),
    TableDelete(u64, u64),
    Cas(u64, Option<u64>, u64),
}
impl Op {
    /// the logical key = the REAL `Transaction::affected_key` (what `prepare` locks)
    fn key(&self) -> u64 {
        kid(self.real().affected_key())
    }
    /// the REAL `Transaction::storage_key` (what `prepare` captures the undo image of)
    fn undo_key(&self) -> u64 {
        kid(&self.real().storage_key())
    }
    /// the key `apply_operations` writes (harness mirror of `Transaction::write_key`, deliberately not taken from
    /// the code so that the harness also builds against a tree without it; checked by the per-commit store comparison)
    fn write_key(&self) -> u64 {
        match self {
            Op::TableUpdate(t, r, _) | Op::TableDelete(t, r) => 40_000 + 100 * t + r,
            _ => self.undo_key(),
        }
    }
    fn show(&self) -> String {
        match self {
            Op::Put(k, v) => format!("p{k}={v}"),
            Op::Del(k) => format!("d{k}"),
            Op::Embed(k, v) => format!("e{k}={v}"),
            Op::NodeCreate(k, l) => format!("n{k}={l}"),
            Op::NodeDelete(k) => format!("N{k}"),
            Op::EdgeCreate(f, t, y) => format!("g{f}.{t}.{y}"),
            Op::TableInsert(t, v) => format!("i{t}={v}"),
            Op::TableUpdate(t, r, v) => format!("u{t}.{r}={v}"),
            Op::TableDelete(t, r) => format!("U{t}.{r}"),
            Op::Cas(k, e, v) => format!("c{k}?{}={v}", e.map_or("_".to_string(), |x| x.to_string())),
        }
    }
    fn real(&self) -> Transaction {
        match self {
            Op::Put(k, v) => Transaction::Put { key: kname(*k), data: vec![*v as u8] },
            Op::Del(k) => Transaction::Delete { key: kname(*k) },
            Op::Embed(k, v) => Transaction::Embed { key: kname(*k), vector: vec![*v as f32] },
            Op::NodeCreate(k, l) => Transaction::NodeCreate { key: kname(*k), label: format!("L{l}") },
            Op::NodeDelete(k) => Transaction::NodeDelete { key: kname(*k) },
            Op::EdgeCreate(f, t, y) => Transaction::EdgeCreate { from: kname(*f), to: kname(*t), edge_type: kname(*y) },
            Op::TableInsert(t, v) => Transaction::TableInsert { table: kname(*t), values: vec![*v as u8] },
            Op::TableUpdate(t, r, v) => Transaction::TableUpdate { table: kname(*t), row_id: *r, values: vec![*v as u8] },
            Op::TableDelete(t, r) => Transaction::TableDelete { table: kname(*t), row_id: *r },
            Op::Cas(k, e, v) => Transaction::CompareAndSwap {
                key: kname(*k),
                expected_data: e.map_or(vec![], |x| vec![x as u8]),
                new_data: vec![*v as u8],
            },
        }
    }
    fn of_real(t: &Transaction) -> Option<Op> {
        let b = |d: &Vec<u8>| u64::from(d.first().copied().unwrap_or(0));
        Some(match t {
            Transaction::Put { key, data } => Op::Put(kid(key), b(data)),
            Transaction::Delete { key } => Op::Del(kid(key)),
            Transaction::Embed { key, vector } => Op::Embed(kid(key), vector.first().map_or(0, |x| *x as u64)),
            Transaction::NodeCreate { key, label } => Op::NodeCreate(kid(key), label.trim_start_matches('L').parse().unwrap_or(999_999)),
            Transaction::NodeDelete { key } => Op::NodeDelete(kid(key)),
            Transaction::EdgeCreate { from, to, edge_type } => Op::EdgeCreate(kid(from), kid(to), kid(edge_type)),
            Transaction::TableInsert { table, values } => Op::TableInsert(kid(table), b(values)),
            Transaction::TableUpdate { table, row_id, values } => Op::TableUpdate(kid(table), *row_id, b(values)),
            Transaction::TableDelete { table, row_id } => Op::TableDelete(kid(table), *row_id),
            Transaction::CompareAndSwap { key, expected_data, new_data } => {
                Op::Cas(kid(key), expected_data.first().map(|x| u64::from(*x)), b(new_data))
            },
            _ => return None,
        })
    }
    /// the oracle's own account of what `apply_operations` must do to a shard (key number -> value text)
    fn apply_to(&self, m: &mut BTreeMap<u64, String>) {
        let wk = self.write_key();
        match self {
            Op::Put(_, v) => {
                m.insert(wk, v.to_string());
            },
            Op::Del(_) | Op::NodeDelete(_) | Op::TableDelete(..) => {
                m.remove(&wk);
            },
            Op::Embed(_, v) => {
                m.insert(wk, format!("vec:{v}"));
            },
            Op::NodeCreate(_, l) => {
                m.insert(wk, format!("node:{l}"));
            },
            Op::EdgeCreate(..) => {
                m.insert(wk, "edge".into());
            },
            Op::TableInsert(_, v) => {
                m.insert(wk, format!("rows:{v}"));
            },
            Op::TableUpdate(_, r, v) => {
                m.insert(wk, format!("row:{r}:{v}"));
            },
            Op::Cas(_, e, v) => {
                // current `data` bytes: a plain number text; every other shape has no `data` field
                let cur = m.get(&wk).and_then(|x| x.parse::<u64>().ok());
                if cur == *e {
                    m.insert(wk, v.to_string());
                }
            },
        }
    }
}
fn show_ops(ops: &[Op]) -> String {
    if ops.is_empty() {
        "-".into()
    } else {
        ops.iter().map(Op::show).collect::<Vec<_>>().join("+")
    }
}
fn parse_op(o: &str) -> Option<Op> {
    let kv = |r: &str| -> Option<(u64, u64)> {
        let (k, v) = r.split_once('=')?;
        Some((k.parse().ok()?, v.parse().ok()?))
    };
    let (head, r) = o.split_at(1.min(o.len()));
    match head {
        "p" => kv(r).map(|(k, v)| Op::Put(k, v)),
        "d" => r.parse().ok().map(Op::Del),
        "e" => kv(r).map(|(k, v)| Op::Embed(k, v)),
        "n" => kv(r).map(|(k, v)| Op::NodeCreate(k, v)),
        "N" => r.parse().ok().map(Op::NodeDelete),
        "g" => {
            let p: Vec<u64> = r.split('.').filter_map(|x| x.parse().ok()).collect();
            (p.len() == 3).then(|| Op::EdgeCreate(p[0], p[1], p[2]))
        },
        "i" => kv(r).map(|(k, v)| Op::TableInsert(k, v)),
        "u" => {
            let (tr, v) = r.split_once('=')?;
            let (t, row) = tr.split_once('.')?;
            Some(Op::TableUpdate(t.parse().ok()?, row.parse().ok()?, v.parse().ok()?))
        },
        "U" => {
            let (t, row) = r.split_once('.')?;
            Some(Op::TableDelete(t.parse().ok()?, row.parse().ok()?))
        },
        "c" => {
            let (k, ev) = r.split_once('?')?;
            let (e, v) = ev.split_once('=')?;
            let e = if e == "_" { None } else { Some(e.parse().ok()?) };
            Some(Op::Cas(k.parse().ok()?, e, v.parse().ok()?))
        },
        _ => None,
    }
}
fn parse_ops(s: &str) -> Vec<Op> {
    if s == "-" {
        return vec![];
    }
    s.split('+').filter_map(parse_op).collect()
}
fn show_real_ops(ops: &[Transaction]) -> String {
    if ops.is_empty() {
        return "-".into();
    }
    ops.iter().map(|t| Op::of_real(t).map_or("?".to_string(), |o| o.show())).collect::<Vec<_>>().join("+")
}

struct TxInfo {
    real: u64,
    shards: Vec<usize>,
    ops: Vec<Vec<Op>>,
    embs: Vec<u64>,
    /// virtual time the pending entry's `started_at` stands for (the `begin`; after a WAL restart: the restart)
    begun_at: u64,
    /// its timeout in clock units (`t_units`; 0 for an entry restored from the WAL: `timeout_ms` = 5000 < 1 unit)
    limit: u64,
}
impl TxInfo {
    fn pos(&self, sh: usize) -> Option<usize> {
        self.shards.iter().position(|&s| s == sh)
    }
}

#[derive(Clone)]
enum RMsg {
    Prepare { tx: usize, sh: usize },
    Vote { tx: usize, sh: usize, vote: PrepareVote, forged: bool },
    Commit { tx: usize, sh: usize },
    Abort { tx: usize, sh: usize },
}

/// one call of the coordinator's abort-acknowledgement bookkeeping (replayed after a virtual-clock reload, which
/// builds a new coordinator object: `abort_states` is not part of the persisted state)
#[derive(Clone)]
enum AckOp {
    Track(u64, Vec<usize>, u64),
    Ack(u64, usize),
    Retry(u64),
}
/// what the HARNESS knows about one tracked abort broadcast (from the calls it made, not from the coordinator)
struct TrackedAbort {
    shards: Vec<usize>,
    acked: HashSet<usize>,
    at: u64,
    resent: u32,
}
/// the ack layer's clock starts here (ms)
const ACK_BASE: u64 = 1_000_000_000;
const FORGOTTEN: &str = "tensor_chain.distributed_tx.coordinator/abort_forgotten_before_all_acks";

struct Violation {
    class: &'static str,
    what: String,
}

struct Real {
    cfg: DistributedTxConfig,
    coord: DistributedTxCoordinator,
    stores: Vec<TensorStore>,
    parts: Vec<TxParticipant>,
    pool: Vec<RMsg>,
    txs: Vec<TxInfo>,
    by_real: HashMap<u64, usize>,
    handles: Vec<u64>,
    forged: HashMap<u64, u64>,
    clock: u64,
    t_units: u64,
    wallclock: bool,
    age_parts: bool,
    decided: Vec<(usize, bool)>,
    applied: Vec<(usize, usize)>,
    discarded: Vec<(usize, usize)>,
    reasons: Vec<(usize, String)>,
    votes_cast: HashMap<(usize, usize), Vec<bool>>,
    /// (tx, shard, yes?) of every answer a real participant's `prepare` produced, in order
    cast: Vec<(usize, usize, bool)>,
    /// a YES was forged in the name of a real participant (coordinator-unit stream only; never inside the alphabet)
    forged_participant_yes: bool,
    viol: Vec<Violation>,
    hits: Vec<String>,
    /// what each shard must hold: preloaded data + the applied writes of commit-decided txs, in application order
    expect: Vec<BTreeMap<u64, String>>,
    /// per shard and key: the commit-decided tx whose applied operation produced `expect`'s entry (or absence)
    writer: Vec<BTreeMap<u64, usize>>,
    /// where `save_to_store` puts the coordinator's checkpoint (`ckpt`), read back by `crestore`
    ckpt_store: Option<TensorStore>,
    /// canonical text of the checkpoint in `ckpt_store` (read back from the store when it is written)
    ckpt_shown: Option<String>,
    /// the store the virtual-clock reloads go through (one per system, reused)
    scratch: Option<TensorStore>,
    /// WAL-backed coordinator (Wal.lean): the directory and the path of its `TxWal` file
    wal: Option<(tempfile::TempDir, std::path::PathBuf)>,
    /// (tx, shard) of every YES vote handed to `record_vote` (what the WAL holds as `PrepareVote::Yes`)
    yes_handed: HashSet<(usize, usize)>,
    /// (tx, shard): an ABORT(tx) was delivered to the shard after the last PREPARE(tx) delivered there
    abort_after_prepare: HashSet<(usize, usize)>,
    /// Ack.lean: the ack layer's clock (ms; `track_abort` / `get_retry_aborts` read it through `verif_clock`)
    ack_now: u64,
    ack_log: Vec<AckOp>,
    tracked: BTreeMap<usize, TrackedAbort>,
    /// (tx, shard): the shard was a recipient of a tracked abort broadcast of the transaction (since the last crash)
    tracked_pairs: HashSet<(usize, usize)>,
    /// (tx, shard): an ABORT(tx) was delivered to the shard
    told: HashSet<(usize, usize)>,
}

fn mk_coord(cfg: &DistributedTxConfig) -> DistributedTxCoordinator {
    DistributedTxCoordinator::new(ConsensusManager::new(ConsensusConfig::default()), cfg.clone())
}
/// a coordinator process on the WAL file at `path` (opened for append; an existing log is kept)
fn attach_wal(c: DistributedTxCoordinator, path: &std::path::Path) -> DistributedTxCoordinator {
    c.with_wal(TxWal::open(path).expect("open the coordinator's WAL"))
}
fn wal_dir() -> tempfile::TempDir {
    if std::path::Path::new("/dev/shm").is_dir() {
        tempfile::tempdir_in("/dev/shm").unwrap()
    } else {
        tempfile::tempdir().unwrap()
    }
}
/// forged lock handles live above `lock_handle_high_water_threshold()`: `recover_from_wal` ignores such handles
/// when it moves the process-wide handle counter past the logged ones, so real handles never run into them
const FORGED_BASE: u64 = u64::MAX - (1 << 40);

impl Real {
    fn for_setup(setup: &Setup) -> Real {
        Real::new(setup.n, setup.t_units, setup.maxc, setup.wallclock, setup.age_parts, setup.wal)
    }
    fn new(n: usize, t_units: u64, maxc: usize, wallclock: bool, age_parts: bool, with_wal: bool) -> Real {
        let cfg = DistributedTxConfig {
            prepare_timeout_ms: if wallclock { 1 } else { t_units * UNIT + UNIT / 2 },
            max_concurrent: maxc,
            ..DistributedTxConfig::default()
        };
        let stores: Vec<TensorStore> = (0..n).map(|_| TensorStore::new()).collect();
        let parts = stores.iter().map(|s| TxParticipant::new(s.clone())).collect();
        let wal = with_wal.then(|| {
            let d = wal_dir();
            let p = d.path().join("tx.wal");
            (d, p)
        });
        Real {
            coord: match &wal {
                Some((_, p)) => attach_wal(mk_coord(&cfg), p),
                None => mk_coord(&cfg),
            },
            cfg,
            stores,
            parts,
            pool: vec![],
            txs: vec![],
            by_real: HashMap::new(),
            handles: vec![],
            forged: HashMap::new(),
            clock: 0,
            t_units,
            wallclock,
            age_parts,
            decided: vec![],
            applied: vec![],
            discarded: vec![],
            reasons: vec![],
            votes_cast: HashMap::new(),
            cast: vec![],
            forged_participant_yes: false,
            viol: vec![],
            hits: vec![],
            expect: vec![BTreeMap::new(); n],
            writer: vec![BTreeMap::new(); n],
            ckpt_store: None, // created by the first `ckpt` (a TensorStore is not cheap to build)
            ckpt_shown: None,
            scratch: None,
            wal,
            yes_handed: HashSet::new(),
            abort_after_prepare: HashSet::new(),
            ack_now: ACK_BASE,
            ack_log: vec![],
            tracked: BTreeMap::new(),
            tracked_pairs: HashSet::new(),
            told: HashSet::new(),
        }
    }
    /// canonical text of the coordinator's log as `TxWal::replay` reads it back (`showWalEntry` of the driver; the
    /// `LockRelease` records of one commit come in `HashMap` order: each run is sorted by handle)
    fn show_wal(&self) -> String {
        let Some((_, path)) = &self.wal else { return String::new() };
        let entries = TxWal::open(path).and_then(|w| w.replay()).expect("the coordinator's WAL replays");
        let mut out: Vec<String> = vec![];
        let mut run: Vec<(u64, String)> = vec![];
        for e in &entries {
            if let TxWalEntry::LockRelease { tx_id, lock_handle } = e {
                let h = self.hlookup(*lock_handle);
                run.push((h, format!("L{}.{}", self.dense(*tx_id), h)));
                continue;
            }
            run.sort();
            out.extend(run.drain(..).map(|x| x.1));
            out.push(match e {
                TxWalEntry::TxBegin { tx_id, participants } => {
                    format!("B{}:{}", self.dense(*tx_id), dotted(&participants.iter().map(|&p| p as u64).collect::<Vec<_>>()))
                },
                TxWalEntry::PrepareVote { tx_id, shard, vote } => format!(
                    "V{}.{}.{}",
                    self.dense(*tx_id),
                    shard,
                    match vote {
                        PrepareVoteKind::Yes { lock_handle } => format!("y{}", self.hlookup(*lock_handle)),
                        _ => "n".to_string(),
                    }
                ),
                TxWalEntry::PhaseChange { tx_id, to, .. } => format!("P{}.{}", self.dense(*tx_id), format!("{to:?}").to_lowercase()),
                TxWalEntry::TxComplete { tx_id, .. } => format!("X{}", self.dense(*tx_id)),
                TxWalEntry::AllLocksReleased { tx_id } => format!("R{}", self.dense(*tx_id)),
                other => format!("?{}", format!("{other:?}").chars().take_while(|c| c.is_alphanumeric()).collect::<String>()),
            });
        }
        run.sort();
        out.extend(run.drain(..).map(|x| x.1));
        out.join(" ")
    }
    /// key -> (dense tx, real handle) of the shard's lock table
    fn holders(&self, sh: usize) -> BTreeMap<u64, (u64, u64)> {
        let st = self.parts[sh].to_state();
        st.lock_state.locks().iter().map(|(k, l)| (kid(k), (self.dense(l.tx_id), l.lock_handle))).collect()
    }
    /// the participant applied or discarded `tx` earlier and keeps no prepared record of it
    fn finished_on(&self, sh: usize, tx: usize) -> bool {
        sh < self.parts.len()
            && (self.applied.contains(&(sh, tx)) || self.discarded.contains(&(sh, tx)))
            && !self.parts[sh].get_awaiting_decision().contains(&self.txs[tx].real)
    }
    /// the lock set of `tx` on `sh`: logical, storage and write key of every operation
    fn keys_of(&self, tx: usize, sh: usize) -> Vec<u64> {
        self.txs[tx].pos(sh).map_or(vec![], |p| self.txs[tx].ops[p].iter().flat_map(|o| [o.key(), o.undo_key(), o.write_key()]).collect())
    }
    /// Regression oracle of 3e4ef1c8, evaluated on an ABORT delivery of `tx` to `sh` that changed the shard:
    /// a changed key that `tx` holds an undo image of (storage key of one of its operations) and whose current
    /// content was written by a commit-decided OTHER tx through an operation with a different logical key.
    fn alias_rollback(&self, tx: usize, sh: usize, before: &BTreeMap<u64, String>, after: &BTreeMap<u64, String>) -> Option<String> {
        let p = self.txs[tx].pos(sh)?;
        for mine in &self.txs[tx].ops[p] {
            let k = mine.undo_key();
            if before.get(&k) == after.get(&k) {
                continue;
            }
            let Some(&w) = self.writer[sh].get(&k) else { continue };
            if w == tx {
                continue;
            }
            let Some(pw) = self.txs[w].pos(sh) else { continue };
            if let Some(theirs) = self.txs[w].ops[pw].iter().find(|o| o.write_key() == k && o.key() != mine.key()) {
                let show = |v: Option<&String>| v.map_or("absent".to_string(), |x| x.to_string());
                return Some(format!(
                    "ABORT(tx {tx}) on shard {sh} changed {} from {} to {}: tx {tx} holds its undo image through `{}` (logical key {}), the commit-decided tx {w} wrote it through `{}` (logical key {}); the two were prepared together",
                    kname(k), show(before.get(&k)), show(after.get(&k)), mine.show(), kname(mine.key()), theirs.show(), kname(theirs.key())
                ));
            }
        }
        None
    }
    /// storage keys `tx` writes on `sh`
    fn wkeys_of(&self, tx: usize, sh: usize) -> Vec<u64> {
        self.txs[tx].pos(sh).map_or(vec![], |p| self.txs[tx].ops[p].iter().map(Op::write_key).collect())
    }
    /// some OTHER tx applied an operation on one of the storage keys `tx` holds an undo image of on this shard
    fn overlapping_commit_applied(&self, sh: usize, tx: usize) -> bool {
        let ks: Vec<u64> = self.txs[tx].pos(sh).map_or(vec![], |p| self.txs[tx].ops[p].iter().map(Op::undo_key).collect());
        self.applied.iter().any(|&(s2, t2)| s2 == sh && t2 != tx && self.wkeys_of(t2, sh).iter().any(|k| ks.contains(k)))
    }
    fn dense(&self, real: u64) -> u64 {
        if (0xDEAD_0000_0000..0xDEAD_0000_0000 + 1_000_000).contains(&real) {
            return real - 0xDEAD_0000_0000; // a never-begun tx id named by the script
        }
        self.by_real.get(&real).map_or(999_999, |&d| d as u64)
    }
    fn hdense(&mut self, real: u64) -> u64 {
        if let Some(i) = self.handles.iter().position(|&x| x == real) {
            return i as u64;
        }
        self.handles.push(real);
        (self.handles.len() - 1) as u64
    }
    fn hlookup(&self, real: u64) -> u64 {
        if let Some(h) = self.forged.get(&real) {
            return *h;
        }
        self.handles.iter().position(|&x| x == real).map_or(999_999, |i| i as u64)
    }
    fn real_tx(&self, tx: usize) -> u64 {
        // a tx id that was never begun maps to an id the coordinator has never seen
        self.txs.get(tx).map_or(0xDEAD_0000_0000 + tx as u64, |t| t.real)
    }
    fn show_vote(&self, v: &PrepareVote) -> String {
        match v {
            PrepareVote::Yes { lock_handle, delta } => {
                let mut ks: Vec<u64> = delta.affected_keys.iter().map(|k| kid(k)).collect();
                ks.sort_unstable();
                format!("y{}:{}", self.hlookup(*lock_handle), dotted(&ks))
            },
            PrepareVote::No { .. } => "n".into(),
            PrepareVote::Conflict { conflicting_tx, .. } => format!("c{}", self.dense(*conflicting_tx)),
            _ => "?".into(),
        }
    }
    fn show_msg(&self, m: &RMsg) -> String {
        match m {
            RMsg::Prepare { tx, sh } => {
                let t = &self.txs[*tx];
                let ops = t.pos(*sh).map_or_else(|| "-".to_string(), |p| show_ops(&t.ops[p]));
                format!("P{tx}.{sh}[{ops}]")
            },
            RMsg::Vote { tx, sh, vote, .. } => format!("V{tx}.{sh}.{}", self.show_vote(vote)),
            RMsg::Commit { tx, sh } => format!("C{tx}.{sh}"),
            RMsg::Abort { tx, sh } => format!("A{tx}.{sh}"),
        }
    }
    fn snapshot(&self, sh: usize) -> BTreeMap<u64, String> {
        let mut m = BTreeMap::new();
        // one pass per key prefix in use over the store's entries (`scan` + `get` per key walks every
        // slab of the router and costs ~10x more; `scan("")` merges and sorts all shards)
        for prefix in ["k", "emb:", "node:", "table:", "edge:"] {
            for (k, v) in self.stores[sh].scan_filter_map(prefix, |k, t| Some((kid(k), val_of(t)))) {
                m.insert(k, v);
            }
        }
        m
    }
    /// the same through `scan` + `get` (the router's per-class read path); compared once per script
    fn snapshot_via_get(&self, sh: usize) -> BTreeMap<u64, String> {
        let mut m = BTreeMap::new();
        for prefix in ["k", "emb:", "node:", "table:", "edge:"] {
            for k in self.stores[sh].scan(prefix) {
                if let Ok(t) = self.stores[sh].get(&k) {
                    m.insert(kid(&k), val_of(&t));
                }
            }
        }
        m
    }
    fn snapshots(&self) -> Vec<BTreeMap<u64, String>> {
        (0..self.stores.len()).map(|i| self.snapshot(i)).collect()
    }
    fn show_undo(u: &UndoEntry) -> String {
        match u {
            UndoEntry::Restore { key, data } => {
                let v = bitcode::deserialize::<TensorData>(data).map_or("?".to_string(), |t| val_of(&t));
                format!("r{}={}", kid(key), v)
            },
            UndoEntry::Delete { key } => format!("x{}", kid(key)),
        }
    }
    /// canonical text of a pending map (`showTx` of the driver, sorted by dense tx id)
    fn show_pending(&self, pending: &HashMap<u64, DistributedTransaction>) -> String {
        let mut txs: Vec<(u64, String)> = pending
            .values()
            .map(|t| {
                let mut votes: Vec<(usize, String)> = t.votes.iter().map(|(s, v)| (*s, self.show_vote(v))).collect();
                votes.sort();
                let vs: Vec<String> = votes.iter().map(|(s, v)| format!("{s}={v}")).collect();
                let parts: Vec<u64> = t.participants.iter().map(|&p| p as u64).collect();
                let d = self.dense(t.tx_id);
                (d, format!("{}/{}/{}/{}", d, format!("{:?}", t.phase).to_lowercase(), dotted(&parts), vs.join(";")))
            })
            .collect();
        txs.sort();
        txs.into_iter().map(|x| x.1).collect::<Vec<_>>().join(",")
    }
    /// the `CoordinatorState` that `save_to_store` last wrote (`ckpt`)
    fn saved_state(&self) -> Option<CoordinatorState> {
        let data = self.ckpt_store.as_ref()?.get("_dtx:coordinator:n0:state").ok()?;
        match data.get("state") {
            Some(TensorValue::Scalar(ScalarValue::Bytes(bytes))) => bitcode::deserialize(bytes).ok(),
            _ => None,
        }
    }
    fn dump(&self) -> String {
        let st = self.coord.to_state();
        let c = self.show_pending(&st.pending);
        let mut ps = Vec::new();
        for (i, p) in self.parts.iter().enumerate() {
            let s = p.to_state();
            let mut prep: Vec<(u64, String)> = s
                .prepared
                .values()
                .map(|pt| {
                    let d = self.dense(pt.tx_id);
                    let undo: Vec<String> = pt.undo_log.iter().map(Real::show_undo).collect();
                    (d, format!("{}/{}/{}/{}", d, self.hlookup(pt.lock_handle), show_real_ops(&pt.operations), undo.join("+")))
                })
                .collect();
            prep.sort();
            let mut locks: Vec<(u64, String)> = s
                .lock_state
                .locks()
                .iter()
                .map(|(k, l)| (kid(k), format!("{}/{}/{}", kid(&l.key), self.dense(l.tx_id), self.hlookup(l.lock_handle))))
                .collect();
            locks.sort();
            let mut txl: Vec<(u64, String)> = s
                .lock_state
                .tx_locks()
                .iter()
                .map(|(t, ks)| {
                    let d = self.dense(*t);
                    (d, format!("{}/{}", d, dotted(&ks.iter().map(|k| kid(k)).collect::<Vec<_>>())))
                })
                .collect();
            txl.sort();
            let store: Vec<String> = self.snapshot(i).iter().map(|(k, v)| format!("{k}={v}")).collect();
            ps.push(format!(
                "S{}:prep[{}];locks[{}];txl[{}];store[{}]",
                i,
                prep.into_iter().map(|x| x.1).collect::<Vec<_>>().join(","),
                locks.into_iter().map(|x| x.1).collect::<Vec<_>>().join(","),
                txl.into_iter().map(|x| x.1).collect::<Vec<_>>().join(","),
                store.join(",")
            ));
        }
        let d: Vec<String> = self.decided.iter().map(|(t, c)| format!("{t}{}", if *c { "+" } else { "-" })).collect();
        let ap: Vec<String> = self.applied.iter().map(|(s, t)| format!("{s}/{t}")).collect();
        let di: Vec<String> = self.discarded.iter().map(|(s, t)| format!("{s}/{t}")).collect();
        let rs: Vec<String> = self.reasons.iter().map(|(t, r)| format!("{t}/{r}")).collect();
        // what each applying commit delivery was asked to write = the client's operations for that shard
        let ao: Vec<String> = self
            .applied
            .iter()
            .map(|(s, t)| {
                let tx = &self.txs[*t];
                format!("{s}/{t}/{}", tx.pos(*s).map_or_else(|| "-".to_string(), |p| show_ops(&tx.ops[p])))
            })
            .collect();
        let vc: Vec<String> = self.cast.iter().map(|(t, s, y)| format!("{t}/{s}/{}", if *y { "y" } else { "c" })).collect();
        let w = if self.wal.is_some() { format!("|W:{}", self.show_wal()) } else { String::new() };
        format!(
            "C:{}|PA:0|{}|M:{}|H:{}|D:{}|AP:{}|DI:{}|R:{}|AO:{}|VC:{}|K:{}{w}",
            c,
            ps.join("|"),
            self.pool.len(),
            self.handles.len(),
            d.join(","),
            ap.join(","),
            di.join(","),
            rs.join(","),
            ao.join(","),
            vc.join(","),
            self.ckpt_shown.as_ref().map_or("-".to_string(), |k| format!("[{k}]"))
        )
    }

    // ---- glue: pending aborts -> pool (called after every coordinator action)
    fn drain(&mut self) {
        let mut aborts = self.coord.take_pending_aborts();
        aborts.sort_by_key(|a| self.dense(a.0));
        for (tx, reason, shards) in aborts {
            let d = self.dense(tx) as usize;
            let r = match reason.as_str() {
                "conflict detected" => "conflict",
                "participant voted no" => "voted_no",
                "cross-shard conflict" => "cross_shard",
                "timeout" => "timeout",
                _ => "other",
            };
            self.reasons.push((d, r.to_string()));
            // what `process_pending_aborts` does next to sending: `track_abort(tx, shards)`
            verif_clock::set_now_ms(Some(self.ack_now));
            self.coord.track_abort(tx, shards.clone());
            verif_clock::set_now_ms(None);
            self.ack_log.push(AckOp::Track(tx, shards.clone(), self.ack_now));
            self.tracked_pairs.extend(shards.iter().map(|sh| (d, *sh)));
            self.tracked.insert(d, TrackedAbort { shards: shards.clone(), acked: HashSet::new(), at: self.ack_now, resent: 0 });
            for sh in shards {
                self.pool.push(RMsg::Abort { tx: d, sh });
            }
        }
    }
    /// the same `track_abort` / `handle_abort_ack` / `get_retry_aborts` calls, at the same clock values, on the new object
    fn replay_ack_log(&self) {
        for op in &self.ack_log {
            match op {
                AckOp::Track(tx, shards, at) => {
                    verif_clock::set_now_ms(Some(*at));
                    self.coord.track_abort(*tx, shards.clone());
                },
                AckOp::Ack(tx, sh) => {
                    self.coord.handle_abort_ack(*tx, *sh);
                },
                AckOp::Retry(at) => {
                    verif_clock::set_now_ms(Some(*at));
                    let _ = self.coord.get_retry_aborts();
                },
            }
        }
        verif_clock::set_now_ms(None);
    }
    /// a crash of the coordinator process: `abort_states` is gone (Driver: the ack layer's map is cleared)
    fn forget_ack_state(&mut self) {
        self.ack_log.clear();
        self.tracked.clear();
        self.tracked_pairs.clear();
    }
    fn outstanding(&self, tx: usize) -> Vec<usize> {
        self.tracked.get(&tx).map_or(vec![], |t| t.shards.iter().copied().filter(|s| !t.acked.contains(s)).collect())
    }
    /// `ack <tx> <sh>`: a TxAck(tx, sh) reaches the coordinator.
    /// ORACLE: `handle_abort_ack` answers "all acknowledged" (and drops the entry) only when every recipient of the
    /// tracked broadcast has been the subject of a `handle_abort_ack` call since it was tracked.
    fn ack(&mut self, tx: usize, sh: usize) -> String {
        let real = self.real_tx(tx);
        let all = self.coord.handle_abort_ack(real, sh);
        self.ack_log.push(AckOp::Ack(real, sh));
        let dup = self.tracked.get(&tx).is_some_and(|t| t.acked.contains(&sh));
        let known = self.tracked.get(&tx).is_some_and(|t| t.shards.contains(&sh));
        if let Some(t) = self.tracked.get_mut(&tx) {
            t.acked.insert(sh);
        }
        let out = self.outstanding(tx);
        self.hits.push(format!(
            "ack.{}.{}",
            if !self.tracked.contains_key(&tx) { "untracked" } else if dup { "duplicate" } else if known { "first" } else { "other_shard" },
            if all { "all_acknowledged" } else if out.len() == 1 { "one_outstanding" } else { "more_outstanding" }
        ));
        if all && !out.is_empty() {
            self.viol.push(Violation {
                class: FORGOTTEN,
                what: format!(
                    "handle_abort_ack(tx {tx}, shard {sh}) answered true (all acknowledged, entry dropped) although of the tracked abort broadcast to shards {:?} only {:?} have acknowledged: shards {out:?} are outstanding (ABORT delivered to them: {:?}); get_retry_aborts will never re-send the ABORT to them",
                    self.tracked[&tx].shards,
                    { let mut a: Vec<_> = self.tracked[&tx].acked.iter().copied().collect(); a.sort_unstable(); a },
                    out.iter().map(|s| self.told.contains(&(tx, *s))).collect::<Vec<_>>(),
                ),
            });
        }
        if all && out.is_empty() {
            self.tracked.remove(&tx);
        }
        format!("acked {}", all as u8)
    }
    /// `aretry <ms>`: the clock advances, `get_retry_aborts`, the ABORT is re-sent (joins the pool) to every shard returned.
    /// ORACLE: every tracked broadcast with an outstanding shard, fewer than 5 retries and an elapsed back-off
    /// (cumulative 1 s, 3 s, 7 s, 15 s, 31 s — the doc comment of `get_retry_aborts`) is returned with every outstanding shard.
    fn aretry(&mut self, d: u64) -> String {
        self.ack_now += d;
        verif_clock::set_now_ms(Some(self.ack_now));
        let r = self.coord.get_retry_aborts();
        verif_clock::set_now_ms(None);
        self.ack_log.push(AckOp::Retry(self.ack_now));
        let mut got: Vec<(usize, Vec<usize>)> = r.into_iter().map(|(t, mut s)| { s.sort_unstable(); (self.dense(t) as usize, s) }).collect();
        got.sort();
        let now = self.ack_now;
        let due: Vec<usize> = self.tracked.iter().filter(|(_, t)| t.resent < 5 && now - t.at >= ((1u64 << (t.resent + 1)) - 1) * 1000).map(|(d, _)| *d).collect();
        for t in due {
            let out = self.outstanding(t);
            let resent: Vec<usize> = got.iter().find(|g| g.0 == t).map_or(vec![], |g| g.1.clone());
            let missing: Vec<usize> = out.iter().copied().filter(|s| !resent.contains(s)).collect();
            if !missing.is_empty() {
                self.hits.push("aretry.outstanding_shard_not_resent".into());
                self.viol.push(Violation {
                    class: FORGOTTEN,
                    what: format!(
                        "get_retry_aborts() {} ms after the abort broadcast of tx {t} to shards {:?} (retry {} of 5) returned {got:?}: shards {missing:?} never acknowledged (no handle_abort_ack call for them) and the ABORT is not re-sent to them (ABORT delivered to them so far: {:?})",
                        now - self.tracked[&t].at,
                        self.tracked[&t].shards,
                        self.tracked[&t].resent + 1,
                        missing.iter().map(|s| self.told.contains(&(t, *s))).collect::<Vec<_>>(),
                    ),
                });
            }
            if let Some(tr) = self.tracked.get_mut(&t) {
                tr.resent += 1;
            }
        }
        self.hits.push(format!("aretry.{}", if got.is_empty() { "nothing" } else { "resent" }));
        let shown: Vec<String> = got.iter().map(|(t, s)| format!("{t}:{}", s.iter().map(|x| x.to_string()).collect::<Vec<_>>().join("."))).collect();
        for (t, shards) in &got {
            for &sh in shards {
                self.pool.push(RMsg::Abort { tx: *t, sh });
            }
        }
        format!("retry {}", if shown.is_empty() { "-".to_string() } else { shown.join(",") })
    }
    /// `asettle`: one round of the retry loop over a network that now delivers — `aretry 31000`, every RE-SENT abort is
    /// delivered and acknowledged; nothing else is delivered (an ABORT already in the pool and never delivered stays lost).
    /// ORACLE: afterwards no recipient of a tracked abort broadcast that no ABORT ever reached is still prepared for the
    /// transaction / named in the lock table.
    fn asettle(&mut self) -> String {
        let from = self.pool.len();
        self.exec("aretry 31000");
        let n = self.pool.len() - from;
        for i in from..from + n {
            if let RMsg::Abort { tx, sh } = self.pool[i].clone() {
                self.exec(&format!("deliver {i}"));
                if sh < self.parts.len() {
                    self.exec(&format!("ack {tx} {sh}"));
                }
            }
        }
        let targets: Vec<usize> = (0..self.txs.len()).filter(|&t| self.abort_only(t)).collect();
        let mut stuck: Vec<String> = vec![];
        for &t in &targets {
            for sh in self.txs[t].shards.clone() {
                if sh >= self.parts.len() {
                    continue;
                }
                let prepared = self.parts[sh].get_awaiting_decision().contains(&self.txs[t].real);
                let locked: Vec<String> = self.holders(sh).iter().filter(|(_, h)| h.0 == t as u64).map(|(k, _)| kname(*k)).collect();
                if !prepared && locked.is_empty() {
                    continue;
                }
                stuck.push(format!("{t}.{sh}"));
                let addressed = self.pool.iter().any(|m| matches!(m, RMsg::Abort { tx, sh: s2 } if *tx == t && *s2 == sh));
                // judged here: a recipient of a TRACKED broadcast (an `abort()` call's messages are not tracked by the glue)
                if addressed && self.tracked_pairs.contains(&(t, sh)) && !self.told.contains(&(t, sh)) {
                    self.hits.push("asettle.stuck.abort_lost_and_never_resent".into());
                    self.viol.push(Violation {
                        class: FORGOTTEN,
                        what: format!(
                            "tx {t} (participants {:?}) has the one decision ABORT; the ABORT addressed to shard {sh} was never delivered (lost) and shard {sh} never acknowledged; after the retry round (31 s later: get_retry_aborts, every re-sent ABORT delivered and acknowledged) shard {sh} {} and holds its locks on [{}]: the coordinator no longer tracks the abort",
                            self.txs[t].shards,
                            if prepared { "is still prepared for it (get_awaiting_decision)" } else { "keeps no prepared record" },
                            locked.join(","),
                        ),
                    });
                }
            }
        }
        self.hits.push(format!("asettle.{}", if stuck.is_empty() { "clean" } else { "stuck" }));
        format!("asettled {n} stuck {} |", if stuck.is_empty() { "-".to_string() } else { stuck.join(",") })
    }
    fn decide(&mut self, tx: usize, commit: bool) {
        self.decided.push((tx, commit));
        if self.decided.iter().any(|&(t, c)| t == tx && c != commit) {
            self.viol.push(Violation {
                class: "tensor_chain.2pc/decision_changed",
                what: format!("tx {tx} was decided both commit and abort: {:?}", self.decided),
            });
        }
    }
    /// Put the coordinator on the virtual clock (see module doc): a checkpoint / restore cycle of its present state.
    fn reload_coordinator(&mut self) {
        let st = self.coord.to_state();
        let before = self.show_pending(&st.pending);
        self.load_state(st);
        self.replay_ack_log();
        // `to_state` -> bitcode -> `load_from_store` reproduces the pending map (Lean: checkpoint_restore_keeps_pending)
        let after = self.show_pending(&self.coord.to_state().pending);
        if before != after {
            self.viol.push(Violation {
                class: "tensor_chain.distributed_tx.coordinator/restore_changes_pending",
                what: format!("a checkpoint / restore cycle of the coordinator changed its pending map from [{before}] to [{after}]"),
            });
        }
    }
    /// A new coordinator process that loads `st` through the public persistence API, every pending tx's
    /// `started_at` set so that the REAL clock shows the virtual elapsed time (see module doc).
    fn load_state(&mut self, mut st: CoordinatorState) {
        let now = now_ms();
        for (id, tx) in st.pending.iter_mut() {
            let begun = self.by_real.get(id).map_or(self.clock, |&d| self.txs[d].begun_at);
            tx.started_at = now - (self.clock - begun) * UNIT;
        }
        let scratch = self.scratch.get_or_insert_with(TensorStore::new);
        let bytes = bitcode::serialize(&st).expect("coordinator state serializes");
        let mut data = TensorData::new();
        data.set("state", TensorValue::Scalar(ScalarValue::Bytes(bytes)));
        scratch.put("_dtx:coordinator:n0:state", data).unwrap();
        let c = DistributedTxCoordinator::load_from_store(
            "n0",
            scratch,
            ConsensusManager::new(ConsensusConfig::default()),
            self.cfg.clone(),
        )
        .expect("coordinator state loads");
        // `with_state` builds the coordinator without a WAL: the restarted process re-opens its log
        self.coord = match &self.wal {
            Some((_, p)) => attach_wal(c, p),
            None => c,
        };
    }
    /// has the transaction's deadline passed on the virtual clock?
    fn past_deadline(&self, tx: usize) -> bool {
        self.txs.get(tx).is_some_and(|t| self.clock - t.begun_at > t.limit)
    }
    /// `get_pending_decisions`, dense ids, sorted
    fn pending_decisions(&self) -> Vec<(u64, TxPhase)> {
        let mut dec: Vec<(u64, TxPhase)> = self.coord.get_pending_decisions().into_iter().map(|(t, p)| (self.dense(t), p)).collect();
        dec.sort_by_key(|d| d.0);
        dec
    }
    /// Age every participant's locks / prepared entries by `d` units (witness replays only).
    fn age_participants(&mut self, d: u64) {
        for sh in 0..self.parts.len() {
            let st = self.parts[sh].to_state();
            let mut prepared = st.prepared.clone();
            for p in prepared.values_mut() {
                p.prepared_at_ms = p.prepared_at_ms.saturating_sub(d * UNIT);
            }
            let mut locks = st.lock_state.locks().clone();
            for l in locks.values_mut() {
                l.acquired_at_ms = l.acquired_at_ms.saturating_sub(d * UNIT);
            }
            let ls = SerializableLockState::new(locks, st.lock_state.tx_locks().clone(), st.lock_state.default_timeout_ms());
            let ps = ParticipantState { prepared, lock_state: ls };
            let key = format!("_dtx:participant:n0:shard:{sh}:state");
            let mut data = TensorData::new();
            data.set("state", TensorValue::Scalar(ScalarValue::Bytes(bitcode::serialize(&ps).unwrap())));
            self.stores[sh].put(key.clone(), data).unwrap();
            self.parts[sh] = TxParticipant::load_from_store("n0", sh, &self.stores[sh]);
            let _ = self.stores[sh].delete(&key);
        }
    }

    /// the transaction's only decision is abort
    fn abort_only(&self, tx: usize) -> bool {
        self.decided.contains(&(tx, false)) && !self.decided.contains(&(tx, true))
    }
    /// why the coordinator aborted `tx` (the reason it queued with the abort broadcast), as a class infix
    fn not_sent_class(&self, tx: usize) -> &'static str {
        match self.reasons.iter().find(|r| r.0 == tx).map(|r| r.1.as_str()) {
            Some("timeout") => "tensor_chain.distributed_tx.coordinator/timeout_abort_not_sent_to_prepared_participant",
            Some("conflict") | Some("voted_no") => "tensor_chain.distributed_tx.coordinator/vote_abort_not_sent_to_prepared_participant",
            Some("cross_shard") => "tensor_chain.distributed_tx.coordinator/cross_shard_abort_not_sent_to_prepared_participant",
            _ => "tensor_chain.distributed_tx.coordinator/abort_not_sent_to_prepared_participant",
        }
    }
    /// `settle` (Settle.lean `Sys.settle` / `Sys.stuck`): the network finally delivers every ABORT message that is in the
    /// pool for a transaction whose only decision is abort (ordinary deliveries, pool order, every monitor armed).
    /// ORACLE on the real objects: afterwards no participant of such a transaction is still prepared for it
    /// (`get_awaiting_decision`) and no entry of its lock table names it.  Classes, computed from the pool: no ABORT
    /// addressed to that participant is in the pool (`coordinator/<reason>_abort_not_sent_to_prepared_participant`), or
    /// one was delivered and the participant kept the transaction (`participant/abort_delivered_but_tx_still_prepared`).
    fn settle(&mut self) -> String {
        let targets: Vec<usize> = (0..self.txs.len()).filter(|&t| self.abort_only(t)).collect();
        let idx: Vec<usize> = (0..self.pool.len()).filter(|&i| matches!(&self.pool[i], RMsg::Abort { tx, .. } if targets.contains(tx))).collect();
        for i in &idx {
            self.exec(&format!("deliver {i}"));
        }
        let mut stuck: Vec<String> = vec![];
        for &t in &targets {
            for sh in self.txs[t].shards.clone() {
                if sh >= self.parts.len() {
                    continue;
                }
                let prepared = self.parts[sh].get_awaiting_decision().contains(&self.txs[t].real);
                let locked: Vec<String> = self.holders(sh).iter().filter(|(_, h)| h.0 == t as u64).map(|(k, _)| kname(*k)).collect();
                if !prepared && locked.is_empty() {
                    continue;
                }
                stuck.push(format!("{t}.{sh}"));
                let sent = self.pool.iter().any(|m| matches!(m, RMsg::Abort { tx, sh: s2 } if *tx == t && *s2 == sh));
                let recorded = self.yes_handed.contains(&(t, sh));
                self.hits.push(format!("settle.stuck.{}", if sent { "abort_delivered" } else { "abort_not_sent" }));
                self.viol.push(Violation {
                    class: if sent { "tensor_chain.distributed_tx.participant/abort_delivered_but_tx_still_prepared" } else { self.not_sent_class(t) },
                    what: format!(
                        "tx {t} (participants {:?}) has the one decision ABORT (decisions {:?}, reasons {:?}) and every ABORT message of it in the pool was delivered ({}), yet shard {sh} {} and holds its locks on [{}]; shard {sh} answered its PREPARE with {:?} (true = YES), its YES vote {} recorded by the coordinator; ABORT(tx {t}) addressed to shard {sh} is {} the pool",
                        self.txs[t].shards,
                        self.decided,
                        self.reasons,
                        idx.iter().map(|i| self.show_msg(&self.pool[*i])).collect::<Vec<_>>().join(" "),
                        if prepared { "is still prepared for it (get_awaiting_decision)" } else { "keeps no prepared record" },
                        locked.join(","),
                        self.votes_cast.get(&(t, sh)).cloned().unwrap_or_default(),
                        if recorded { "was handed to record_vote and" } else { "was never" },
                        if sent { "in" } else { "NOT in" },
                    ),
                });
            }
        }
        self.hits.push(format!("settle.{}", if targets.is_empty() { "no_aborted_tx" } else if stuck.is_empty() { "clean" } else { "stuck" }));
        format!("settled {} stuck {} |", idx.len(), if stuck.is_empty() { "-".to_string() } else { stuck.join(",") })
    }

    fn answer(&self, res: &str, from: usize) -> String {
        let msgs: Vec<String> = self.pool[from..].iter().map(|m| self.show_msg(m)).collect();
        format!("{} | {}", res, msgs.join(" ")).trim_end().to_string()
    }

    fn record_vote(&mut self, tx: usize, sh: usize, vote: PrepareVote) -> String {
        let real = self.real_tx(tx);
        if matches!(vote, PrepareVote::Yes { .. }) {
            self.yes_handed.insert((tx, sh));
        }
        match self.coord.record_vote(real, sh, vote) {
            Ok(None) => "voted none".into(),
            Ok(Some(TxPhase::Prepared)) => "voted prepared".into(),
            Ok(Some(TxPhase::Aborting)) => {
                self.decide(tx, false);
                "voted aborting".into()
            },
            Ok(Some(p)) => format!("voted {}", format!("{p:?}").to_lowercase()),
            Err(VoteRecordError::TxNotFound(_)) => "verr not_found".into(),
            Err(VoteRecordError::WrongPhase { actual, .. }) => format!("verr wrong_phase {}", format!("{actual:?}").to_lowercase()),
            Err(VoteRecordError::DuplicateVote { .. }) => "verr duplicate".into(),
        }
    }

    /// `n` | `c<tx>` | `y<h>:<keys>[:e<emb>]` (the model ignores the embedding id: it gets the pair bits)
    fn forged_vote(&mut self, tx: usize, sh: usize, v: &str) -> PrepareVote {
        let real = self.real_tx(tx);
        if v == "n" {
            PrepareVote::No { reason: "forged".into() }
        } else if let Some(c) = v.strip_prefix('c') {
            PrepareVote::Conflict { similarity: 1.0, conflicting_tx: self.real_tx(c.parse().unwrap()) }
        } else {
            let body = v.trim_start_matches('y');
            let mut it = body.split(':');
            let h: u64 = it.next().unwrap().parse().unwrap();
            let keys: HashSet<String> = it
                .next()
                .unwrap_or("")
                .split('.')
                .filter(|x| !x.is_empty())
                .map(|k| kname(k.parse().unwrap()))
                .collect();
            let e: u64 = it.next().map_or(0, |x| x.trim_start_matches('e').parse().unwrap());
            // forged handles live in their own range so that they never collide with real ones
            let real_h = FORGED_BASE + h;
            self.forged.insert(real_h, h);
            if self.txs.get(tx).map_or(true, |t| t.shards.contains(&sh)) {
                self.forged_participant_yes = true;
            }
            PrepareVote::Yes { lock_handle: real_h, delta: DeltaVector::from_sparse(emb_vec(e), keys, real) }
        }
    }

    /// Execute one protocol line on the real objects; the answer has the model driver's format.
    /// Error canonicalisation (BUILDING.md), rule 2. commit / complete_commit / complete_abort / force_resolve
    /// report every refusal (unknown transaction, wrong phase, a non-YES vote) as the ONE variant
    /// `ChainError::TransactionFailed(String)`; a refusal changes nothing (the dump is compared after every
    /// event) and the C03 monitors only use accepted / refused, so the COMPARED token is decided by the variant:
    /// `err refused` (`collapse_end_refusal` maps the model's `err not_found` / `err wrong_phase` to it). What the
    /// message says is read only for the coverage tags `<op>.not_found` / `<op>.wrong_phase`.
    fn end_refused(&mut self, op: &str, e: &tensor_chain::ChainError) -> String {
        match e {
            tensor_chain::ChainError::TransactionFailed(m) => {
                self.hits.push(format!("{op}.{}", if m.contains("not found") { "not_found" } else if m.contains("phase") || m.contains("cannot be committed") { "wrong_phase" } else { "refused_unclassified" }));
                END_REFUSED.into()
            },
            other => format!("err:{}", format!("{other:?}").chars().take_while(|c| c.is_alphanumeric()).collect::<String>()),
        }
    }

    fn exec(&mut self, line: &str) -> String {
        let w: Vec<&str> = line.split_whitespace().collect();
        if w.as_slice() == ["settle"] {
            return self.settle();
        }
        if w.as_slice() == ["asettle"] {
            return self.asettle();
        }
        if w.first().is_some_and(|x| *x == "crestore" || *x == "wrestart") {
            self.forget_ack_state();
        }
        let from = self.pool.len();
        let before = self.snapshots();
        let mut applying: Option<(usize, usize)> = None; // (shard, tx) of an applying commit delivery
        let mut aborting: Option<(usize, usize)> = None; // (shard, tx) of an ABORT delivery
        let res: String = match w.as_slice() {
            ["preload", sh, k, v] => {
                let (sh, k, v): (usize, u64, u64) = (sh.parse().unwrap(), k.parse().unwrap(), v.parse().unwrap());
                self.stores[sh].put(kname(k), tensor_of(v)).unwrap();
                self.expect[sh].insert(k, v.to_string());
                return "ok".into();
            },
            ["begin", shs, ops, _sim, emb] => {
                let shards: Vec<usize> = shs.split(',').map(|x| x.parse().unwrap()).collect();
                let ops: Vec<Vec<Op>> = ops.split('/').map(parse_ops).collect();
                let embs: Vec<u64> = emb.trim_start_matches("emb=").split('.').map(|x| x.parse().unwrap()).collect();
                match self.coord.begin(&"c".to_string(), &shards) {
                    Ok(tx) => {
                        let d = self.txs.len();
                        self.by_real.insert(tx.tx_id, d);
                        for o in ops.iter().flatten() {
                            self.hits.push(format!("op.{}", &o.show()[..1]));
                        }
                        self.txs.push(TxInfo { real: tx.tx_id, shards: shards.clone(), ops, embs, begun_at: self.clock, limit: self.t_units });
                        for sh in shards {
                            self.pool.push(RMsg::Prepare { tx: d, sh });
                        }
                        format!("tx {d}")
                    },
                    Err(_) => "err too_many".into(),
                }
            },
            ["deliver", i] => {
                let i: usize = i.parse().unwrap();
                match self.pool.get(i).cloned() {
                    None => "nomsg".into(),
                    Some(RMsg::Prepare { tx, sh }) => {
                        if sh >= self.parts.len() {
                            "noshard".into()
                        } else {
                            let t = &self.txs[tx];
                            let p = t.pos(sh);
                            let ops: Vec<Transaction> = p.map_or(vec![], |p| t.ops[p].iter().map(Op::real).collect());
                            let emb = p.map_or(0, |p| t.embs[p]);
                            let req = PrepareRequest {
                                tx_id: t.real,
                                coordinator: "c".into(),
                                operations: ops,
                                delta_embedding: emb_vec(emb),
                                timeout_ms: 5000,
                            };
                            let finished = self.finished_on(sh, tx);
                            let held_before = self.holders(sh);
                            let vote = self.parts[sh].prepare(req);
                            if let PrepareVote::Yes { lock_handle, .. } = &vote {
                                self.hdense(*lock_handle);
                                self.abort_after_prepare.remove(&(tx, sh));
                            }
                            // a transaction whose only decision is ABORT does not keep later transactions off its keys once the
                            // shard has been told: a CONFLICT vote never names such a transaction when (a) an ABORT of it was
                            // delivered to this shard after its last PREPARE there, or (b) no ABORT addressed to this shard exists
                            // at all (nothing will ever release the lock)
                            if let PrepareVote::Conflict { conflicting_tx, .. } = &vote {
                                let c = self.dense(*conflicting_tx) as usize;
                                if c < self.txs.len() && c != tx && self.abort_only(c) {
                                    let sent = self.pool.iter().any(|m| matches!(m, RMsg::Abort { tx: t2, sh: s2 } if *t2 == c && *s2 == sh));
                                    let told = self.abort_after_prepare.contains(&(c, sh));
                                    if !sent || told {
                                        self.hits.push(format!("blocked_by_aborted_tx.{}", if sent { "abort_delivered" } else { "abort_not_sent" }));
                                        self.viol.push(Violation {
                                            class: if sent {
                                                "tensor_chain.distributed_tx.participant/aborted_tx_blocks_later_tx_after_abort_delivery"
                                            } else {
                                                "tensor_chain.distributed_tx.coordinator/aborted_tx_blocks_later_tx_abort_never_sent"
                                            },
                                            what: format!(
                                                "PREPARE(tx {tx}) on shard {sh} was refused with CONFLICT(tx {c}): tx {c} (participants {:?}) has the one decision ABORT (decisions {:?}, reasons {:?}) and {}",
                                                self.txs[c].shards,
                                                self.decided,
                                                self.reasons,
                                                if sent { format!("ABORT(tx {c}) was delivered to shard {sh} after its last PREPARE there") } else { format!("no ABORT(tx {c}) addressed to shard {sh} was ever queued: shard {sh} stays prepared and keeps the locks for good") }
                                            ),
                                        });
                                    }
                                }
                            }
                            // a PREPARE never changes the lock (holder, handle) of a key held by another tx
                            let held_after = self.holders(sh);
                            let my_keys = self.keys_of(tx, sh);
                            let other_holds = my_keys.iter().any(|k| held_before.get(k).is_some_and(|h| h.0 != tx as u64));
                            // a refusal that only the storage-key / write-key locks explain (no logical key in common with a holder)
                            if !matches!(vote, PrepareVote::Yes { .. }) {
                                let logical = |t: usize| -> Vec<u64> { self.txs[t].pos(sh).map_or(vec![], |p| self.txs[t].ops[p].iter().map(Op::key).collect()) };
                                let mine_logical = logical(tx);
                                let clash: Vec<(u64, u64)> = my_keys.iter().filter_map(|k| held_before.get(k).filter(|h| h.0 != tx as u64).map(|h| (*k, h.0))).collect();
                                let by_logical = clash.iter().any(|(k, h)| mine_logical.contains(k) && (*h as usize) < self.txs.len() && logical(*h as usize).contains(k));
                                if !clash.is_empty() && !by_logical {
                                    self.hits.push("alias.refused_by_storage_or_write_key_only".into());
                                }
                            }
                            if finished {
                                self.hits.push(format!(
                                    "late.prepare_finished.{}",
                                    match (&vote, other_holds) {
                                        (PrepareVote::Yes { .. }, false) => "reprepared",
                                        (PrepareVote::Yes { .. }, true) => "yes_key_held",
                                        (_, true) => "refused_key_held",
                                        (_, false) => "refused",
                                    }
                                ));
                            }
                            for (k, h) in &held_before {
                                if h.0 != tx as u64 && held_after.get(k) != Some(h) {
                                    let now = held_after.get(k).map_or("nobody".to_string(), |x| format!("tx {}", x.0));
                                    self.viol.push(Violation {
                                        class: if finished {
                                            "tensor_chain.distributed_tx.participant/finished_tx_prepare_takes_lock"
                                        } else {
                                            "tensor_chain.distributed_tx.participant/prepare_takes_lock_of_other_tx"
                                        },
                                        what: format!(
                                            "PREPARE(tx {tx}) delivered to shard {sh}{} was answered {}: the lock on {} moved from tx {} to {now}",
                                            if finished { format!(" where tx {tx} is already finished (applied {:?}, discarded {:?})", self.applied, self.discarded) } else { String::new() },
                                            self.show_vote(&vote),
                                            kname(*k),
                                            h.0
                                        ),
                                    });
                                    break;
                                }
                            }
                            // a YES leaves no OTHER prepared tx on the shard that shares a logical / storage / write key with this one
                            if matches!(vote, PrepareVote::Yes { .. }) {
                                let mine: Vec<String> = self.txs[tx].pos(sh).map_or(vec![], |p| {
                                    self.txs[tx].ops[p].iter().map(Op::real).flat_map(|o| [o.affected_key().to_string(), o.storage_key(), kname(Op::of_real(&o).map_or(999_999, |x| x.write_key()))]).collect()
                                });
                                let st = self.parts[sh].to_state();
                                'pt: for pt in st.prepared.values().filter(|pt| pt.tx_id != self.txs[tx].real) {
                                    for o in &pt.operations {
                                        let theirs = [o.affected_key().to_string(), o.storage_key(), kname(Op::of_real(o).map_or(999_999, |x| x.write_key()))];
                                        if let Some(k) = theirs.iter().find(|k| mine.contains(k)) {
                                            self.viol.push(Violation {
                                                class: "tensor_chain.distributed_tx.participant/prepared_together_on_shared_key",
                                                what: format!(
                                                    "PREPARE(tx {tx}) [{}] was answered YES on shard {sh} while tx {} [{}] is prepared there: both reach {k}",
                                                    show_ops(&self.txs[tx].ops[self.txs[tx].pos(sh).unwrap_or(0)]),
                                                    self.dense(pt.tx_id),
                                                    show_real_ops(&pt.operations)
                                                ),
                                            });
                                            break 'pt;
                                        }
                                    }
                                }
                            }
                            self.votes_cast.entry((tx, sh)).or_default().push(matches!(vote, PrepareVote::Yes { .. }));
                            self.cast.push((tx, sh, matches!(vote, PrepareVote::Yes { .. })));
                            let s = format!("vote {}", self.show_vote(&vote));
                            self.pool.push(RMsg::Vote { tx, sh, vote, forged: false });
                            s
                        }
                    },
                    Some(RMsg::Vote { tx, sh, vote, forged }) => {
                        let stray = self.txs.get(tx).is_some_and(|t| !t.shards.contains(&sh));
                        let r = self.record_vote(tx, sh, vote);
                        self.drain();
                        if forged {
                            self.hits.push(format!("forged.{}.{}", if stray { "stray_shard" } else { "participant_or_unknown_tx" }, r.replace(' ', "_")));
                        }
                        r
                    },
                    Some(RMsg::Commit { tx, sh }) => {
                        if sh >= self.parts.len() {
                            "noshard".into()
                        } else {
                            let finished = self.applied.contains(&(sh, tx)) || self.discarded.contains(&(sh, tx));
                            let was_prepared = self.parts[sh].get_awaiting_decision().contains(&self.txs[tx].real);
                            let r = self.parts[sh].commit(self.txs[tx].real);
                            // a participant that voted YES and still holds the prepared transaction must APPLY it when the
                            // coordinator's (only) decision is commit: refusing is a YES voter discarding a committed transaction
                            if was_prepared && !r.success && self.decided.contains(&(tx, true)) && !self.decided.contains(&(tx, false)) {
                                self.viol.push(Violation {
                                    class: "tensor_chain.distributed_tx.participant/commit_of_prepared_tx_refused",
                                    what: format!("shard {sh} held tx {tx} prepared (voted YES), the coordinator decided commit, and participant.commit answered success=false: the shard discards a committed transaction"),
                                });
                            }
                            if finished {
                                self.hits.push(format!("late.commit_finished.{}", if r.success { "reapplied" } else { "absent" }));
                            }
                            if r.success {
                                if let Some(p) = self.txs[tx].pos(sh) {
                                    let mut cur = before[sh].clone();
                                    for o in &self.txs[tx].ops[p] {
                                        if let Op::Cas(..) = o {
                                            let was = cur.get(&o.write_key()).cloned();
                                            o.apply_to(&mut cur);
                                            self.hits.push(format!("cas.{}", if cur.get(&o.write_key()).cloned() != was { "written" } else { "skipped_or_same" }));
                                        } else {
                                            o.apply_to(&mut cur);
                                        }
                                    }
                                }
                                applying = Some((sh, tx));
                                self.applied.push((sh, tx));
                                if self.decided.contains(&(tx, true)) {
                                    for op in self.txs[tx].pos(sh).map_or(vec![], |p| self.txs[tx].ops[p].clone()) {
                                        op.apply_to(&mut self.expect[sh]);
                                        self.writer[sh].insert(op.write_key(), tx);
                                    }
                                }
                                if !self.decided.contains(&(tx, true)) {
                                    self.viol.push(Violation {
                                        class: "tensor_chain.2pc/applied_without_commit",
                                        what: format!("shard {sh} applied tx {tx} whose decisions are {:?}", self.decided),
                                    });
                                }
                                "done".into()
                            } else {
                                "absent".into()
                            }
                        }
                    },
                    Some(RMsg::Abort { tx, sh }) => {
                        if sh >= self.parts.len() {
                            "noshard".into()
                        } else {
                            let real = self.txs[tx].real;
                            let finished = self.finished_on(sh, tx);
                            let was = self.parts[sh].get_awaiting_decision().contains(&real);
                            aborting = Some((sh, tx));
                            let _ = self.parts[sh].abort(real);
                            self.told.insert((tx, sh));
                            let still = self.parts[sh].get_awaiting_decision().contains(&real);
                            if !still {
                                self.abort_after_prepare.insert((tx, sh));
                            }
                            if finished || (was && self.discarded.contains(&(sh, tx))) {
                                self.hits.push(format!("late.abort_finished.{}", if was { "discarded_again" } else { "absent" }));
                                if self.overlapping_commit_applied(sh, tx) {
                                    self.hits.push("late.abort_finished.after_overlapping_commit".into());
                                }
                            }
                            if was && !still {
                                self.discarded.push((sh, tx));
                                "done".into()
                            } else {
                                "absent".into()
                            }
                        }
                    },
                }
            },
            ["sweep"] => {
                if !self.wallclock {
                    self.reload_coordinator();
                }
                let mut out: Vec<u64> = self.coord.cleanup_timeouts().into_iter().map(|t| self.dense(t)).collect();
                out.sort_unstable();
                for &t in &out {
                    self.decide(t as usize, false);
                }
                self.drain();
                if out.is_empty() {
                    "ids -".into()
                } else {
                    format!("ids {}", out.iter().map(|x| x.to_string()).collect::<Vec<_>>().join(","))
                }
            },
            ["tick", d] => {
                let d: u64 = d.parse().unwrap();
                self.clock += d;
                if self.wallclock {
                    std::thread::sleep(Duration::from_millis(3));
                }
                if self.age_parts {
                    self.age_participants(d);
                }
                "ok".into()
            },
            ["ccommit", tx] => {
                let tx: usize = tx.parse().unwrap();
                let real = self.real_tx(tx);
                let pre = self.coord.get(real);
                match self.coord.commit(real) {
                    Ok(()) => {
                        // commit_needs_all_yes on the real objects: every participant cast a YES
                        // (really produced by its TxParticipant) and the coordinator recorded only YES votes
                        let t = &self.txs[tx];
                        let all_cast = t.shards.iter().all(|&sh| self.votes_cast.get(&(tx, sh)).is_some_and(|v| v.iter().any(|&y| y)));
                        let all_rec = pre.as_ref().is_some_and(|p| {
                            t.shards.iter().all(|sh| matches!(p.votes.get(sh), Some(PrepareVote::Yes { .. })))
                        });
                        if !((all_cast || self.forged_participant_yes) && all_rec) {
                            self.viol.push(Violation {
                                class: "tensor_chain.2pc/commit_without_all_yes",
                                what: format!("coordinator committed tx {tx} (participants {:?}) cast_yes={all_cast} recorded_yes={all_rec}", t.shards),
                            });
                        }
                        let shards = t.shards.clone();
                        self.decide(tx, true);
                        for sh in shards {
                            self.pool.push(RMsg::Commit { tx, sh });
                        }
                        "ok".into()
                    },
                    Err(e) => self.end_refused("ccommit", &e),
                }
            },
            ["cabort", tx] => {
                let tx: usize = tx.parse().unwrap();
                let real = self.real_tx(tx);
                match self.coord.abort(real, "client abort") {
                    Ok(()) => {
                        let shards = self.txs[tx].shards.clone();
                        self.decide(tx, false);
                        for sh in shards {
                            self.pool.push(RMsg::Abort { tx, sh });
                        }
                        "ok".into()
                    },
                    Err(_) => "err not_found".into(),
                }
            },
            ["stale", sh, t] | ["recover", sh, t] => {
                let (sh, t): (usize, u64) = (sh.parse().unwrap(), t.parse().unwrap());
                if sh >= self.parts.len() {
                    "noshard".into()
                } else {
                    let before: HashSet<u64> = self.parts[sh].get_awaiting_decision().into_iter().collect();
                    // `>= t` units resp. `> t` units on the virtual clock, robust to a few ms of real drift
                    if w[0] == "stale" {
                        let _ = self.parts[sh].cleanup_stale(Duration::from_millis((t * UNIT).saturating_sub(UNIT / 2)));
                    } else {
                        let _ = self.parts[sh].recover(Duration::from_millis(t * UNIT + UNIT / 2));
                    }
                    let after: HashSet<u64> = self.parts[sh].get_awaiting_decision().into_iter().collect();
                    let mut gone: Vec<u64> = before.difference(&after).map(|t| self.dense(*t)).collect();
                    gone.sort_unstable();
                    for &g in &gone {
                        self.discarded.push((sh, g as usize));
                    }
                    if gone.is_empty() {
                        "ids -".into()
                    } else {
                        format!("ids {}", gone.iter().map(|x| x.to_string()).collect::<Vec<_>>().join(","))
                    }
                }
            },
            ["cvote", tx, sh, v, _sim] => {
                let (tx, sh): (usize, usize) = (tx.parse().unwrap(), sh.parse().unwrap());
                let vote = self.forged_vote(tx, sh, v);
                let r = self.record_vote(tx, sh, vote);
                self.drain();
                r
            },
            // ---- the coordinator's state-based recovery API (Recovery.lean / Restart.lean)
            ["crecover"] => {
                if !self.wallclock {
                    self.reload_coordinator();
                }
                // which arm of recover() each pending entry meets: phase x deadline (virtual clock)
                for t in self.coord.to_state().pending.values() {
                    let d = self.dense(t.tx_id) as usize;
                    self.hits.push(format!(
                        "restart.recover.{}_{}",
                        format!("{:?}", t.phase).to_lowercase(),
                        if self.wallclock { "wallclock" } else if self.past_deadline(d) { "past_deadline" } else { "in_time" }
                    ));
                }
                let listed_before = self.pending_decisions();
                let st = self.coord.recover();
                let dec = self.pending_decisions();
                // recover() keeps every pending decision, at any clock value (Lean: recover_keeps_every_pending_decision)
                for (t, p) in &listed_before {
                    match dec.iter().find(|d| d.0 == *t) {
                        Some((_, p2)) if p2 == p => {},
                        Some((_, p2)) => self.viol.push(Violation {
                            class: "tensor_chain.distributed_tx.coordinator/recover_flips_pending_decision",
                            what: format!(
                                "get_pending_decisions listed (tx {t}, {p:?}) before recover() and lists (tx {t}, {p2:?}) after it (virtual clock {}, tx begun at {}, timeout {} units; decisions announced so far {:?})",
                                self.clock, self.txs.get(*t as usize).map_or(0, |x| x.begun_at), self.t_units, self.decided
                            ),
                        }),
                        None => self.viol.push(Violation {
                            class: "tensor_chain.distributed_tx.coordinator/recover_drops_pending_decision",
                            what: format!("get_pending_decisions listed (tx {t}, {p:?}) before recover() and does not list tx {t} after it"),
                        }),
                    }
                }
                // the glue re-sends every pending decision
                for (t, p) in &dec {
                    let commit = *p == TxPhase::Committing;
                    let shards = self.coord.get(self.real_tx(*t as usize)).map_or(vec![], |x| x.participants);
                    self.decide(*t as usize, commit);
                    for sh in shards {
                        self.pool.push(if commit { RMsg::Commit { tx: *t as usize, sh } } else { RMsg::Abort { tx: *t as usize, sh } });
                    }
                }
                let ds: Vec<String> = dec.iter().map(|(t, p)| format!("{t}:{}", format!("{p:?}").to_lowercase())).collect();
                format!(
                    "rec {} {} {} {} {} dec {}",
                    st.pending_prepare, st.pending_commit, st.pending_abort, st.timed_out, st.completed,
                    if ds.is_empty() { "-".to_string() } else { ds.join(",") }
                )
            },
            ["ccomplete_commit", tx] | ["ccomplete_abort", tx] => {
                let tx: usize = tx.parse().unwrap();
                let real = self.real_tx(tx);
                let commit = w[0] == "ccomplete_commit";
                let r = if commit { self.coord.complete_commit(real) } else { self.coord.complete_abort(real) };
                match r {
                    Ok(()) => {
                        // a completion is accepted only for the decision that was announced
                        // (Lean: pending_decision_agrees_with_decision_after_any_restart)
                        if self.decided.contains(&(tx, !commit)) {
                            self.viol.push(Violation {
                                class: if commit {
                                    "tensor_chain.distributed_tx.coordinator/complete_commit_accepted_for_abort_decided_tx"
                                } else {
                                    "tensor_chain.distributed_tx.coordinator/complete_abort_accepted_for_commit_decided_tx"
                                },
                                what: format!("{}({tx}) succeeded although the coordinator announced the decisions {:?}", &w[0][1..], self.decided),
                            });
                        }
                        "ok".into()
                    },
                    Err(e) => self.end_refused(w[0], &e),
                }
            },
            // ---- coordinator restarts (Restart.lean): save_to_store / crash + load_from_store
            ["ckpt"] => {
                let store = self.ckpt_store.get_or_insert_with(TensorStore::new);
                self.coord.save_to_store("n0", store).expect("save_to_store");
                self.ckpt_shown = self.saved_state().map(|k| self.show_pending(&k.pending));
                self.hits.push("restart.checkpoint".into());
                "ok".into()
            },
            ["crestore"] => {
                let current = self.saved_state().map(|k| self.show_pending(&k.pending)) == Some(self.show_pending(&self.coord.to_state().pending));
                self.hits.push(format!("restart.restore.{}", if current { "current" } else { "stale_or_none" }));
                let before = self.show_pending(&self.coord.to_state().pending);
                match self.saved_state() {
                    Some(st) => self.load_state(st),
                    None => {
                        // nothing persisted: `load_from_store` builds a fresh coordinator
                        let c = DistributedTxCoordinator::load_from_store(
                            "n0",
                            &TensorStore::new(),
                            ConsensusManager::new(ConsensusConfig::default()),
                            self.cfg.clone(),
                        )
                        .expect("load_from_store without persisted state");
                        self.coord = match &self.wal {
                            Some((_, p)) => attach_wal(c, p),
                            None => c,
                        };
                    },
                }
                let after = self.show_pending(&self.coord.to_state().pending);
                if current && before != after {
                    self.viol.push(Violation {
                        class: "tensor_chain.distributed_tx.coordinator/restore_changes_pending",
                        what: format!("crash + load_from_store of a current checkpoint changed the pending map from [{before}] to [{after}]"),
                    });
                }
                format!("restored {}", self.coord.pending_count())
            },
            // ---- WAL restart (Wal.lean `EvW.walRestart`): the coordinator process crashes; a new process opens the
            //      same log, runs recover_from_wal() and recover(), and the glue re-sends every pending decision
            ["wrestart"] => {
                let Some(path) = self.wal.as_ref().map(|w| w.1.clone()) else { return "bad-op".into() };
                // what the crashed process had announced / still held in memory
                let aborted_fully_yes = (0..self.txs.len()).any(|d| {
                    self.decided.contains(&(d, false)) && !self.txs[d].shards.is_empty() && self.txs[d].shards.iter().all(|sh| self.yes_handed.contains(&(d, *sh)))
                });
                if aborted_fully_yes {
                    self.hits.push("wal.restart.after_abort_of_tx_with_a_logged_yes_from_every_participant".into());
                }
                for t in self.coord.to_state().pending.values() {
                    self.hits.push(format!("wal.restart.crash_with_{}_entry", format!("{:?}", t.phase).to_lowercase()));
                }
                self.coord = attach_wal(mk_coord(&self.cfg), &path);
                let ws = match self.coord.recover_from_wal() {
                    Ok(ws) => ws,
                    Err(e) => return format!("err:{}", format!("{e:?}").chars().take_while(|c| c.is_alphanumeric()).collect::<String>()),
                };
                // a restored entry is a `DistributedTransaction::new`: its deadline is counted from the restart, 5000 ms
                let restored = self.coord.to_state().pending;
                for t in restored.values() {
                    let d = self.dense(t.tx_id) as usize;
                    self.hits.push(format!("wal.restart.restored_{}", format!("{:?}", t.phase).to_lowercase()));
                    if let Some(info) = self.txs.get_mut(d) {
                        info.begun_at = self.clock;
                        info.limit = 0;
                    }
                    // (Lean: wal_restart_forgets_abort_decided_transactions) a transaction whose ABORT the coordinator
                    // announced before the crash comes back, if at all, as Aborting
                    if d < self.txs.len() && self.decided.contains(&(d, false)) && t.phase != TxPhase::Aborting {
                        self.viol.push(Violation {
                            class: "tensor_chain.distributed_tx.coordinator/wal_restart_restores_abort_decided_tx",
                            what: format!(
                                "recover_from_wal() restored tx {d} in phase {:?} with votes [{}] although the coordinator announced its ABORT before the crash (decisions {:?}; the log is [{}])",
                                t.phase,
                                self.show_pending(&restored).split(',').find(|x| x.starts_with(&format!("{d}/"))).unwrap_or(""),
                                self.decided,
                                self.show_wal()
                            ),
                        });
                    }
                    if d < self.txs.len() && self.decided.contains(&(d, true)) && t.phase == TxPhase::Aborting {
                        self.viol.push(Violation {
                            class: "tensor_chain.distributed_tx.coordinator/wal_restart_restores_commit_decided_tx_as_aborting",
                            what: format!("recover_from_wal() restored tx {d} as Aborting although the coordinator announced its COMMIT before the crash (decisions {:?})", self.decided),
                        });
                    }
                }
                if restored.is_empty() {
                    self.hits.push("wal.restart.nothing_restored".into());
                }
                let st = self.coord.recover();
                let dec = self.pending_decisions();
                for (t, p) in &dec {
                    let commit = *p == TxPhase::Committing;
                    let d = *t as usize;
                    // the decision the restarted coordinator reports against the one announced before the crash
                    if d < self.txs.len() && self.decided.contains(&(d, !commit)) {
                        self.viol.push(Violation {
                            class: if commit {
                                "tensor_chain.distributed_tx.coordinator/wal_restart_commits_abort_decided_tx"
                            } else {
                                "tensor_chain.distributed_tx.coordinator/wal_restart_aborts_commit_decided_tx"
                            },
                            what: format!(
                                "after crash + recover_from_wal() + recover() get_pending_decisions lists (tx {d}, {p:?}) although the coordinator announced the decisions {:?} before the crash (the log is [{}])",
                                self.decided,
                                self.show_wal()
                            ),
                        });
                    }
                    let shards = self.coord.get(self.real_tx(d)).map_or(vec![], |x| x.participants);
                    self.decide(d, commit);
                    for sh in shards {
                        self.pool.push(if commit { RMsg::Commit { tx: d, sh } } else { RMsg::Abort { tx: d, sh } });
                    }
                }
                let ds: Vec<String> = dec.iter().map(|(t, p)| format!("{t}:{}", format!("{p:?}").to_lowercase())).collect();
                format!(
                    "wal {} {} {} rec {} {} {} {} {} dec {}",
                    ws.pending_prepare, ws.pending_commit, ws.pending_abort,
                    st.pending_prepare, st.pending_commit, st.pending_abort, st.timed_out, st.completed,
                    if ds.is_empty() { "-".to_string() } else { ds.join(",") }
                )
            },
            // a DOCTORED pending entry (outside the alphabet): only to compare recover() on every phase
            ["cphase", tx, ph] => {
                let tx: usize = tx.parse().unwrap();
                let real = self.real_tx(tx);
                let phase = match *ph {
                    "preparing" => TxPhase::Preparing,
                    "prepared" => TxPhase::Prepared,
                    "committing" => TxPhase::Committing,
                    "committed" => TxPhase::Committed,
                    "aborting" => TxPhase::Aborting,
                    _ => TxPhase::Aborted,
                };
                let mut st = self.coord.to_state();
                match st.pending.get_mut(&real) {
                    Some(t) => {
                        t.phase = phase;
                        self.load_state(st);
                        "ok".into()
                    },
                    None => "err not_found".into(),
                }
            },
            ["cforce", tx, b] => {
                let tx: usize = tx.parse().unwrap();
                let commit = *b != "0";
                let real = self.real_tx(tx);
                let pre = self.coord.get(real);
                match self.coord.force_resolve(real, commit) {
                    Ok(()) => {
                        if commit {
                            let t = &self.txs[tx];
                            let all_cast = t.shards.iter().all(|&sh| self.votes_cast.get(&(tx, sh)).is_some_and(|v| v.iter().any(|&y| y)));
                            let all_rec = pre.as_ref().is_some_and(|p| t.shards.iter().all(|sh| matches!(p.votes.get(sh), Some(PrepareVote::Yes { .. }))));
                            if !(all_cast && all_rec) {
                                self.viol.push(Violation {
                                    class: "tensor_chain.2pc/commit_without_all_yes",
                                    what: format!("force_resolve committed tx {tx} (participants {:?}) cast_yes={all_cast} recorded_yes={all_rec}", t.shards),
                                });
                            }
                        }
                        self.decide(tx, commit);
                        for sh in pre.map_or(vec![], |x| x.participants) {
                            self.pool.push(if commit { RMsg::Commit { tx, sh } } else { RMsg::Abort { tx, sh } });
                        }
                        "ok".into()
                    },
                    Err(e) => self.end_refused("cforce", &e),
                }
            },
            // a vote that no participant produced joins the pool (mis-tagged / mis-routed / forged response)
            ["forge", tx, sh, v] => {
                let (tx, sh): (usize, usize) = (tx.parse().unwrap(), sh.parse().unwrap());
                let vote = self.forged_vote(tx, sh, v);
                self.pool.push(RMsg::Vote { tx, sh, vote, forged: true });
                "ok".into()
            },
            ["ack", t, sh] => match (t.parse::<usize>(), sh.parse::<usize>()) {
                (Ok(t), Ok(sh)) => self.ack(t, sh),
                _ => "bad-op".into(),
            },
            ["aretry", d] => match d.parse::<u64>() {
                Ok(d) => self.aretry(d),
                _ => "bad-op".into(),
            },
            _ => "bad-op".into(),
        };
        // ---- monitors on the real stores
        let after = self.snapshots();
        match applying {
            None => {
                if before != after {
                    if let Some((sh, tx)) = aborting {
                        if let Some(what) = self.alias_rollback(tx, sh, &before[sh], &after[sh]) {
                            self.viol.push(Violation { class: "tensor_chain.distributed_tx.participant/abort_undoes_commit_via_storage_key_alias", what });
                        }
                    }
                    self.viol.push(Violation {
                        class: "tensor_chain.2pc/abort_changed_shard",
                        what: format!("event `{line}` is not an applying commit delivery but changed shard data: {before:?} -> {after:?}"),
                    });
                }
            },
            Some((sh, tx)) => {
                let t = &self.txs[tx];
                let mut want = before.clone();
                if let Some(p) = t.pos(sh) {
                    for op in &t.ops[p] {
                        op.apply_to(&mut want[sh]);
                    }
                }
                if want != after {
                    self.viol.push(Violation {
                        class: "tensor_chain.2pc/commit_wrong_writes",
                        what: format!("commit of tx {tx} at shard {sh}: expected {want:?}, got {after:?}"),
                    });
                }
            },
        }
        // ---- locks: every prepared tx holds, under its own handle, the lock of each of its keys
        'locks: for sh in 0..self.parts.len() {
            let st = self.parts[sh].to_state();
            for pt in st.prepared.values() {
                for op in &pt.operations {
                    // logical key, storage key (undo image) and write key of every operation
                    let keys = [op.affected_key().to_string(), op.storage_key(), kname(Op::of_real(op).map_or(999_999, |x| x.write_key()))];
                    for key in &keys {
                        let ok = st.lock_state.locks().get(key).is_some_and(|l| l.tx_id == pt.tx_id && l.lock_handle == pt.lock_handle);
                        if !ok {
                            let holder = st.lock_state.locks().get(key).map_or("nobody".to_string(), |l| format!("tx {}", self.dense(l.tx_id)));
                            self.viol.push(Violation {
                                class: "tensor_chain.distributed_tx.participant/prepared_tx_without_its_lock",
                                what: format!(
                                    "after `{line}`: tx {} is prepared on shard {sh} with `{}` but the lock on {key} is held by {holder}",
                                    self.dense(pt.tx_id),
                                    Op::of_real(op).map_or("?".to_string(), |o| o.show())
                                ),
                            });
                            break 'locks;
                        }
                    }
                }
            }
        }
        // ---- atomic across shards: every shard holds exactly its initial data + the applied writes of
        //      commit-decided txs (application order); a deviation on a key last written by a committed tx
        //      is a lost committed write, and a split if another shard still shows that tx's writes
        'data: for sh in 0..after.len() {
            let keys: Vec<u64> = self.expect[sh].keys().chain(after[sh].keys()).copied().collect();
            for k in keys {
                if self.expect[sh].get(&k) == after[sh].get(&k) {
                    continue;
                }
                let Some(&t) = self.writer[sh].get(&k) else { continue };
                let show = |v: Option<&String>| v.map_or("absent".to_string(), |x| x.to_string());
                self.viol.push(Violation {
                    class: "tensor_chain.distributed_tx.participant/committed_write_lost",
                    what: format!(
                        "after `{line}`: tx {t} was decided commit and applied on shard {sh}, which must hold {} = {} but holds {} (decisions {:?})",
                        kname(k),
                        show(self.expect[sh].get(&k)),
                        show(after[sh].get(&k)),
                        self.decided
                    ),
                });
                let intact = (0..after.len()).find(|&s2| {
                    s2 != sh && {
                        let ks: Vec<u64> = self.wkeys_of(t, s2).into_iter().filter(|k2| self.writer[s2].get(k2) == Some(&t)).collect();
                        !ks.is_empty() && ks.iter().all(|k2| self.expect[s2].get(k2) == after[s2].get(k2))
                    }
                });
                if let Some(s2) = intact {
                    self.viol.push(Violation {
                        class: "tensor_chain.distributed_tx.participant/shards_split",
                        what: format!(
                            "after `{line}`: committed tx {t}: shard {s2} holds its writes ({:?}), shard {sh} lost {} (holds {}, must hold {})",
                            after[s2],
                            kname(k),
                            show(after[sh].get(&k)),
                            show(self.expect[sh].get(&k))
                        ),
                    });
                }
                break 'data;
            }
        }
        // ---- the coordinator's pending map agrees with the decisions it announced: a pending tx with a commit
        //      decision is Committing, one with an abort decision is Aborting (Lean: recovery_pending_phase_agrees_with_decision,
        //      pending_decision_agrees_with_decision_after_any_restart)
        if !self.decided.is_empty() && self.coord.pending_count() > 0 {
            let mut seen: Vec<usize> = vec![];
            for i in 0..self.decided.len() {
                let d = self.decided[i].0;
                if seen.contains(&d) || d >= self.txs.len() {
                    continue;
                }
                seen.push(d);
                let Some(t) = self.coord.get(self.txs[d].real) else { continue };
                let bad = (self.decided.contains(&(d, true)) && t.phase != TxPhase::Committing)
                    || (self.decided.contains(&(d, false)) && t.phase != TxPhase::Aborting);
                if bad {
                    self.viol.push(Violation {
                        class: "tensor_chain.distributed_tx.coordinator/pending_phase_contradicts_decision",
                        what: format!("after `{line}`: tx {d} is pending in phase {:?} although the coordinator announced the decisions {:?}", t.phase, self.decided),
                    });
                    break;
                }
            }
        }
        for &(s1, t1) in &self.applied {
            if let Some(&(s2, _)) = self.discarded.iter().find(|&&(_, t2)| t2 == t1) {
                if !self.viol.iter().any(|v| v.class == "tensor_chain.2pc/split_outcome") {
                    self.viol.push(Violation {
                        class: "tensor_chain.2pc/split_outcome",
                        what: format!("tx {t1}: shard {s1} applied its writes, shard {s2} discarded its prepared entry"),
                    });
                }
            }
        }
        self.answer(&res, from)
    }
}

// ------------------------------------------------------------------ running a script on both sides

struct Outcome {
    disagreed: bool,
    violations: Vec<(String, String)>,
    nontrivial: bool,
    tags: Vec<String>,
    observations: Vec<String>,
}

struct Setup {
    n: usize,
    t_units: u64,
    maxc: usize,
    lock_to: u64,
    wallclock: bool,
    age_parts: bool,
    /// the generator also draws the coordinator's recovery API and force_resolve (which leaves the alphabet)
    recovery: bool,
    /// the generator draws coordinator restarts inside the alphabet `ReachK` of Restart.lean: recover() + re-send,
    /// complete_*, checkpoints, crash + restore of a current checkpoint, larger clock ticks; no sweep / abort() over a
    /// Committing entry, no force_resolve
    restart: bool,
    /// the coordinator is WAL-backed (Wal.lean): `wrestart` = crash + recover_from_wal() + recover() is an event, the
    /// log the coordinator writes is compared with the model's after every event; the generator draws WAL restarts
    /// inside the alphabet `ReachW` (no timeout sweep / recover() over a timed-out Prepared or Committing entry)
    wal: bool,
}
impl Setup {
    fn init_line(&self) -> String {
        format!("init {} {} {} {}", self.n, if self.wallclock { 0 } else { self.t_units }, self.maxc, self.lock_to)
    }
}

fn tag_of(line: &str, ans: &str, real: &Real) -> String {
    let op = line.split_whitespace().next().unwrap_or("");
    let res = ans.split(" | ").next().unwrap_or("");
    let mut w = res.split_whitespace();
    let a = w.next().unwrap_or("");
    let b = w.next().unwrap_or("");
    match op {
        "deliver" => {
            let i: usize = line.split_whitespace().nth(1).and_then(|x| x.parse().ok()).unwrap_or(usize::MAX);
            let kind = match real.pool.get(i) {
                Some(RMsg::Prepare { .. }) => "prepare",
                Some(RMsg::Vote { .. }) => "vote",
                Some(RMsg::Commit { .. }) => "commit",
                Some(RMsg::Abort { .. }) => "abort",
                None => "none",
            };
            match a {
                "vote" => format!("prepare.{}", if b.starts_with('y') { "yes" } else { "conflict" }),
                "voted" => format!("vote.{b}"),
                "verr" => format!("vote.err.{b}"),
                _ => format!("{kind}.{a}"),
            }
        },
        "sweep" => format!("sweep.{}", if b == "-" { "none" } else { "some" }),
        "begin" => format!("begin.{}", if a == "tx" { "ok" } else { "too_many" }),
        "ccommit" | "cabort" | "ccomplete_commit" | "ccomplete_abort" | "cforce" => format!("{op}.{}", if a == "ok" { "ok".to_string() } else { b.to_string() }),
        "crecover" => format!("crecover.{}", if res.contains("dec -") { "no_decision" } else { "decisions" }),
        "wrestart" => format!("wrestart.{}", if res.contains("dec -") { "no_decision" } else { "decisions" }),
        "cvote" => format!("cvote.{}", if a == "voted" { b.to_string() } else { format!("err.{b}") }),
        "ack" => format!("ack.{b}"),
        "aretry" => format!("aretry.{}", if b == "-" { "none" } else { "some" }),
        _ => op.to_string(),
    }
}

/// the one compared token for a refused commit / complete_* / force_resolve (see `Real::end_refused`)
const END_REFUSED: &str = "err refused";
fn collapse_end_refusal(line: &str, model_answer: &str) -> String {
    let op = line.split_whitespace().next().unwrap_or("");
    if matches!(op, "ccommit" | "ccomplete_commit" | "ccomplete_abort" | "cforce") {
        for fine in ["err not_found", "err wrong_phase"] {
            if let Some(rest) = model_answer.strip_prefix(fine) {
                if rest.is_empty() || rest.starts_with(' ') {
                    return format!("{END_REFUSED}{rest}");
                }
            }
        }
    }
    model_answer.to_string()
}

/// Runs `lines` on a fresh real system and a fresh model; compares every answer and every dump.
/// `in_quantifier = false`: monitor hits are returned as observations, never as violations.
fn run_script(m: &mut Model, rep: &mut Report, stream: &str, setup: &Setup, lines: &[String], in_quantifier: bool) -> Outcome {
    let mut real = Real::for_setup(setup);
    let mut out = Outcome { disagreed: false, violations: vec![], nontrivial: false, tags: vec![], observations: vec![] };
    let init = setup.init_line();
    let a = m.ask(&init);
    if a != "ok" {
        rep.disagree(stream, json!({"init": init}), "ok", &a);
        out.disagreed = true;
        return out;
    }
    let mut state_changes = 0;
    // After a model-vs-implementation disagreement the rest of the script still runs on the REAL
    // objects alone, so that the property monitors can turn the divergence into a failing input.
    let mut model_ok = true;
    // once true, monitor hits are observations (the script left the property's alphabet)
    let mut outside = !in_quantifier;
    for (n, line) in lines.iter().enumerate() {
        let ia = real.exec(line);
        // the model follows the whole script — after a disagreement only to classify cleanup events
        let ma = m.ask(line);
        // A participant-side cleanup (`stale` / `recover`) written into an in-quantifier script (directed
        // late-duplicate templates, replays, shrink candidates) is inside the quantifier exactly when
        // it is a no-op on the code as it is, i.e. the MODEL has no prepared record to discard at that
        // point of the same script; otherwise the rest of the script is outside (observations only).
        let cleanup_noop = is_cleanup(line) && ma.starts_with("ids - ");
        // Every other event the MODEL flags as outside the alphabet (a forged YES in the name of a real
        // participant, a tick that expires a lock) puts the rest of the script outside the quantifier as
        // well.  (A `begin` is never outside: the workload is unrestricted since 3e4ef1c8.)
        if ma.contains(" !outside") && !cleanup_noop {
            outside = true;
        }
        for v in real.viol.drain(..) {
            if !outside {
                // each class once per script; the run goes on with every monitor armed
                if !out.violations.iter().any(|(c, _)| c == v.class) {
                    out.violations.push((v.class.to_string(), v.what));
                }
            } else {
                out.observations.push(format!("{}: {}", v.class, v.what));
            }
        }
        if model_ok {
            let mut ma_cmp = collapse_end_refusal(line, &ma);
            if outside || cleanup_noop {
                ma_cmp = ma_cmp.replace(" !outside", "");
            }
            if ia != ma_cmp {
                rep.disagree(stream, json!({"setup": init, "script": &lines[..=n], "at": line}), &ia, &ma);
                out.disagreed = true;
                model_ok = false;
            } else {
                if ma.contains("!outside") && !cleanup_noop {
                    out.tags.push("outside_alphabet_event".into());
                    out.tags.push(format!("outside_alphabet_event.{}", line.split_whitespace().next().unwrap_or("")));
                }
                let id = real.dump();
                let md = m.ask(if setup.wal { "dumpw" } else { "dump" });
                if id != md {
                    rep.disagree(stream, json!({"setup": init, "script": &lines[..=n], "at": format!("dump after `{line}`")}), &id, &md);
                    out.disagreed = true;
                    model_ok = false;
                }
            }
        }
        if !line.starts_with("preload") {
            let t = tag_of(line, &ia, &real);
            if !t.ends_with(".absent") && !t.contains("err") && !t.ends_with("none") && t != "tick" {
                state_changes += 1;
            }
            out.tags.push(t);
        }
        if model_ok && real.coord.lock_manager().active_lock_count() != 0 {
            rep.disagree(stream, json!({"setup": init, "script": &lines[..=n]}), "coordinator-local lock table non-empty", "assumed empty (not modelled)");
            out.disagreed = true;
            model_ok = false;
        }
    }
    for sh in 0..real.stores.len() {
        let (a, b) = (real.snapshot(sh), real.snapshot_via_get(sh));
        if a != b {
            rep.disagree(stream, json!({"setup": init, "script": lines, "at": format!("end: shard {sh} read through scan+get")}), &format!("{b:?}"), &format!("{a:?}"));
            out.disagreed = true;
        }
    }
    out.tags.append(&mut real.hits);
    for (_, r) in &real.reasons {
        out.tags.push(format!("reason.{r}"));
    }
    out.nontrivial = state_changes >= 2 && !real.decided.is_empty();
    out
}

fn is_cleanup(line: &str) -> bool {
    line.starts_with("stale ") || line.starts_with("recover ")
}

/// The script stays inside the property's alphabet (asked of the model): no event is flagged
/// `!outside`, except participant-side cleanups that are no-ops on the code as it is.
fn cleanups_are_noops(m: &mut Model, setup: &Setup, lines: &[String]) -> bool {
    if !lines.iter().any(|l| is_cleanup(l) || l.starts_with("begin ") || l.starts_with("forge ") || l.starts_with("tick ") || l.starts_with("ack ")) {
        return true;
    }
    if m.ask(&setup.init_line()) != "ok" {
        return false;
    }
    lines.iter().all(|l| {
        let a = m.ask(l);
        if is_cleanup(l) {
            a.starts_with("ids - ")
        } else {
            !a.contains(" !outside")
        }
    })
}

// ------------------------------------------------------------------ generators

fn gen_ops(r: &mut Rng, nkeys: u64) -> Vec<Op> {
    gen_ops_kinds(r, nkeys, 0, false)
}

/// `mixed`: all ten `Transaction` kinds over the logical names `base..base+nkeys` (rows 0..2, edge
/// targets / types 0..3, values 1..4 so that CompareAndSwap expectations match often).  A fifth of the
/// operations of a mixed workload are ALIASES: Put / Delete / CompareAndSwap addressed directly to the
/// storage key that a prefixed kind reaches through its logical name (`"emb:k1"`, `"node:k1"`,
/// `"table:k1"`, `"table:k1:row:0"`, `"edge:k1:k0:k2"`) — the transactions that only the storage-key
/// and write-key locks of `prepare` keep apart from `Embed{k1}`, `NodeCreate{k1}`, `Table*{k1}`, ….
fn gen_ops_kinds(r: &mut Rng, nkeys: u64, base: u64, mixed: bool) -> Vec<Op> {
    let n = 1 + r.below(2);
    (0..n)
        .map(|_| {
            let k = base + r.below(nkeys);
            if !mixed {
                return if r.chance(3, 4) { Op::Put(k, 1 + r.below(200)) } else { Op::Del(k) };
            }
            let v = 1 + r.below(4);
            if r.chance(1, 5) {
                let sk = match r.below(6) {
                    0 | 1 => 10_000 + k,
                    2 => 20_000 + k,
                    3 => 30_000 + k,
                    4 => 40_000 + 100 * k + r.below(2),
                    _ => 50_000 + 100 * k + 10 * r.below(3) + r.below(3),
                };
                return match r.below(5) {
                    0..=2 => Op::Put(sk, v),
                    3 => Op::Del(sk),
                    _ => Op::Cas(sk, if r.chance(1, 2) { None } else { Some(1 + r.below(4)) }, v),
                };
            }
            match r.below(20) {
                0..=4 => Op::Put(k, v),
                5 | 6 => Op::Del(k),
                7..=9 => Op::Cas(k, if r.chance(1, 4) { None } else { Some(1 + r.below(4)) }, v),
                10 | 11 => Op::Embed(k, v),
                12 | 13 => Op::NodeCreate(k, v),
                14 => Op::NodeDelete(k),
                15 => Op::EdgeCreate(k, r.below(3), r.below(3)),
                16 => Op::TableInsert(k, v),
                17 | 18 => Op::TableUpdate(k, r.below(2), v),
                _ => Op::TableDelete(k, r.below(2)),
            }
        })
        .collect()
}

/// sim pairs computed with the REAL `DeltaVector::cosine_similarity` and the config threshold
fn sim_pairs(shards: &[usize], ops: &[Vec<Op>], embs: &[u64], threshold: f32) -> Vec<(usize, usize)> {
    let mk = |i: usize| {
        DeltaVector::from_sparse(emb_vec(embs[i]), ops[i].iter().map(|o| kname(o.key())).collect(), 1)
    };
    let mut v = vec![];
    for i in 0..shards.len() {
        for j in (i + 1)..shards.len() {
            if mk(i).cosine_similarity(&mk(j)).abs() >= threshold {
                v.push((shards[i], shards[j]));
            }
        }
    }
    v
}

fn begin_line(shards: &[usize], ops: &[Vec<Op>], embs: &[u64]) -> String {
    let sim = sim_pairs(shards, ops, embs, DistributedTxConfig::default().orthogonal_threshold);
    let sim_s = if sim.is_empty() { "-".to_string() } else { sim.iter().map(|(a, b)| format!("{a}.{b}")).collect::<Vec<_>>().join(",") };
    format!(
        "begin {} {} {} emb={}",
        shards.iter().map(|s| s.to_string()).collect::<Vec<_>>().join(","),
        ops.iter().map(|o| show_ops(o)).collect::<Vec<_>>().join("/"),
        sim_s,
        dotted(embs)
    )
}

/// A random schedule.  The generator keeps a shadow of the pool (kinds only) by running the lines on
/// a scratch real system, so that it can aim at fresh / delivered / dropped messages and at txs in a
/// given phase.  Everything it learns that way is re-derived by `run_script` from the lines alone.
fn gen_schedule(r: &mut Rng, setup: &Setup, max_events: usize, rep: &mut Report) -> Vec<String> {
    gen_schedule_mode(r, setup, max_events, rep, false)
}

/// `late = true`: 1–2 keys per shard (so that transactions overlap), transactions mostly over all
/// shards and begun one after the other, and PREPARE / COMMIT / ABORT messages of transactions that
/// are already decided — preferably finished on the addressed shard — re-delivered late: while a
/// later transaction is prepared on the same shard, after its commit, and in an epilogue after the
/// last transaction finished.
fn gen_schedule_mode(r: &mut Rng, setup: &Setup, max_events: usize, rep: &mut Report, late: bool) -> Vec<String> {
    let mut real = Real::new(setup.n, setup.t_units, setup.maxc, false, setup.age_parts, setup.wal);
    let extended = setup.age_parts;
    let mut lines: Vec<String> = vec![];
    // wal mode: few keys, so that the shards of one transaction often name the same logical key (cross-shard conflicts)
    let nkeys = if late || setup.wal { 1 + r.below(2) } else { 2 + r.below(3) };
    // a third of the schedules draw from all ten Transaction kinds
    let mixed = r.chance(1, 3);
    let mut epilogue: Option<u64> = None;
    for sh in 0..setup.n {
        for k in 0..nkeys {
            if r.chance(1, 2) {
                lines.push(format!("preload {sh} {k} {}", if mixed { 1 + r.below(4) } else { 1 + r.below(200) }));
            }
        }
    }
    for l in &lines {
        real.exec(l);
    }
    let ntx = if late { 2 + r.below(2) as usize } else { 1 + r.below(3) as usize };
    let disjoint = !late && r.chance(1, 4);
    let mut delivered: Vec<u32> = vec![];
    let mut dropped: Vec<bool> = vec![];
    let mut events = 0;
    let mut ticks = 0u64;
    // a WAL restart rebuilds the pending entries (new deadlines): a checkpoint written before it is stale even when
    // it shows the same phases and votes
    let mut ckpt_since_wal_restart = true;
    while events < max_events {
        delivered.resize(real.pool.len(), 0);
        dropped.resize(real.pool.len(), false);
        let fresh: Vec<usize> = (0..real.pool.len()).filter(|&i| delivered[i] == 0 && !dropped[i]).collect();
        let seen: Vec<usize> = (0..real.pool.len()).filter(|&i| delivered[i] > 0).collect();
        let pending = real.coord.to_state().pending;
        let prepared_tx: Vec<usize> = pending.values().filter(|t| t.phase == TxPhase::Prepared).map(|t| real.dense(t.tx_id) as usize).collect();
        // late mode: pool messages (PREPARE / COMMIT / ABORT) of decided transactions that were delivered before
        let (mut late_hot, mut late_fin, mut late_any): (Vec<usize>, Vec<usize>, Vec<usize>) = (vec![], vec![], vec![]);
        if late {
            for &i in &seen {
                let (tx, sh, is_prepare) = match &real.pool[i] {
                    RMsg::Prepare { tx, sh } => (*tx, *sh, true),
                    RMsg::Commit { tx, sh } | RMsg::Abort { tx, sh } => (*tx, *sh, false),
                    RMsg::Vote { .. } => continue,
                };
                if !real.decided.iter().any(|d| d.0 == tx) || sh >= real.parts.len() {
                    continue;
                }
                late_any.push(i);
                let zombie = real.parts[sh].get_awaiting_decision().contains(&real.txs[tx].real);
                if real.finished_on(sh, tx) || zombie {
                    late_fin.push(i);
                    // a PREPARE while another tx is prepared on the shard; a decision message after another tx applied there
                    let other_prepared = real.parts[sh].get_awaiting_decision().iter().any(|t| *t != real.txs[tx].real);
                    if (is_prepare && other_prepared) || (!is_prepare && real.overlapping_commit_applied(sh, tx)) {
                        late_hot.push(i);
                    }
                }
            }
        }
        if fresh.is_empty() && real.txs.len() >= ntx && prepared_tx.is_empty() && (pending.is_empty() || events > max_events / 2) {
            if !late || late_any.is_empty() {
                break;
            }
            // epilogue: a few more late duplicates after everything has finished
            let left = *epilogue.get_or_insert(2 + r.below(5));
            if left == 0 {
                break;
            }
            epilogue = Some(left - 1);
            let from = if !late_hot.is_empty() && r.chance(1, 2) { &late_hot } else if !late_fin.is_empty() && r.chance(2, 3) { &late_fin } else { &late_any };
            let i = *r.pick(from);
            rep.hit("net.late_duplicate");
            let line = format!("deliver {i}");
            real.exec(&line);
            lines.push(line);
            continue;
        }
        let mut choices: Vec<(&str, u64)> = vec![];
        if real.txs.len() < ntx + usize::from(setup.maxc <= 2) {
            let all_decided = (0..real.txs.len()).all(|t| real.decided.iter().any(|d| d.0 == t));
            choices.push(("begin", if real.txs.is_empty() { 40 } else if late { if all_decided { 30 } else { 2 } } else { 6 }));
        }
        if !late_any.is_empty() {
            choices.push(("late", if late_hot.is_empty() { 6 } else { 16 }));
        }
        if !fresh.is_empty() {
            choices.push(("fresh", 30));
            choices.push(("drop", 2));
        }
        if !seen.is_empty() {
            choices.push(("dup", 5));
        }
        if !real.txs.is_empty() {
            choices.push(("tick", 3));
            choices.push(("sweep", 3));
            choices.push(("cabort", 1));
            choices.push(("forge", 3));
            choices.push(("ccommit", if prepared_tx.is_empty() { 1 } else { 25 }));
            if extended {
                choices.push(("stale", 3));
                choices.push(("recover", 3));
            }
            if setup.recovery {
                choices.push(("crecover", 5));
                choices.push(("ccomplete", 5));
                choices.push(("cforce", 2));
            }
            if setup.restart {
                // aim at the histories in which recover() meets a decided / fully voted entry, before and after
                // its deadline: restarts are frequent while a tx is Prepared or Committing, the clock moves in
                // larger steps, and commit() is left to recovery half of the time
                let hot = pending.values().any(|t| matches!(t.phase, TxPhase::Prepared | TxPhase::Committing | TxPhase::Aborting));
                choices.push(("crecover", if hot { 14 } else { 4 }));
                choices.push(("crestart", if hot { 8 } else { 3 }));
                choices.push(("ckpt", 2));
                choices.push(("crestore", 2));
                choices.push(("ccomplete", 4));
                choices.push(("bigtick", if hot { 8 } else { 2 }));
            }
        }
        if setup.wal && !real.txs.is_empty() {
            // WAL restarts (Wal.lean `ReachW`): frequent once a transaction was ABORTED although every participant's YES
            // reached `record_vote` (timeout before the late vote, cross-shard conflict) and while an entry is Prepared /
            // Committing; timeouts fire early (sweeps while a Preparing entry is past its deadline); no sweep / recover()
            // while a Prepared entry is past its deadline (`Sys.sparesPrepared`: that abort is not logged)
            let hot_abort = (0..real.txs.len()).any(|d| {
                real.decided.contains(&(d, false)) && real.txs[d].shards.iter().all(|sh| real.yes_handed.contains(&(d, *sh)))
            });
            let hot = hot_abort || pending.values().any(|t| matches!(t.phase, TxPhase::Prepared | TxPhase::Committing));
            choices.push(("wrestart", if hot_abort { 14 } else if hot { 8 } else { 3 }));
            let late_preparing = pending.values().any(|t| t.phase == TxPhase::Preparing && real.past_deadline(real.dense(t.tx_id) as usize));
            let late_prepared = pending.values().any(|t| t.phase == TxPhase::Prepared && real.past_deadline(real.dense(t.tx_id) as usize));
            for c in choices.iter_mut() {
                if c.0 == "sweep" && late_preparing {
                    c.1 = 14;
                }
                if (c.0 == "sweep" || c.0 == "crecover") && late_prepared {
                    c.1 = 0;
                }
                if c.0 == "ccommit" && late_prepared {
                    c.1 = 40;
                }
            }
        }
        if setup.restart {
            // inside `ReachK`: no timeout sweep while a Committing entry is pending (`Sys.sparesCommitting`),
            // fewer direct commit() calls
            let committing = pending.values().any(|t| t.phase == TxPhase::Committing);
            for c in choices.iter_mut() {
                if c.0 == "sweep" && committing {
                    c.1 = 0;
                }
                if c.0 == "ccommit" && !prepared_tx.is_empty() {
                    c.1 = 10;
                }
            }
        }
        let total: u64 = choices.iter().map(|c| c.1).sum();
        let mut x = r.below(total);
        let mut pick = choices[0].0;
        for (c, w) in &choices {
            if x < *w {
                pick = c;
                break;
            }
            x -= w;
        }
        let line = match pick {
            "begin" => {
                let mut all: Vec<usize> = (0..setup.n).collect();
                r.shuffle(&mut all);
                let cnt = if late && r.chance(3, 4) {
                    setup.n
                } else if r.chance(1, 6) {
                    1
                } else {
                    2 + r.below(setup.n as u64 - 1) as usize
                }
                .min(setup.n);
                let mut shards: Vec<usize> = all[..cnt].to_vec();
                if r.chance(2, 3) {
                    shards.sort_unstable();
                }
                let base = if disjoint { 10 * (real.txs.len() as u64 + 1) } else { 0 };
                let ops: Vec<Vec<Op>> = shards.iter().map(|_| gen_ops_kinds(r, nkeys, base, mixed)).collect();
                // mostly orthogonal or zero embeddings; sometimes two shards share a direction
                let same = if setup.wal { r.chance(1, 2) } else { r.chance(1, 5) };
                let e0 = 1 + r.below(3);
                let embs: Vec<u64> = (0..shards.len()).map(|i| if same { e0 } else if r.chance(1, 5) { 0 } else { 1 + ((i as u64 + e0) % 3) }).collect();
                begin_line(&shards, &ops, &embs)
            },
            "fresh" => {
                let j = if r.chance(1, 2) { 0 } else { r.below(fresh.len() as u64) as usize };
                if j != 0 {
                    rep.hit("net.reorder");
                }
                delivered[fresh[j]] += 1;
                format!("deliver {}", fresh[j])
            },
            "late" => {
                let from = if !late_hot.is_empty() && r.chance(2, 3) { &late_hot } else if !late_fin.is_empty() && r.chance(2, 3) { &late_fin } else { &late_any };
                let i = *r.pick(from);
                delivered[i] += 1;
                rep.hit("net.late_duplicate");
                format!("deliver {i}")
            },
            "dup" => {
                let i = *r.pick(&seen);
                delivered[i] += 1;
                rep.hit("net.duplicate");
                format!("deliver {i}")
            },
            "drop" => {
                let i = *r.pick(&fresh);
                dropped[i] = true;
                rep.hit("net.drop");
                continue;
            },
            "tick" => {
                let d = 1 + r.below(2);
                if ticks + d > 200 {
                    continue;
                }
                ticks += d;
                format!("tick {d}")
            },
            "sweep" => "sweep".to_string(),
            "bigtick" => {
                let d = 1 + r.below(4);
                if ticks + d > 200 {
                    continue;
                }
                ticks += d;
                format!("tick {d}")
            },
            "ckpt" => {
                ckpt_since_wal_restart = true;
                "ckpt".to_string()
            },
            "crestore" | "crestart" => {
                // crash + restart: the checkpoint must be current (every change of the pending map was persisted);
                // `crestart` writes it first, a bare `crestore` is only drawn when the stored one still is
                let current = ckpt_since_wal_restart && real.saved_state().map(|k| real.show_pending(&k.pending)) == Some(real.show_pending(&pending));
                if pick == "crestart" && !current {
                    ckpt_since_wal_restart = true;
                    real.exec("ckpt");
                    lines.push("ckpt".to_string());
                    events += 1;
                } else if !current {
                    continue;
                }
                "crestore".to_string()
            },
            "stale" | "recover" => {
                // with >= 2 prepared entries whose locks expired the outcome may depend on HashMap
                // iteration order: only emitted when at most one entry is prepared on the shard
                let sh = r.below(setup.n as u64) as usize;
                if real.parts[sh].prepared_count() > 1 {
                    continue;
                }
                format!("{pick} {sh} {}", r.below(3))
            },
            "cabort" => {
                let t = r.below(real.txs.len() as u64 + 1);
                // inside `ReachK`: abort() is not called on a Committing entry
                if setup.restart && real.txs.get(t as usize).is_some_and(|x| real.coord.get(x.real).is_some_and(|p| p.phase == TxPhase::Committing)) {
                    continue;
                }
                format!("cabort {t}")
            },
            "crecover" => "crecover".to_string(),
            "wrestart" => {
                ckpt_since_wal_restart = false;
                "wrestart".to_string()
            },
            "ccomplete" => {
                let dec = real.coord.get_pending_decisions();
                if !dec.is_empty() && r.chance(4, 5) {
                    let (t, p) = *r.pick(&dec);
                    // mostly the matching completion, sometimes the wrong one
                    let commit = (p == TxPhase::Committing) != r.chance(1, 8);
                    format!("ccomplete_{} {}", if commit { "commit" } else { "abort" }, real.dense(t))
                } else {
                    format!("ccomplete_{} {}", if r.chance(1, 2) { "commit" } else { "abort" }, r.below(real.txs.len() as u64 + 1))
                }
            },
            "cforce" => format!("cforce {} {}", r.below(real.txs.len() as u64 + 1), r.below(2)),
            "forge" => {
                // inside the alphabet: any NO / CONFLICT (also for a tx that is not begun yet), a YES only
                // tagged with a shard that is not a participant of an existing tx (zero embedding)
                let tx = r.below(real.txs.len() as u64 + 1) as usize;
                let sh = r.below(setup.n as u64 + 2) as usize;
                let strays: Vec<usize> = real.txs.get(tx).map_or(vec![], |t| (0..setup.n + 2).filter(|s| !t.shards.contains(s)).collect());
                match r.below(10) {
                    0..=3 => format!("forge {tx} {sh} n"),
                    4 | 5 => format!("forge {tx} {sh} c{}", r.below(real.txs.len() as u64 + 1)),
                    _ if !strays.is_empty() => {
                        let keys: Vec<u64> = (0..2).filter(|_| r.chance(1, 2)).collect();
                        format!("forge {tx} {} y{}:{}:e0", r.pick(&strays), 900 + real.pool.len(), dotted(&keys))
                    },
                    _ => format!("forge {tx} {sh} n"),
                }
            },
            _ => {
                if !prepared_tx.is_empty() && r.chance(9, 10) {
                    format!("ccommit {}", r.pick(&prepared_tx))
                } else {
                    format!("ccommit {}", r.below(real.txs.len() as u64 + 1))
                }
            },
        };
        real.exec(&line);
        lines.push(line);
        events += 1;
    }
    if setup.wal && !real.txs.is_empty() {
        // epilogue: one more WAL restart once every late vote is in the log, and what it re-sends is delivered
        let from = real.pool.len();
        real.exec("wrestart");
        lines.push("wrestart".to_string());
        for i in from..real.pool.len() {
            lines.push(format!("deliver {i}"));
        }
    }
    // every schedule ends with the network delivering the queued ABORTs of the aborted transactions (`settle` oracle)
    lines.push("settle".to_string());
    lines
}

/// A script written against the REAL objects of the tree under test: pool indices are read off the real pool, so the
/// same history is expressed correctly whatever messages the code under test queues.
struct Script {
    real: Real,
    lines: Vec<String>,
}
impl Script {
    fn new(setup: &Setup) -> Script {
        Script { real: Real::for_setup(setup), lines: vec![] }
    }
    /// run one line; the pool indices of the messages it produced
    fn run(&mut self, line: String) -> std::ops::Range<usize> {
        let from = self.real.pool.len();
        self.real.exec(&line);
        self.lines.push(line);
        from..self.real.pool.len()
    }
    fn deliver_all(&mut self, idx: std::ops::Range<usize>) -> std::ops::Range<usize> {
        let from = self.real.pool.len();
        for i in idx {
            self.run(format!("deliver {i}"));
        }
        from..self.real.pool.len()
    }
    /// a whole transaction without any loss: begin, every PREPARE, every vote, commit(), every COMMIT
    fn full_tx(&mut self, begin: String) {
        let p = self.run(begin);
        let v = self.deliver_all(p);
        self.deliver_all(v);
        let tx = self.real.txs.len().saturating_sub(1);
        let c = self.run(format!("ccommit {tx}"));
        self.deliver_all(c);
    }
}

/// what happens to one participant of T0 around the coordinator's timeout
#[derive(Clone, Copy, PartialEq, Debug)]
enum Fate {
    /// PREPARE delivered, YES recorded by the coordinator before the timeout
    Recorded,
    /// PREPARE delivered (locks taken, YES sent), the vote reaches the coordinator only after the timeout sweep
    VoteDelayed,
    /// PREPARE delivered, the vote is lost
    VoteLost,
    /// the PREPARE is lost
    PrepareLost,
    /// the PREPARE arrives after the abort was delivered (the re-sent ABORT cleans up)
    PrepareLate,
}

/// The timeout-abort history: T0 over all shards, each participant meets its `Fate`, the coordinator's timeout fires,
/// the queued ABORTs (and late votes, in either order) are delivered, `settle`; then T1 writes the same keys on every
/// shard without loss and must commit everywhere; `settle` again.
fn timeout_abort_script(setup: &Setup, fates: &[Fate], aborts_before_late_votes: bool, preload: bool) -> Vec<String> {
    let n = setup.n;
    let mut sc = Script::new(setup);
    let shards: Vec<usize> = (0..n).collect();
    let embs: Vec<u64> = (0..n as u64).map(|i| 1 + i % 3).collect();
    let ops = |base: usize| (0..n).map(|sh| parse_ops(&format!("p{}={}", sh + 1, base + sh))).collect::<Vec<_>>();
    if preload {
        for sh in 0..n {
            sc.run(format!("preload {sh} {} {}", sh + 1, 5 + sh));
        }
    }
    let p = sc.run(begin_line(&shards, &ops(7), &embs));
    let mut vote_idx: Vec<Option<usize>> = vec![None; n];
    for sh in 0..n {
        if matches!(fates[sh], Fate::Recorded | Fate::VoteDelayed | Fate::VoteLost) {
            vote_idx[sh] = sc.run(format!("deliver {}", p.start + sh)).next();
        }
    }
    for sh in 0..n {
        if fates[sh] == Fate::Recorded {
            if let Some(v) = vote_idx[sh] {
                sc.run(format!("deliver {v}"));
            }
        }
    }
    sc.run("tick 3".into());
    let a = sc.run("sweep".into());
    if aborts_before_late_votes {
        sc.deliver_all(a.clone());
    }
    for sh in 0..n {
        if fates[sh] == Fate::VoteDelayed {
            if let Some(v) = vote_idx[sh] {
                sc.run(format!("deliver {v}"));
            }
        }
    }
    sc.run("settle".into());
    if fates.contains(&Fate::PrepareLate) {
        for sh in 0..n {
            if fates[sh] == Fate::PrepareLate {
                let v = sc.run(format!("deliver {}", p.start + sh));
                sc.deliver_all(v);
            }
        }
        sc.run("settle".into());
    }
    sc.full_tx(begin_line(&shards, &ops(20), &embs));
    sc.run("settle".into());
    sc.lines
}

/// what the network does to the ABORT addressed to one participant and to that participant's acknowledgement
#[derive(Clone, Copy, PartialEq, Debug)]
enum AckFate {
    /// ABORT delivered, TxAck delivered once
    Acked,
    /// ABORT delivered, TxAck delivered, and delivered AGAIN after every other shard's acknowledgement
    AckDup,
    /// ABORT delivered, TxAck delivered twice in a row (while the other acknowledgements are still outstanding)
    AckDupEarly,
    /// the ABORT message is lost (never delivered; only a re-sent one can reach the shard)
    AbortLost,
    /// ABORT delivered, the TxAck is lost
    AckLost,
}

/// The abort-acknowledgement history (Ack.lean): T0 over all shards is aborted — `conflict`: the last shard's key is
/// held by a single-shard transaction, so T0 collects YES, .., YES, CONFLICT; else the coordinator's timeout fires with
/// every vote but the last recorded —, the broadcast meets each participant's `AckFate`, [`aretry 1000`, its re-sent
/// messages lost again,] `asettle` (retry round over a network that delivers); then a loss-free follow-up transaction
/// over the same keys must commit everywhere; `settle`.
fn abort_ack_script(setup: &Setup, conflict: bool, fates: &[AckFate], early_retry: bool) -> Vec<String> {
    use AckFate::*;
    let n = setup.n;
    let mut sc = Script::new(setup);
    let shards: Vec<usize> = (0..n).collect();
    let embs: Vec<u64> = (0..n as u64).map(|i| 1 + i % 3).collect();
    let ops = |base: usize| (0..n).map(|sh| parse_ops(&format!("p{}={}", sh + 1, base + sh))).collect::<Vec<_>>();
    let mut blocker = None;
    if conflict {
        let p = sc.run(begin_line(&[n - 1], &[parse_ops(&format!("p{n}=3"))], &[2]));
        let v = sc.deliver_all(p);
        sc.deliver_all(v);
        blocker = Some(sc.real.txs.len() - 1);
    }
    let p = sc.run(begin_line(&shards, &ops(7), &embs));
    let t0 = sc.real.txs.len() - 1;
    let v = sc.deliver_all(p);
    let from = sc.real.pool.len();
    if conflict {
        sc.deliver_all(v);
    } else {
        sc.deliver_all(v.start..v.end.saturating_sub(1));
        sc.run("tick 3".into());
        sc.run("sweep".into());
    }
    if let Some(b) = blocker {
        let c = sc.run(format!("ccommit {b}"));
        sc.deliver_all(c);
    }
    // the abort broadcast of T0
    let aborts: Vec<(usize, usize)> =
        (from..sc.real.pool.len()).filter_map(|i| if let RMsg::Abort { tx, sh } = &sc.real.pool[i] { (*tx == t0).then_some((i, *sh)) } else { None }).collect();
    for &(i, sh) in &aborts {
        if fates.get(sh).is_some_and(|f| *f != AbortLost) {
            sc.run(format!("deliver {i}"));
        }
    }
    for &(_, sh) in &aborts {
        match fates.get(sh) {
            Some(Acked) | Some(AckDup) => {
                sc.run(format!("ack {t0} {sh}"));
            },
            Some(AckDupEarly) => {
                sc.run(format!("ack {t0} {sh}"));
                sc.run(format!("ack {t0} {sh}"));
            },
            _ => {},
        }
    }
    for &(_, sh) in &aborts {
        if fates.get(sh) == Some(&AckDup) {
            sc.run(format!("ack {t0} {sh}"));
        }
    }
    if early_retry {
        // first back-off step: the ABORT is re-sent to the unacknowledged shards — and lost again
        sc.run("aretry 1000".into());
    }
    sc.run("asettle".into());
    sc.full_tx(begin_line(&shards, &ops(20), &embs));
    sc.run("settle".into());
    sc.lines
}

/// Directed abort-acknowledgement histories, run first.  The first one is the shortest history in which "the entry is
/// dropped only when the set of outstanding shards is EMPTY after removing the acknowledging shard" is the only thing
/// between a duplicated acknowledgement and a YES-voter that never learns the abort: 3 shards, the ABORT to shard 1 is
/// lost, shard 0's acknowledgement is delivered twice, retry.  The others are its neighbours.
fn directed_abort_acks() -> Vec<(String, Setup, Vec<String>)> {
    use AckFate::*;
    let cases: Vec<(&str, bool, Vec<AckFate>, bool)> = vec![
        ("3-shards/conflict/abort-to-shard-1-lost+ack-of-shard-0-duplicated", true, vec![AckDup, AbortLost, Acked], false),
        ("3-shards/conflict/abort-to-shard-1-lost", true, vec![Acked, AbortLost, Acked], false),
        ("3-shards/conflict/ack-of-shard-0-duplicated", true, vec![AckDup, Acked, Acked], false),
        ("3-shards/conflict/ack-of-shard-1-lost+ack-of-shard-2-duplicated", true, vec![Acked, AckLost, AckDup], false),
        ("3-shards/conflict/abort-to-shard-0-lost+ack-of-shard-1-duplicated+retry-lost-again", true, vec![AbortLost, AckDup, Acked], true),
        ("3-shards/conflict/two-aborts-lost+ack-duplicated", true, vec![AbortLost, AbortLost, AckDup], false),
        ("3-shards/conflict/early-duplicate", true, vec![AckDupEarly, AbortLost, Acked], false),
        ("3-shards/timeout/abort-to-shard-1-lost+ack-of-shard-0-duplicated", false, vec![AckDup, AbortLost, Acked], false),
        ("3-shards/timeout/abort-to-shard-2-lost+ack-of-shard-1-duplicated+retry-lost-again", false, vec![Acked, AckDup, AbortLost], true),
        ("3-shards/timeout/every-ack-delivered", false, vec![Acked, Acked, Acked], false),
        ("2-shards/conflict/abort-to-shard-0-lost+ack-of-shard-1-duplicated", true, vec![AbortLost, AckDup], false),
        ("2-shards/timeout/abort-to-shard-1-lost+ack-of-shard-0-duplicated", false, vec![AckDup, AbortLost], false),
        ("2-shards/timeout/every-ack-lost", false, vec![AckLost, AckLost], true),
        ("2-shards/conflict/every-ack-duplicated", true, vec![AckDup, AckDup], false),
    ];
    cases
        .into_iter()
        .map(|(name, conflict, fates, early)| {
            let setup = plain_setup(fates.len());
            let lines = abort_ack_script(&setup, conflict, &fates, early);
            (name.to_string(), setup, lines)
        })
        .collect()
}

/// Random schedules of the same shape: an aborted transaction over 2–3 shards (conflict vote or timeout), sometimes a
/// second one aborted by `cabort`; then a random interleaving of ABORT deliveries (some never: lost), acknowledgements of
/// shards that were told (each possibly several times, at any point), and at most two `aretry` steps whose re-sent
/// messages are delivered or not; `asettle`; a loss-free follow-up transaction; `settle`.
fn gen_abort_acks(r: &mut Rng, setup: &Setup) -> Vec<String> {
    let n = setup.n;
    let mut sc = Script::new(setup);
    let shards: Vec<usize> = (0..n).collect();
    let embs: Vec<u64> = (0..n as u64).map(|i| 1 + i % 3).collect();
    let ops = |base: usize| (0..n).map(|sh| parse_ops(&format!("p{}={}", sh + 1, base + sh))).collect::<Vec<_>>();
    let conflict = r.below(2) == 0;
    let mut blocker = None;
    if conflict {
        let p = sc.run(begin_line(&[n - 1], &[parse_ops(&format!("p{n}=3"))], &[2]));
        let v = sc.deliver_all(p);
        sc.deliver_all(v);
        blocker = Some(sc.real.txs.len() - 1);
    }
    let p = sc.run(begin_line(&shards, &ops(7), &embs));
    let v = sc.deliver_all(p);
    if conflict {
        sc.deliver_all(v);
    } else {
        sc.deliver_all(v.start..v.end.saturating_sub(1 + r.below(2) as usize));
        sc.run("tick 3".into());
        sc.run("sweep".into());
    }
    if let Some(b) = blocker {
        let c = sc.run(format!("ccommit {b}"));
        sc.deliver_all(c);
    }
    if r.below(4) == 0 {
        // a second aborted transaction on other keys (two tracked entries)
        let p2 = sc.run(begin_line(&shards, &(0..n).map(|sh| parse_ops(&format!("p{}=1", sh + 5))).collect::<Vec<_>>(), &embs));
        let v2 = sc.deliver_all(p2);
        sc.deliver_all(v2.start..v2.start + r.below(n as u64) as usize);
        let t = sc.real.txs.len() - 1;
        sc.run(format!("cabort {t}"));
    }
    // per (tx, shard) of the abort broadcasts: is the original ABORT lost?
    let lost: HashSet<usize> = (0..sc.real.pool.len()).filter(|i| matches!(sc.real.pool[*i], RMsg::Abort { .. }) && r.below(3) == 0).collect();
    let mut retries = 0;
    let steps = 4 + r.below(10);
    for _ in 0..steps {
        let aborts: Vec<(usize, usize, usize)> =
            (0..sc.real.pool.len()).filter_map(|i| if let RMsg::Abort { tx, sh } = &sc.real.pool[i] { Some((i, *tx, *sh)) } else { None }).collect();
        let mut told: Vec<(usize, usize)> = sc.real.told.iter().copied().collect();
        told.sort_unstable();
        match r.below(10) {
            0..=3 => {
                let c: Vec<_> = aborts.iter().filter(|a| !lost.contains(&a.0)).collect();
                if !c.is_empty() {
                    let a = c[r.below(c.len() as u64) as usize];
                    sc.run(format!("deliver {}", a.0));
                }
            },
            4..=8 => {
                // an acknowledgement of a shard that was told: first, duplicate, or of an entry already dropped
                if !told.is_empty() {
                    // bias: a shard that has acknowledged already while exactly one other shard is outstanding
                    let dup: Vec<(usize, usize)> = told.iter().copied().filter(|(t, s)| sc.real.tracked.get(t).is_some_and(|tr| tr.acked.contains(s)) && sc.real.outstanding(*t).len() == 1).collect();
                    let (t, s) = if !dup.is_empty() && r.below(2) == 0 { dup[r.below(dup.len() as u64) as usize] } else { told[r.below(told.len() as u64) as usize] };
                    sc.run(format!("ack {t} {s}"));
                }
            },
            _ => {
                if retries < 2 {
                    retries += 1;
                    sc.run(format!("aretry {}", [500, 1000, 2000, 4000][r.below(4) as usize]));
                }
            },
        }
    }
    sc.run("asettle".into());
    sc.full_tx(begin_line(&shards, &ops(20), &embs));
    sc.run("settle".into());
    sc.lines
}

fn plain_setup(n: usize) -> Setup {
    Setup { n, t_units: 2, maxc: 100, lock_to: 1000, wallclock: false, age_parts: false, recovery: false, restart: false, wal: false }
}

/// Directed timeout-abort histories, run first.  The first ones are the shortest histories in which "the timeout abort
/// is addressed to EVERY participant" is the only thing between a delayed / lost YES vote and a participant that stays
/// prepared (holding the aborted transaction's locks) for good; the others are their neighbours.
fn directed_timeout_abort() -> Vec<(String, Setup, Vec<String>)> {
    use Fate::*;
    let mut out = vec![];
    let cases: Vec<(&str, Vec<Fate>, bool)> = vec![
        ("2-shards/vote-delayed-past-timeout", vec![Recorded, VoteDelayed], false),
        ("2-shards/vote-lost", vec![Recorded, VoteLost], false),
        ("2-shards/vote-delivered-after-the-abort-deliveries", vec![Recorded, VoteDelayed], true),
        ("2-shards/no-vote-recorded", vec![VoteDelayed, VoteLost], false),
        ("2-shards/first-shard-vote-lost", vec![VoteLost, Recorded], true),
        ("2-shards/every-vote-recorded", vec![Recorded, Recorded], true),
        ("2-shards/prepare-lost", vec![Recorded, PrepareLost], false),
        ("2-shards/prepare-after-abort", vec![Recorded, PrepareLate], true),
        ("3-shards/vote-delayed-past-timeout", vec![Recorded, Recorded, VoteDelayed], false),
        ("3-shards/vote-lost", vec![Recorded, VoteLost, Recorded], true),
        ("3-shards/vote-delivered-after-the-abort-deliveries", vec![VoteDelayed, Recorded, Recorded], true),
        ("3-shards/one-delayed-one-lost", vec![Recorded, VoteDelayed, VoteLost], false),
        ("3-shards/prepare-lost-and-vote-lost", vec![PrepareLost, VoteLost, Recorded], true),
        ("3-shards/prepare-after-abort-and-vote-delayed", vec![PrepareLate, VoteDelayed, Recorded], true),
    ];
    for (name, fates, abf) in cases {
        let setup = plain_setup(fates.len());
        let lines = timeout_abort_script(&setup, &fates, abf, true);
        out.push((name.to_string(), setup, lines));
    }
    out
}

/// Random schedules of the same shape: random fates, a second transaction on overlapping or disjoint keys begun before
/// the timeout with random progress, duplicated / reordered ABORT and vote deliveries, then `settle`, a loss-free
/// follow-up transaction over the aborted transaction's keys, `settle`.
fn gen_timeout_abort(r: &mut Rng, setup: &Setup) -> Vec<String> {
    use Fate::*;
    let n = setup.n;
    let mut sc = Script::new(setup);
    let nkeys = 1 + r.below(2);
    for sh in 0..n {
        for k in 0..nkeys {
            if r.chance(1, 2) {
                sc.run(format!("preload {sh} {k} {}", 1 + r.below(100)));
            }
        }
    }
    let mixed = r.chance(1, 3);
    let mut all: Vec<usize> = (0..n).collect();
    r.shuffle(&mut all);
    let cnt = if r.chance(3, 4) { n } else { 2.min(n) };
    let mut shards: Vec<usize> = all[..cnt].to_vec();
    if r.chance(2, 3) {
        shards.sort_unstable();
    }
    let embs: Vec<u64> = (0..shards.len() as u64).map(|i| 1 + i % 3).collect();
    let ops0: Vec<Vec<Op>> = shards.iter().map(|_| gen_ops_kinds(r, nkeys, 0, mixed)).collect();
    let p = sc.run(begin_line(&shards, &ops0, &embs));
    let fates: Vec<Fate> = shards.iter().map(|_| match r.below(10) { 0..=3 => Recorded, 4..=6 => VoteDelayed, 7 => VoteLost, 8 => PrepareLost, _ => PrepareLate }).collect();
    // a concurrent transaction, begun before the timeout, on overlapping (same key range) or disjoint keys
    let concurrent = r.chance(1, 3);
    let mut pending_msgs: Vec<usize> = vec![];
    if concurrent {
        let base = if r.chance(1, 2) { 0 } else { 10 };
        let ops1: Vec<Vec<Op>> = shards.iter().map(|_| gen_ops_kinds(r, nkeys, base, mixed)).collect();
        pending_msgs.extend(sc.run(begin_line(&shards, &ops1, &embs)));
    }
    let mut vote_idx: Vec<Option<usize>> = vec![None; shards.len()];
    let mut order: Vec<usize> = (0..shards.len()).collect();
    r.shuffle(&mut order);
    for &i in &order {
        if matches!(fates[i], Recorded | VoteDelayed | VoteLost) {
            vote_idx[i] = sc.run(format!("deliver {}", p.start + i)).next();
        }
        if !pending_msgs.is_empty() && r.chance(1, 2) {
            let j = pending_msgs.remove(r.below(pending_msgs.len() as u64) as usize);
            pending_msgs.extend(sc.run(format!("deliver {j}")));
        }
    }
    for &i in &order {
        if fates[i] == Recorded {
            if let Some(v) = vote_idx[i] {
                pending_msgs.extend(sc.run(format!("deliver {v}")));
            }
        }
    }
    sc.run(format!("tick {}", 3 + r.below(2)));
    let a: Vec<usize> = sc.run("sweep".into()).collect();
    let mut later: Vec<usize> = a.clone();
    for (i, f) in fates.iter().enumerate() {
        if *f == VoteDelayed {
            later.extend(vote_idx[i]);
        }
    }
    later.extend(pending_msgs.drain(..));
    r.shuffle(&mut later);
    for i in later {
        if r.chance(1, 8) {
            continue; // lost
        }
        let more: Vec<usize> = sc.run(format!("deliver {i}")).collect();
        if r.chance(1, 6) {
            sc.run(format!("deliver {i}")); // duplicated
        }
        for j in more {
            if r.chance(2, 3) {
                let m2: Vec<usize> = sc.run(format!("deliver {j}")).collect();
                for k in m2 {
                    if r.chance(1, 2) {
                        sc.run(format!("deliver {k}"));
                    }
                }
            }
        }
    }
    sc.run("settle".into());
    for (i, f) in fates.iter().enumerate() {
        if *f == PrepareLate {
            let v = sc.run(format!("deliver {}", p.start + i));
            if r.chance(1, 2) {
                sc.deliver_all(v);
            }
        }
    }
    // the concurrent transaction is resolved (commit if it got that far, else the client aborts it)
    if concurrent {
        let c = sc.run("ccommit 1".into());
        if c.is_empty() {
            let c2 = sc.run("cabort 1".into());
            sc.deliver_all(c2);
        } else {
            sc.deliver_all(c);
        }
    }
    sc.run("settle".into());
    // loss-free follow-up over the aborted transaction's operations
    sc.full_tx(begin_line(&shards, &ops0, &embs));
    sc.run("settle".into());
    sc.lines
}

fn directed() -> Vec<(&'static str, Setup, Vec<String>)> {
    let s2 = || Setup { n: 2, t_units: 2, maxc: 100, lock_to: 1000, wallclock: false, age_parts: false, recovery: false, restart: false, wal: false };
    let l = |v: &[&str]| v.iter().map(|x| x.to_string()).collect::<Vec<String>>();
    let b = |sh: &[usize], ops: &[&str], embs: &[u64]| begin_line(sh, &ops.iter().map(|o| parse_ops(o)).collect::<Vec<_>>(), embs);
    vec![
        ("commit-2shard", s2(), {
            let mut v = l(&["preload 0 1 5"]);
            v.push(b(&[0, 1], &["p1=7+d2", "p3=9"], &[1, 2]));
            v.extend(l(&["deliver 0", "deliver 1", "deliver 2", "deliver 3", "ccommit 0", "deliver 4", "deliver 5", "deliver 4", "ccommit 0", "cabort 0", "sweep"]));
            v
        }),
        ("lock-conflict-abort", s2(), {
            let mut v = l(&["preload 0 1 5"]);
            v.push(b(&[0, 1], &["p1=7", "p3=9"], &[1, 2]));
            v.push(b(&[0, 1], &["p1=8", "p4=1"], &[1, 2]));
            // tx0 prepares shard0; tx1 conflicts on shard0, prepares shard1; tx1 aborts by conflict vote
            v.extend(l(&["deliver 0", "deliver 2", "deliver 3", "deliver 5", "deliver 6", "deliver 7", "deliver 8", "ccommit 1", "deliver 1", "deliver 4", "deliver 9", "ccommit 0", "deliver 10", "deliver 11"]));
            v
        }),
        ("timeout-preparing-late-votes", s2(), {
            let mut v = vec![];
            v.push(b(&[0, 1], &["p1=7", "p3=9"], &[1, 2]));
            v.extend(l(&["deliver 0", "tick 2", "sweep", "tick 1", "sweep", "deliver 1", "deliver 2", "deliver 5", "deliver 3", "deliver 4", "deliver 3", "ccommit 0"]));
            v
        }),
        ("timeout-in-prepared-then-commit", s2(), {
            let mut v = vec![];
            v.push(b(&[0, 1], &["p1=7", "p3=9"], &[1, 2]));
            v.extend(l(&["deliver 0", "deliver 1", "deliver 2", "deliver 3", "tick 3", "sweep", "ccommit 0", "deliver 4", "deliver 5", "deliver 4"]));
            v
        }),
        ("cross-shard-semantic-conflict", s2(), {
            let mut v = vec![];
            v.push(b(&[0, 1], &["p1=7", "p1=9"], &[1, 1]));
            v.extend(l(&["deliver 0", "deliver 1", "deliver 2", "deliver 3", "ccommit 0", "deliver 4", "deliver 5"]));
            v.push(b(&[0, 1], &["p1=7", "p2=9"], &[1, 1]));
            v.extend(l(&["deliver 6", "deliver 7", "deliver 8", "deliver 9", "ccommit 1", "deliver 10", "deliver 11"]));
            v
        }),
        ("too-many-and-duplicate-votes", Setup { maxc: 1, ..s2() }, {
            let mut v = vec![];
            v.push(b(&[0, 1], &["p1=7", "p3=9"], &[1, 2]));
            v.push(b(&[0], &["p2=7"], &[1]));
            v.extend(l(&["deliver 0", "deliver 2", "deliver 2", "deliver 0", "deliver 3", "deliver 1", "deliver 4", "deliver 4", "deliver 2", "cabort 0", "cabort 0", "deliver 5", "deliver 6"]));
            v.push(b(&[0], &["p2=7"], &[1]));
            v
        }),
        ("abort-before-prepare-arrives", s2(), {
            let mut v = l(&["preload 0 1 5"]);
            v.push(b(&[0, 1], &["p1=7", "p3=9"], &[1, 2]));
            v.extend(l(&["cabort 0", "deliver 2", "deliver 0", "deliver 2", "deliver 0", "deliver 1", "deliver 3"]));
            v
        }),
        // a shard named twice in the participant list (two PREPAREs, the second a duplicate; one vote
        // completes the quorum) and a participant with no operations (locks nothing, votes YES)
        ("degenerate-participants", s2(), {
            let mut v = l(&["preload 0 1 5"]);
            v.push(b(&[0, 0], &["p1=7", "p1=8"], &[1, 1])); //   0,1 = PREPARE(T0) to shard 0, twice
            v.push(b(&[1, 0], &["-", "c1?7=9"], &[0, 2])); //    2,3 = PREPARE(T1): shard 1 has nothing to do
            v.extend(l(&["deliver 0", "deliver 1", "deliver 4", "deliver 5", "ccommit 0", "deliver 6", "deliver 7",
                "deliver 2", "deliver 3", "deliver 8", "deliver 9", "ccommit 1", "deliver 10", "deliver 11"]));
            v
        }),
        ("three-shards-two-txs", Setup { n: 3, ..s2() }, {
            let mut v = l(&["preload 2 0 9"]);
            v.push(b(&[0, 1, 2], &["p0=1", "p0=2", "d0"], &[1, 2, 3]));
            v.push(b(&[2, 1], &["p1=4", "p1=5"], &[0, 0]));
            v.extend(l(&["deliver 4", "deliver 3", "deliver 2", "deliver 1", "deliver 0", "deliver 5", "deliver 6", "deliver 9", "deliver 8", "deliver 7", "ccommit 1", "ccommit 0", "deliver 10", "deliver 11", "deliver 12", "deliver 13", "deliver 14"]));
            v
        }),
    ]
}

/// The late-duplicate history (module doc), run before everything else.  T0 = tx 0 and T1 = tx 1 write
/// k1 on shard 0 (and k2.. on the other shards).  Variants: 2 / 3 shards; T0 finished on shard 0 by a
/// coordinator timeout (its PREPARE to the other shards is lost), by a NO vote from shard 1, or by its
/// own commit; the end: the re-sent ABORT(T0) (first ACK lost) or the participant's `cleanup_stale`.
/// On the code as it is the late PREPARE(T0) is answered CONFLICT(T1) and nothing else happens.
fn directed_late() -> Vec<(String, Setup, Vec<String>)> {
    let b = |sh: &[usize], ops: &[String], embs: &[u64]| begin_line(sh, &ops.iter().map(|o| parse_ops(o)).collect::<Vec<_>>(), embs);
    let mut out = vec![];
    for n in [2usize, 3] {
        for cause in ["timeout", "no-vote"] {
            for end in ["resent-abort", "cleanup-stale"] {
                let setup = Setup { n, t_units: 2, maxc: 100, lock_to: 1000, wallclock: false, age_parts: false, recovery: false, restart: false, wal: false };
                let shards: Vec<usize> = (0..n).collect();
                let embs: Vec<u64> = (0..n as u64).map(|i| 1 + i % 3).collect();
                let mut v: Vec<String> = (0..n).map(|sh| format!("preload {sh} {} {}", sh + 1, 5 + sh)).collect();
                let ops = |base: usize| (0..n).map(|sh| format!("p{}={}", sh + 1, base + sh)).collect::<Vec<String>>();
                v.push(b(&shards, &ops(7), &embs)); //            pool 0..n-1      = PREPARE(T0) per shard
                v.push("deliver 0".into()); //                     pool n           = shard 0's YES
                v.push(format!("deliver {n}"));
                if cause == "timeout" {
                    v.push("tick 3".into());
                    v.push("sweep".into()); //                     pool n+1..2n     = ABORT(T0) per shard
                } else {
                    for sh in 1..n {
                        v.push(format!("cvote 0 {sh} n -")); //     NO votes from the other shards -> same abort broadcast
                    }
                }
                for sh in 0..n {
                    v.push(format!("deliver {}", n + 1 + sh)); //  T0 discarded on shard 0, absent elsewhere
                }
                v.push(b(&shards, &ops(20), &embs)); //           pool 2n+1..3n    = PREPARE(T1) per shard
                v.push(format!("deliver {}", 2 * n + 1)); //       pool 3n+1        = shard 0's YES for T1 (holds k1)
                v.push("deliver 0".into()); //                     pool 3n+2        = answer to the late PREPARE(T0)
                v.push(format!("deliver {}", 3 * n + 2)); //       the late vote reaches a coordinator that is done with T0
                v.push(format!("deliver {}", 3 * n + 1));
                for sh in 1..n {
                    v.push(format!("deliver {}", 2 * n + 1 + sh)); // pool 3n+2+sh = shard sh's YES for T1
                    v.push(format!("deliver {}", 3 * n + 2 + sh));
                }
                v.push("ccommit 1".into()); //                     pool 4n+2..5n+1  = COMMIT(T1) per shard
                for sh in 0..n {
                    v.push(format!("deliver {}", 4 * n + 2 + sh));
                }
                v.push(if end == "resent-abort" { format!("deliver {}", n + 1) } else { "stale 0 0".to_string() });
                out.push((format!("late-prepare/{n}-shards/{cause}/{end}"), setup, v));
            }
        }
    }
    // T0 finished by its own COMMIT; the zombie's undo image is then T0's committed value
    {
        let setup = Setup { n: 2, t_units: 2, maxc: 100, lock_to: 1000, wallclock: false, age_parts: false, recovery: false, restart: false, wal: false };
        let mut v: Vec<String> = vec!["preload 0 1 5".into(), "preload 1 2 6".into()];
        v.push(b(&[0, 1], &["p1=7".to_string(), "p2=8".to_string()], &[1, 2])); // 0,1 = PREPARE(T0)
        for l in ["deliver 0", "deliver 1", "deliver 2", "deliver 3", "ccommit 0", "deliver 4", "deliver 5"] {
            v.push(l.into()); //                                   2,3 = votes; 4,5 = COMMIT(T0)
        }
        v.push(b(&[0, 1], &["p1=20".to_string(), "p2=21".to_string()], &[1, 2])); // 6,7 = PREPARE(T1)
        for l in ["deliver 6", "deliver 0", "deliver 9", "deliver 8", "deliver 7", "deliver 10", "ccommit 1", "deliver 11", "deliver 12", "stale 0 0"] {
            v.push(l.into()); //                                   8 = T1's YES on shard 0; 9 = late answer; 10 = shard 1's YES; 11,12 = COMMIT(T1)
        }
        out.push(("late-prepare/2-shards/committed/cleanup-stale".to_string(), setup, v));
    }
    out
}

/// Forged / mis-tagged votes inside the alphabet, run with the directed-late histories.  The first is
/// the shortest history in which the participant-membership test of `all_voted` is the only thing
/// between a stray YES and a commit without every participant's YES: T0 over shards {0,1} of 3, T1
/// holds T0's key on shard 1, a YES tagged "shard 2" reaches the coordinator after shard 0's YES and
/// BEFORE shard 1's CONFLICT.
fn directed_forged() -> Vec<(&'static str, Setup, Vec<String>)> {
    let s3 = || Setup { n: 3, t_units: 2, maxc: 100, lock_to: 1000, wallclock: false, age_parts: false, recovery: false, restart: false, wal: false };
    let l = |v: &[&str]| v.iter().map(|x| x.to_string()).collect::<Vec<String>>();
    let b = |sh: &[usize], ops: &[&str], embs: &[u64]| begin_line(sh, &ops.iter().map(|o| parse_ops(o)).collect::<Vec<_>>(), embs);
    vec![
        ("stray-yes-before-conflict", s3(), {
            let mut v = l(&["preload 0 1 5", "preload 1 2 6"]);
            v.push(b(&[0, 1], &["p1=7", "p2=8"], &[1, 2])); //   0,1 = PREPARE(T0)
            v.push(b(&[1, 2], &["p2=9", "p3=1"], &[1, 2])); //   2,3 = PREPARE(T1)
            v.extend(l(&[
                "deliver 2", //            4 = shard 1's YES for T1 (holds k2)
                "deliver 0", "deliver 5", // 5 = shard 0's YES for T0, recorded
                "forge 0 2 y900:5:e0", "deliver 6", // the stray YES "from shard 2" is recorded: 2 votes, 2 participants
                "ccommit 0", //            must be refused: shard 1 has not voted
                "deliver 1", "deliver 7", // 7 = shard 1's CONFLICT(T1) -> aborting, 8,9 = ABORT(T0)
                "ccommit 0", "deliver 8", "deliver 9",
                "deliver 3", "deliver 4", "deliver 10", "ccommit 1", "deliver 11", "deliver 12",
            ]));
            v
        }),
        ("forged-no-conflict-stray-votes", s3(), {
            let mut v = l(&["preload 0 1 5", "forge 0 0 n", "forge 0 7 c3"]); // 0,1: votes for a tx that does not exist yet
            v.push(b(&[0, 1], &["c1?5=6+e1=2", "u2.1=3+n2=4"], &[1, 2])); //  2,3 = PREPARE(T0)
            v.extend(l(&[
                "deliver 1", //            the early CONFLICT tagged shard 7 is now recorded for T0
                "deliver 2", "deliver 3", "deliver 4", "deliver 5", // both real YES: all participants voted, the stray CONFLICT makes it abort
                "ccommit 0", "deliver 6", "deliver 7", "deliver 0",
            ]));
            v.push(b(&[0, 1], &["c1?5=6+e1=2", "u2.1=3+n2=4"], &[1, 2])); //  8,9 = PREPARE(T1)
            v.extend(l(&[
                "deliver 8", "deliver 9", "deliver 10", "forge 1 2 y901:1:e0", "deliver 12", "deliver 11", // stray YES between the two real ones
                "forge 1 5 n", "deliver 13", //  a NO that arrives after the tx is Prepared: wrong phase
                "ccommit 1", "deliver 14", "deliver 15", "forge 1 0 c0", "deliver 16", "deliver 12",
            ]));
            v
        }),
    ]
}

/// Regression histories of 3e4ef1c8, run first.  Two transactions reach the SAME storage key under
/// DIFFERENT logical keys (`a` through a prefixed kind, `b` by naming the prefixed key directly).  Before
/// the repair `prepare` locked only `affected_key()`: both were prepared together on shard 0, T1 (`b`)
/// committed on both shards, T0 (`a`) timed out and its ABORT re-installed T0's undo image over T1's
/// committed write (Lean: `abort_undoes_commit_via_storage_key_alias_old_lock_set_witness`).  On the code
/// as it is the second PREPARE on shard 0 is answered CONFLICT, that transaction is aborted and no shard
/// changes (Lean: `storage_key_alias_is_refused`).  `/rev`: the two PREPAREs reach shard 0 in the other
/// order.  `put-row-key-vs-table-update` is the one history that needs the WRITE key in the lock set.
fn alias_histories() -> Vec<(String, Setup, Vec<String>)> {
    let s2 = || Setup { n: 2, t_units: 2, maxc: 100, lock_to: 1000, wallclock: false, age_parts: false, recovery: false, restart: false, wal: false };
    let b = |sh: &[usize], ops: &[&str], embs: &[u64]| begin_line(sh, &ops.iter().map(|o| parse_ops(o)).collect::<Vec<_>>(), embs);
    let mk = |a: &str, bb: &str, rev: bool| {
        let mut v = vec![b(&[0, 1], &[a, "p2=8"], &[1, 2]), b(&[0, 1], &[bb, "p3=10"], &[1, 2])];
        // 0,1 = PREPARE(T0); 2,3 = PREPARE(T1); 4,5 = the two answers of shard 0; 6 = shard 1's YES for T1
        let first = if rev { ["deliver 2", "deliver 0"] } else { ["deliver 0", "deliver 2"] };
        let votes = if rev { ["deliver 4", "deliver 6"] } else { ["deliver 5", "deliver 6"] };
        for l in first.iter().chain(["deliver 3"].iter()).chain(votes.iter()).chain(["ccommit 1", "deliver 7", "deliver 8", "tick 3", "sweep", "deliver 9", "deliver 10", "deliver 11", "deliver 12"].iter()) {
            v.push(l.to_string());
        }
        v
    };
    let pairs: [(&str, &str, &str); 7] = [
        ("embed-vs-put-emb-key", "e1=7", "p10001=9"),
        ("node-create-vs-put-node-key", "n1=7", "p20001=9"),
        ("table-insert-vs-put-table-key", "i1=7", "p30001=9"),
        ("table-update-vs-put-table-key", "u1.2=7", "p30001=9"),
        ("edge-create-vs-put-edge-key", "g1.2.3", "p50123=9"),
        ("put-row-key-vs-table-update", "p40102=7", "u1.2=9"),
        ("delete-emb-key-vs-embed", "d10001", "e1=9"),
    ];
    let mut out = vec![];
    for (name, a, bb) in pairs {
        out.push((name.to_string(), s2(), mk(a, bb, false)));
        out.push((format!("{name}/rev"), s2(), mk(a, bb, true)));
    }
    out
}


/// Coordinator restarts inside the alphabet `ReachK` (Restart.lean), run before the random streams.  The first is
/// the shortest history in which the phase test of `recover()` is the only thing between a late restart and a
/// changed decision: both shards vote YES, the coordinator restarts in time (`recover()` decides commit, COMMIT is
/// sent, shard 0 applies), checkpoints and crashes before shard 1 hears of it; the second restart happens after the
/// transaction's deadline; whatever `get_pending_decisions` says then is delivered to shard 1.  Its neighbours: the
/// same without checkpoint files, many restarts, every phase `recover()` can meet on a reachable state × deadline
/// passed or not, two transactions in different phases, the ordinary commit path followed by a restart.
/// Timeout = 2 units.  Pool of a 2-shard tx: 0,1 = PREPARE; 2,3 = the YES votes.
fn directed_restart() -> Vec<(&'static str, Setup, Vec<String>)> {
    let s2 = || Setup { n: 2, t_units: 2, maxc: 100, lock_to: 1000, wallclock: false, age_parts: false, recovery: false, restart: true, wal: false };
    let l = |v: &[&str]| v.iter().map(|x| x.to_string()).collect::<Vec<String>>();
    let b = |sh: &[usize], ops: &[&str], embs: &[u64]| begin_line(sh, &ops.iter().map(|o| parse_ops(o)).collect::<Vec<_>>(), embs);
    let t0 = || b(&[0, 1], &["p1=7", "p3=9"], &[1, 2]);
    let both_yes = ["deliver 0", "deliver 1", "deliver 2", "deliver 3"];
    let mk = |tail: &[&str]| {
        let mut v = vec![t0()];
        v.extend(l(&both_yes));
        v.extend(l(tail));
        v
    };
    vec![
        // 4,5 = COMMIT (first restart); 6,7 = what the late restart re-sends
        ("committing/late-second-restart", s2(), mk(&["ckpt", "crestore", "crecover", "deliver 4", "ckpt", "tick 3", "crestore", "crecover",
            "deliver 7", "ccomplete_abort 0", "ccomplete_commit 0", "ckpt", "crestore", "crecover"])),
        ("committing/late-second-recover-no-checkpoint", s2(), mk(&["crecover", "tick 3", "crecover", "deliver 4", "deliver 7", "ccomplete_commit 0", "crecover"])),
        ("committing/second-restart-in-time", s2(), mk(&["ckpt", "crestore", "crecover", "deliver 4", "tick 1", "ckpt", "crestore", "crecover", "deliver 7", "ccomplete_commit 0"])),
        ("committing/many-restarts", s2(), mk(&["crecover", "tick 1", "crecover", "tick 1", "ckpt", "crestore", "crecover", "tick 1", "crecover", "tick 50", "ckpt",
            "crestore", "crecover", "deliver 4", "deliver 13", "ccomplete_commit 0", "crecover"])),
        ("committing/late-restart-then-late-votes-and-duplicates", s2(), mk(&["crecover", "deliver 5", "tick 9", "ckpt", "crestore", "crecover", "deliver 2", "deliver 0",
            "deliver 6", "deliver 4", "ccommit 0", "ccomplete_commit 0", "deliver 7"])),
        // Prepared when the deadline passes: recovery aborts, and the abort stays an abort on every later restart
        ("prepared/past-deadline-aborts-and-stays", s2(), mk(&["tick 3", "ckpt", "crestore", "crecover", "deliver 4", "tick 5", "crecover", "ccomplete_commit 0",
            "ccommit 0", "deliver 7", "ccomplete_abort 0", "crecover"])),
        // Preparing (one vote in) when the deadline passes; shard 1's PREPARE and vote arrive afterwards
        ("preparing/past-deadline", s2(), {
            let mut v = vec![t0()];
            v.extend(l(&["deliver 0", "deliver 2", "tick 3", "crecover", "deliver 1", "deliver 5", "tick 2", "ckpt", "crestore", "crecover", "deliver 3", "deliver 7",
                "ccomplete_abort 0", "crecover"]));
            v
        }),
        // Preparing, restart in time: nothing is decided, the remaining vote arrives, commit() decides
        ("preparing/in-time-then-commit", s2(), {
            let mut v = vec![t0()];
            v.extend(l(&["deliver 0", "deliver 2", "ckpt", "crestore", "crecover", "deliver 1", "deliver 3", "ccommit 0", "deliver 4", "deliver 5", "ckpt", "tick 5",
                "crestore", "crecover"]));
            v
        }),
        // Aborting by a NO vote, then a late restart: the abort is re-sent, never anything else
        ("aborting/no-vote-then-late-restart", s2(), {
            let mut v = vec![t0()];
            v.extend(l(&["deliver 0", "deliver 2", "cvote 0 1 n -", "ckpt", "tick 9", "crestore", "crecover", "deliver 3", "deliver 6", "ccomplete_commit 0",
                "ccomplete_abort 0", "crecover"]));
            v
        }),
        // Aborting by a cross-shard conflict — EVERY vote is a YES — then restarts in time and late: stays an abort
        ("aborting/cross-shard-conflict-all-yes-then-restarts", s2(), {
            let mut v = vec![b(&[0, 1], &["p1=7", "p1=9"], &[1, 1])];
            v.extend(l(&both_yes)); //                                4,5 = ABORT (cross_shard)
            v.extend(l(&["ckpt", "crestore", "crecover", "tick 3", "ckpt", "crestore", "crecover", "deliver 4", "deliver 9", "ccomplete_commit 0", "ccommit 0",
                "ccomplete_abort 0", "crecover"]));
            v
        }),
        // T0 Committing and T1 Preparing (one vote in), both past their deadlines at the same late restart
        ("two-txs/committing-and-preparing-past-deadline", s2(), {
            let mut v = mk(&["ckpt", "crestore", "crecover", "deliver 4"]);
            v.push(b(&[0, 1], &["p2=8", "p4=1"], &[1, 2])); //      6,7 = PREPARE(T1)
            v.extend(l(&["deliver 6", "deliver 8", "ckpt", "tick 50", "crestore", "crecover", "deliver 10", "ccomplete_commit 0", "deliver 11", "deliver 12",
                "ccomplete_abort 1", "ckpt", "crestore", "crecover"]));
            v
        }),
        // the ordinary commit path, then a late restart: nothing is pending, nothing is re-decided
        ("committed/commit-then-late-restart", s2(), mk(&["ccommit 0", "ckpt", "tick 5", "crestore", "crecover", "deliver 4", "deliver 5", "sweep"])),
        // three shards: the decision reaches the shards one restart at a time
        ("committing/three-shards-one-shard-per-restart", Setup { n: 3, ..s2() }, {
            let mut v = vec![b(&[0, 1, 2], &["p1=7", "p3=9", "d5"], &[1, 2, 3])]; //  0,1,2 = PREPARE; 3,4,5 = votes
            v.extend(l(&["preload 2 5 4", "deliver 0", "deliver 1", "deliver 2", "deliver 3", "deliver 4", "deliver 5", "ckpt", "crestore", "crecover", "deliver 6",
                "tick 3", "ckpt", "crestore", "crecover", "deliver 10", "tick 3", "ckpt", "crestore", "crecover", "deliver 14", "ccomplete_commit 0"]));
            v
        }),
    ]
}

/// WAL restarts inside the alphabet `ReachW` (Wal.lean), run before the random streams.  The first is the shortest
/// history in which "restore only what the LOG says is Prepared" is the only thing between a restart and a changed
/// decision: shard 0's YES is recorded, the coordinator's timeout fires while shard 1's PREPARE is still on its way
/// (decision: ABORT, not logged), shard 0 rolls back, the ABORT overtakes the PREPARE on its way to shard 1, shard 1
/// prepares and its late YES reaches `record_vote` — rejected, but logged first: the log now holds a YES of every
/// participant for a transaction that is still `Preparing` in the log.  Crash, `recover_from_wal()` + `recover()`:
/// whatever `get_pending_decisions` says then is delivered.  Its neighbours: the ABORT lost on its way to shard 1, the
/// cross-shard conflict abort (every vote a YES), the late vote arriving after a first restart, a crash while still
/// undecided, aborts by a NO vote / by `abort()`, the Prepared transaction that recovery commits (and re-commits on
/// every later restart), the committed one, three shards, two transactions, duplicate and forged votes in the log.
/// Timeout = 2 units.  Pool of a 2-shard tx: 0,1 = PREPARE; 2.. = votes in delivery order.
fn directed_wal() -> Vec<(&'static str, Setup, Vec<String>)> {
    let sw = || Setup { n: 2, t_units: 2, maxc: 100, lock_to: 1000, wallclock: false, age_parts: false, recovery: false, restart: false, wal: true };
    let l = |v: &[&str]| v.iter().map(|x| x.to_string()).collect::<Vec<String>>();
    let b = |sh: &[usize], ops: &[&str], embs: &[u64]| begin_line(sh, &ops.iter().map(|o| parse_ops(o)).collect::<Vec<_>>(), embs);
    let t0 = || b(&[0, 1], &["p1=7", "p3=9"], &[1, 2]);
    let mk = |first: String, tail: &[&str]| {
        let mut v = vec!["preload 0 1 5".to_string(), "preload 1 3 6".to_string(), first];
        v.extend(l(tail));
        v
    };
    vec![
        // 2 = shard 0's YES; 3,4 = ABORT (timeout); 5 = shard 1's late YES; a changed tree that restores tx 0: 6,7 = COMMIT
        ("preparing/timeout-before-late-yes-vote", sw(), mk(t0(), &["deliver 0", "deliver 2", "tick 3", "sweep", "deliver 3", "deliver 4", "deliver 1", "deliver 5",
            "wrestart", "deliver 6", "deliver 7", "ccomplete_commit 0", "ccommit 0"])),
        ("preparing/timeout-before-late-yes-vote-abort-lost", sw(), mk(t0(), &["deliver 0", "deliver 2", "tick 3", "sweep", "deliver 3", "deliver 1", "deliver 5",
            "wrestart", "deliver 7", "deliver 6", "deliver 4"])),
        // every vote is a YES, the deltas conflict: 4,5 = ABORT (cross_shard); the one for shard 1 is lost in the crash
        ("preparing/cross-shard-conflict-all-yes", sw(), mk(b(&[0, 1], &["p1=7", "p1=9"], &[1, 1]), &["deliver 0", "deliver 1", "deliver 2", "deliver 3", "deliver 4",
            "wrestart", "deliver 6", "deliver 7", "ccomplete_commit 0", "deliver 5"])),
        ("preparing/cross-shard-conflict-all-yes-two-restarts", sw(), mk(b(&[0, 1], &["p1=7", "p1=9"], &[1, 1]), &["deliver 0", "deliver 1", "deliver 2", "deliver 3",
            "wrestart", "deliver 4", "tick 1", "wrestart", "deliver 7", "deliver 5"])),
        // the late YES arrives after a first restart has forgotten the aborted transaction; second restart
        ("preparing/late-yes-vote-after-the-first-restart", sw(), mk(t0(), &["deliver 0", "deliver 2", "tick 3", "sweep", "deliver 3", "wrestart", "deliver 1", "deliver 5",
            "wrestart", "deliver 6", "deliver 7", "deliver 4"])),
        // crash while still undecided (nothing was announced): the restart forgets the transaction, late votes are refused
        ("preparing/crash-while-undecided-then-late-votes", sw(), mk(t0(), &["deliver 0", "deliver 2", "wrestart", "deliver 1", "deliver 3", "ccommit 0", "wrestart", "tick 3", "sweep"])),
        // aborted by a NO vote / by abort(): nothing to restore
        ("preparing/no-vote-abort", sw(), mk(t0(), &["deliver 0", "deliver 2", "cvote 0 1 n -", "wrestart", "deliver 3", "deliver 4", "deliver 1", "deliver 5", "wrestart"])),
        ("preparing/client-abort-then-late-yes-vote", sw(), mk(t0(), &["deliver 0", "deliver 2", "cabort 0", "deliver 1", "deliver 5", "wrestart", "deliver 3", "deliver 4"])),
        // Prepared in the log: recovery commits it, and every later restart says commit again
        ("prepared/restart-commits-and-recommits", sw(), mk(t0(), &["deliver 0", "deliver 1", "deliver 2", "deliver 3", "wrestart", "deliver 4", "tick 1", "wrestart", "deliver 7",
            "ccomplete_abort 0", "ccomplete_commit 0", "tick 5", "wrestart", "deliver 8", "ccomplete_commit 0"])),
        ("committed/commit-then-restart", sw(), mk(t0(), &["deliver 0", "deliver 1", "deliver 2", "deliver 3", "ccommit 0", "deliver 4", "wrestart", "deliver 5", "tick 3", "wrestart", "sweep"])),
        // duplicate votes and a forged NO in the name of shard 1 are in the log before shard 1's own YES
        ("preparing/duplicate-and-forged-votes-in-the-log", sw(), mk(t0(), &["deliver 0", "deliver 2", "deliver 2", "forge 0 1 n", "deliver 3", "deliver 1", "deliver 6", "wrestart",
            "deliver 4", "deliver 5"])),
        // three shards: the timeout fires with one YES in, the other two arrive late
        ("preparing/three-shards-two-late-yes-votes", Setup { n: 3, ..sw() }, {
            let mut v = vec![b(&[0, 1, 2], &["p1=7", "p3=9", "d5"], &[1, 2, 3])]; //  0,1,2 = PREPARE
            v.extend(l(&["preload 2 5 4", "deliver 0", "deliver 3", "tick 3", "sweep", "deliver 4", "deliver 1", "deliver 2", "deliver 7", "deliver 8", "wrestart",
                "deliver 9", "deliver 10", "deliver 11", "deliver 5", "deliver 6"])); // 3 = YES(0); 4,5,6 = ABORT; 7,8 = late YES
            v
        }),
        // T0 times out while Preparing (late YES), T1 is Prepared in time: one restart forgets T0 and commits T1
        ("two-txs/timed-out-with-late-vote-and-prepared", sw(), {
            let mut v = vec![t0()];
            v.extend(l(&["deliver 0", "deliver 2", "tick 3"]));
            v.push(b(&[0, 1], &["p2=8", "p4=1"], &[1, 2])); //        3,4 = PREPARE(T1)
            v.extend(l(&["deliver 3", "deliver 4", "deliver 5", "deliver 6", "sweep", "deliver 7", "deliver 1", "deliver 9", "wrestart", "deliver 10", "deliver 11",
                "ccomplete_commit 1", "deliver 8", "deliver 12", "deliver 13"])); // 7,8 = ABORT(T0); 9 = late YES(T0); 10,11 = COMMIT(T1)
            v
        }),
    ]
}

/// `recover()` on a pending entry in EVERY phase — also the ones no reachable state shows it (`Committed`, `Aborted`,
/// `Prepared` with a NO vote or with votes missing) — before and after the deadline: the entry's phase is doctored
/// (`cphase`, outside the alphabet) and the statistics, the phases and `get_pending_decisions` are compared with
/// `recoverArm` of Recovery.lean.  Correspondence only.
fn restart_arms() -> Vec<(String, Setup, Vec<String>)> {
    let s2 = || Setup { n: 2, t_units: 2, maxc: 100, lock_to: 1000, wallclock: false, age_parts: false, recovery: false, restart: true, wal: false };
    let b = |sh: &[usize], ops: &[&str], embs: &[u64]| begin_line(sh, &ops.iter().map(|o| parse_ops(o)).collect::<Vec<_>>(), embs);
    let mut out = vec![];
    for votes in ["all-yes", "one-yes", "a-no"] {
        for phase in ["preparing", "prepared", "committing", "aborting", "committed", "aborted"] {
            for late in [false, true] {
                let mut v = vec![b(&[0, 1], &["p1=7", "p3=9"], &[1, 2])];
                match votes {
                    "all-yes" => v.extend(["deliver 0", "deliver 1", "deliver 2", "deliver 3"].iter().map(|x| x.to_string())),
                    "one-yes" => v.extend(["deliver 0", "deliver 2"].iter().map(|x| x.to_string())),
                    _ => v.extend(["deliver 0", "deliver 2", "forge 0 7 n", "deliver 3"].iter().map(|x| x.to_string())),
                }
                v.push(format!("cphase 0 {phase}"));
                if late {
                    v.push("tick 3".into());
                }
                v.extend(["ckpt", "crestore", "crecover", "crecover", "ccomplete_commit 0", "ccomplete_abort 0", "crecover"].iter().map(|x| x.to_string()));
                out.push((format!("{phase}/{votes}/{}", if late { "past-deadline" } else { "in-time" }), s2(), v));
            }
        }
    }
    out
}

/// The two counter-traces over the EXTENDED alphabet (Lean: `…_outside_quantifier_witness`).
fn witnesses() -> Vec<(&'static str, Setup, Vec<String>)> {
    let l = |v: &[&str]| v.iter().map(|x| x.to_string()).collect::<Vec<String>>();
    let b = |sh: &[usize], ops: &[&str], embs: &[u64]| begin_line(sh, &ops.iter().map(|o| parse_ops(o)).collect::<Vec<_>>(), embs);
    vec![
        (
            "cleanup_stale_splits_outcome",
            Setup { n: 2, t_units: 2, maxc: 100, lock_to: 1000, wallclock: false, age_parts: false, recovery: false, restart: false, wal: false },
            {
                let mut v = vec![];
                v.push(b(&[0, 1], &["p1=7", "p3=9"], &[1, 2]));
                v.extend(l(&["deliver 0", "deliver 1", "deliver 2", "deliver 3", "ccommit 0", "deliver 4", "stale 1 0"]));
                v
            },
        ),
        (
            "lock_expiry_abort_changes_shard",
            Setup { n: 1, t_units: 2, maxc: 100, lock_to: 0, wallclock: false, age_parts: true, recovery: false, restart: false, wal: false },
            {
                let mut v = l(&["preload 0 1 5"]);
                v.push(b(&[0], &["p1=7"], &[1]));
                v.push(b(&[0], &["p1=9"], &[1]));
                v.extend(l(&["deliver 0", "tick 1", "deliver 1", "deliver 3", "ccommit 1", "deliver 4", "cabort 0", "deliver 5"]));
                v
            },
        ),
    ]
}

/// `record_vote` is two critical sections with an unlocked similarity computation between them
/// (Lean: VoteSplit.lean).  Regression oracle of f07ecb9a with two REAL threads: thread A delivers the
/// last participant's YES with a delta large enough that phase 2 takes milliseconds; the main thread
/// waits until A's vote is visible in `pending` (A's phase 1 is over) and then delivers a stray NO
/// tagged with a non-participant shard, which is recorded while A computes.  The interleaving is
/// CONFIRMED by the real answers alone: the stray NO is answered `Aborting` exactly when it was
/// recorded after A's phase 1 (everybody has voted) and before A's phase 3 (still `Preparing`).  On a
/// confirmed interleaving the three answers (B's, A's, the commit call) are compared with the model's
/// `recordVoteInterleaved` (driver line `race`), and the property is evaluated on them: A must not
/// answer `Prepared` and the commit must be refused, since an abort broadcast is queued.
fn record_vote_race(rep: &mut Report, m: &mut Model) {
    use std::sync::Arc;
    const CLASS: &str = "tensor_chain.distributed_tx.coordinator/record_vote_phase3_overwrites_decided_phase";
    let cfg = DistributedTxConfig { prepare_timeout_ms: 10 * UNIT, max_concurrent: 10, ..DistributedTxConfig::default() };
    let n = 1_000_000usize;
    let half = |second: bool| {
        let mut d = vec![0.0f32; 2 * n];
        let off = if second { n } else { 0 };
        for x in &mut d[off..off + n] {
            *x = 1.0;
        }
        SparseVector::from_dense(&d)
    };
    let show = |r: &std::result::Result<Option<TxPhase>, VoteRecordError>| match r {
        Ok(None) => "voted none".to_string(),
        Ok(Some(p)) => format!("voted {}", format!("{p:?}").to_lowercase()),
        Err(VoteRecordError::TxNotFound(_)) => "verr not_found".into(),
        Err(VoteRecordError::WrongPhase { actual, .. }) => format!("verr wrong_phase {}", format!("{actual:?}").to_lowercase()),
        Err(VoteRecordError::DuplicateVote { .. }) => "verr duplicate".into(),
    };
    let script = ["init 0 10 10 1000", "begin 0,1 -/- -", "cvote 0 0 y0:1 -", "race 0 1 y1:2 5 n -", "ccommit 0"];
    let mut confirmed = 0;
    let mut last_out = json!(null);
    for attempt in 0..6 {
        let coord = Arc::new(mk_coord(&cfg));
        let tx = coord.begin(&"c".to_string(), &[0, 1]).expect("begin").tx_id;
        let yes = |h: u64, second: bool, key: &str| PrepareVote::Yes {
            lock_handle: (1u64 << 61) + h,
            delta: DeltaVector::from_sparse(half(second), [key.to_string()].into_iter().collect(), tx),
        };
        let first = coord.record_vote(tx, 0, yes(0, false, "k1"));
        let vote_b = yes(1, true, "k2");
        let c2 = coord.clone();
        let a = std::thread::spawn(move || c2.record_vote(tx, 1, vote_b));
        // A's phase 1 is over as soon as its vote is visible (`get` takes the read lock on `pending`)
        let t0 = std::time::Instant::now();
        while !coord.get(tx).is_some_and(|t| t.votes.contains_key(&1)) && t0.elapsed() < Duration::from_secs(20) {
            std::hint::spin_loop();
        }
        let stray = coord.record_vote(tx, 5, PrepareVote::No { reason: "stray".into() });
        let last = a.join().expect("thread A");
        let queued = coord.take_pending_aborts();
        let phase = coord.get(tx).map(|t| format!("{:?}", t.phase));
        let commit_ok = coord.commit(tx).is_ok();
        let interleaved = matches!(stray, Ok(Some(TxPhase::Aborting)));
        let input = json!({
            "probe": "record-vote-threads", "attempt": attempt,
            "thread_main": ["begin [0,1]", "record_vote(tx, 0, YES)", "wait until shard 1's vote is visible", "record_vote(tx, 5, NO)", "take_pending_aborts", "commit(tx)"],
            "thread_A": ["record_vote(tx, 1, YES with a 2M-dimensional delta)"],
            "first_yes": show(&first), "stray_no_between_the_phases": show(&stray), "last_yes": show(&last),
            "abort_broadcasts_queued": queued.len(), "phase_after": phase, "commit_succeeded": commit_ok,
        });
        last_out = input.clone();
        if !interleaved {
            rep.hit("race.record_vote.window_missed");
            continue;
        }
        confirmed += 1;
        rep.hit("race.record_vote.interleaving_confirmed");
        // ---- the property on the real answers
        let overwrote = matches!(last, Ok(Some(TxPhase::Prepared))) || phase.as_deref() == Some("Prepared");
        if overwrote {
            rep.violation(
                CLASS,
                &format!(
                    "two threads in record_vote: the stray NO recorded between the two critical sections of the last YES was answered {} ({} abort broadcast queued); phase 3 of the last YES then answered {} (phase {:?}) and commit() {}",
                    show(&stray), queued.len(), show(&last), phase, if commit_ok { "SUCCEEDED: the transaction has an ABORT broadcast and a commit decision" } else { "was refused" }
                ),
                input.clone(),
            );
        } else if commit_ok && !queued.is_empty() {
            rep.violation("tensor_chain.2pc/decision_changed", "two threads in record_vote: commit() succeeded for a transaction with a queued abort broadcast", input.clone());
        }
        // ---- correspondence with the model's interleaving (VoteSplit.lean `recordVoteInterleaved`)
        let mut model = vec![];
        for l in script {
            model.push(m.ask(l));
        }
        let impl_ans = format!("{} | race {} / {} | {}", show(&first), show(&stray), show(&last), if commit_ok { "ok" } else { "err wrong_phase" });
        let head = |x: &str| x.split(" | ").next().unwrap_or("").trim_end_matches(" |").to_string();
        let model_ans = format!("{} | {} | {}", head(&model[2]), head(&model[3]), head(&model[4]));
        rep.compare("record-vote-threads", || input.clone(), &impl_ans, &model_ans);
        break; // one confirmed interleaving is the case
    }
    rep.case("record-vote-threads", if confirmed > 0 { Some("race 0 1 y1:2 5 n") } else { None });
    if confirmed == 0 {
        rep.note("record-vote-threads: the stray NO never landed between the two critical sections of the last YES (6 attempts): the regression oracle of f07ecb9a was not exercised in this run");
        rep.observe(json!({"probe": "record-vote-threads", "window_missed": true, "last_attempt": last_out}));
    }
}

const EXPECTED: &[&str] = &[
    "begin.ok", "begin.too_many", "prepare.yes", "prepare.conflict", "vote.none", "vote.prepared", "vote.aborting",
    "vote.err.not_found", "vote.err.wrong_phase", "vote.err.duplicate", "commit.done", "commit.absent", "abort.done",
    "abort.absent", "sweep.some", "sweep.none", "ccommit.ok", "ccommit.not_found", "ccommit.wrong_phase", "cabort.ok",
    "cabort.not_found", "reason.conflict", "reason.cross_shard", "reason.timeout", "reason.voted_no", "cvote.none",
    "cvote.prepared", "cvote.aborting", "cvote.err.not_found", "cvote.err.duplicate", "cvote.err.wrong_phase",
    "net.duplicate", "net.drop", "net.reorder", "net.late_duplicate",
    "late.prepare_finished.refused_key_held", "late.prepare_finished.reprepared", "late.commit_finished.absent",
    "late.commit_finished.reapplied", "late.abort_finished.absent", "late.abort_finished.discarded_again",
    "late.abort_finished.after_overlapping_commit",
    "op.p", "op.d", "op.e", "op.n", "op.N", "op.g", "op.i", "op.u", "op.U", "op.c", "cas.written", "cas.skipped_or_same",
    "forged.stray_shard.voted_none", "forged.stray_shard.verr_wrong_phase_prepared",
    "forged.stray_shard.verr_not_found", "forged.participant_or_unknown_tx.voted_none",
    "forged.participant_or_unknown_tx.voted_aborting", "forged.participant_or_unknown_tx.verr_duplicate",
    "forged.participant_or_unknown_tx.verr_not_found",
    "alias.second_prepare_refused", "alias.refused_by_storage_or_write_key_only", "race.record_vote.interleaving_confirmed",
    "crecover.decisions", "crecover.no_decision", "ccomplete_commit.ok", "ccomplete_commit.not_found", "ccomplete_commit.wrong_phase",
    "ccomplete_abort.ok", "ccomplete_abort.not_found", "ccomplete_abort.wrong_phase", "cforce.ok", "cforce.not_found", "cforce.wrong_phase",
    "restart.checkpoint", "restart.restore.current", "restart.restore.stale_or_none",
    "restart.recover.preparing_in_time", "restart.recover.preparing_past_deadline", "restart.recover.prepared_in_time",
    "restart.recover.prepared_past_deadline", "restart.recover.committing_in_time", "restart.recover.committing_past_deadline",
    "restart.recover.aborting_in_time", "restart.recover.aborting_past_deadline", "restart.recover.committed_in_time",
    "restart.recover.committed_past_deadline", "restart.recover.aborted_in_time", "restart.recover.aborted_past_deadline",
    "wrestart.decisions", "wrestart.no_decision", "wal.restart.nothing_restored", "wal.restart.restored_prepared",
    "wal.restart.after_abort_of_tx_with_a_logged_yes_from_every_participant", "wal.restart.crash_with_preparing_entry",
    "wal.restart.crash_with_prepared_entry", "wal.restart.crash_with_committing_entry", "wal.restart.crash_with_aborting_entry",
    "settle.clean", "settle.no_aborted_tx", "asettle.clean", "aretry.resent", "ack.duplicate.one_outstanding", "ack.first.all_acknowledged",
];

/// Does the script, run on fresh REAL objects only, trip the monitor `class`?
fn real_violation(setup: &Setup, lines: &[String], class: &str) -> Option<String> {
    std::panic::catch_unwind(std::panic::AssertUnwindSafe(|| {
        let mut real = Real::for_setup(setup);
        for l in lines {
            real.exec(l);
            if let Some(v) = real.viol.iter().find(|v| v.class == class) {
                return Some(v.what.clone());
            }
        }
        None
    }))
    .unwrap_or(None)
}
fn real_violates(setup: &Setup, lines: &[String], class: &str) -> bool {
    real_violation(setup, lines, class).is_some()
}
/// number of lines up to and including the event at which the monitor `class` first fires on fresh REAL objects
fn violating_prefix_len(setup: &Setup, lines: &[String], class: &str) -> Option<usize> {
    std::panic::catch_unwind(std::panic::AssertUnwindSafe(|| {
        let mut real = Real::for_setup(setup);
        for (i, l) in lines.iter().enumerate() {
            real.exec(l);
            if real.viol.iter().any(|v| v.class == class) {
                return Some(i + 1);
            }
        }
        None
    }))
    .unwrap_or(None)
}

fn record(rep: &mut Report, m: &mut Model, stream: &str, setup: &Setup, lines: &[String], o: &Outcome) {
    let key = lines.join(";");
    rep.case(stream, if o.nontrivial { Some(&key) } else { None });
    for t in &o.tags {
        rep.hit(t);
    }
    rep.hit_n("events", lines.len() as u64);
    for (class, what) in &o.violations {
        // shrink the event sequence (ddmin on the real objects alone) once per class
        // the report keeps 50 violations: at most 3 scripts per class, so that a class first seen late is not crowded out
        let n_class = rep.violations.iter().filter(|v| v["class"] == class.as_str()).count();
        if n_class >= 3 {
            rep.hit(&format!("violation.more.{class}"));
            continue;
        }
        let already = n_class > 0;
        let script: Vec<String> = if already || setup.wallclock {
            lines.to_vec()
        } else {
            let prev = std::panic::take_hook();
            std::panic::set_hook(Box::new(|_| {}));
            // nothing after the violating event is needed (and events after it may leave the alphabet on the
            // model's side of a divergence, which would make every candidate that keeps them invalid)
            let cut = violating_prefix_len(setup, lines, class).unwrap_or(lines.len());
            let v = shrink_list(&lines[..cut], &mut |cand: &[String]| real_violates(setup, cand, class) && cleanups_are_noops(m, setup, cand));
            std::panic::set_hook(prev);
            v
        };
        let what = real_violation(setup, &script, class).unwrap_or_else(|| what.clone());
        rep.violation(class, &what, json!({"setup": setup.init_line(), "script": script, "unshrunk_len": lines.len()}));
    }
}

fn main() {
    let args = parse_args();
    let mut rep = Report::new(
        "a case = one schedule (fresh coordinator + participants + stores); non-trivial = at least one decision was taken and >= 2 state-changing events; distinct by full script text",
    );
    rep.expected_branches = EXPECTED.iter().map(|s| s.to_string()).collect();
    let mut m = Model::spawn(&args.driver);
    let root = Rng::new(args.seed);

    // ---- replay of a failing input
    if let Some(path) = &args.replay {
        if let Ok(txt) = std::fs::read_to_string(path) {
            if let Ok(v) = serde_json::from_str::<serde_json::Value>(&txt) {
                let fi = &v["failing_input"];
                if let (Some(init), Some(script)) = (fi["setup"].as_str(), fi["script"].as_array()) {
                    let w: Vec<u64> = init.split_whitespace().skip(1).filter_map(|x| x.parse().ok()).collect();
                    if w.len() == 4 {
                        let lines: Vec<String> = script.iter().filter_map(|x| x.as_str().map(String::from)).collect();
                        // a script with a WAL restart ran on a WAL-backed coordinator
                        let setup = Setup { n: w[0] as usize, t_units: w[1], maxc: w[2] as usize, lock_to: w[3], wallclock: false, age_parts: false, recovery: false, restart: false, wal: lines.iter().any(|l| l == "wrestart") };
                        let o = run_script(&mut m, &mut rep, "replay", &setup, &lines, true);
                        record(&mut rep, &mut m, "replay", &setup, &lines, &o);
                    }
                }
            }
        }
    }

    // ---- timeout aborts with delayed / lost / late votes: `settle` oracle + loss-free follow-up transaction, first
    // (`--skip-directed-timeout-abort`: mutation-testing aid, to see what the random streams find on their own)
    let skip_ta = args.extra.iter().any(|a| a == "--skip-directed-timeout-abort");
    for (name, setup, lines) in directed_timeout_abort().into_iter().filter(|_| !skip_ta) {
        let o = run_script(&mut m, &mut rep, "directed-timeout-abort", &setup, &lines, true);
        if o.tags.iter().any(|t| t == "outside_alphabet_event") {
            rep.note(&format!("directed-timeout-abort history {name} left the alphabet (model flagged an event !outside)"));
        }
        // on the code as it is: T0 is aborted by the timeout, every settle is clean and the follow-up transaction commits
        let ok = o.tags.iter().any(|t| t == "reason.timeout") && o.tags.iter().any(|t| t == "ccommit.ok") && !o.tags.iter().any(|t| t == "settle.stuck");
        if o.violations.is_empty() && !o.disagreed && !ok {
            rep.note(&format!("directed-timeout-abort history {name} did not reach timeout abort + clean settle + committed follow-up"));
        }
        record(&mut rep, &mut m, "directed-timeout-abort", &setup, &lines, &o);
        if name == "2-shards/vote-delayed-past-timeout" {
            rep.sample(json!({"stream": "directed-timeout-abort", "name": name, "setup": setup.init_line(), "script": lines}));
        }
    }

    // ---- regression histories of 3e4ef1c8 (storage-key aliases), first: inside the quantifier, every monitor armed
    // (`--skip-directed-alias`: mutation-testing aid, to see what the random streams find on their own)
    let skip_alias = args.extra.iter().any(|a| a == "--skip-directed-alias");
    for (name, setup, lines) in alias_histories().into_iter().filter(|_| !skip_alias) {
        let o = run_script(&mut m, &mut rep, "directed-alias", &setup, &lines, true);
        // on the code as it is: the second PREPARE on shard 0 is refused, its transaction aborts, nothing is written on shard 0
        let refused = o.tags.iter().any(|t| t == "prepare.conflict");
        rep.hit(if refused { "alias.second_prepare_refused" } else { "alias.prepared_together" });
        if o.violations.is_empty() && !o.disagreed && !refused {
            rep.note(&format!("directed-alias history {name} did not reach the refusal of the aliasing PREPARE"));
        }
        if o.tags.iter().any(|t| t == "outside_alphabet_event") {
            rep.note(&format!("directed-alias history {name} left the alphabet (model flagged an event !outside)"));
        }
        record(&mut rep, &mut m, "directed-alias", &setup, &lines, &o);
        if name == "put-row-key-vs-table-update" {
            rep.sample(json!({"stream": "directed-alias", "name": name, "setup": setup.init_line(), "script": lines}));
        }
    }


    // ---- WAL restarts inside the alphabet `ReachW` (crash + recover_from_wal() + recover() on a WAL-backed coordinator)
    // (`--skip-directed-wal`: mutation-testing aid, to see what the random stream finds on its own)
    let skip_wal = args.extra.iter().any(|a| a == "--skip-directed-wal");
    for (name, setup, lines) in directed_wal().into_iter().filter(|_| !skip_wal) {
        let o = run_script(&mut m, &mut rep, "directed-wal", &setup, &lines, true);
        if o.tags.iter().any(|t| t == "outside_alphabet_event") {
            rep.note(&format!("directed-wal history {name} left the alphabet (model flagged an event !outside)"));
        }
        record(&mut rep, &mut m, "directed-wal", &setup, &lines, &o);
        if name == "preparing/timeout-before-late-yes-vote" {
            rep.sample(json!({"stream": "directed-wal", "name": name, "setup": setup.init_line(), "script": lines}));
        }
    }

    // ---- coordinator restarts inside the alphabet (recover() at any clock value, checkpoint / restore cycles)
    // (`--skip-directed-restart`: mutation-testing aid, to see what the random stream finds on its own)
    let skip_restart = args.extra.iter().any(|a| a == "--skip-directed-restart");
    for (name, setup, lines) in directed_restart().into_iter().filter(|_| !skip_restart) {
        let o = run_script(&mut m, &mut rep, "directed-restart", &setup, &lines, true);
        if o.tags.iter().any(|t| t == "outside_alphabet_event") {
            rep.note(&format!("directed-restart history {name} left the alphabet (model flagged an event !outside)"));
        }
        record(&mut rep, &mut m, "directed-restart", &setup, &lines, &o);
        if name == "committing/late-second-restart" {
            rep.sample(json!({"stream": "directed-restart", "name": name, "setup": setup.init_line(), "script": lines}));
        }
    }

    // ---- two real threads inside record_vote: regression oracle of f07ecb9a
    record_vote_race(&mut rep, &mut m);

    // ---- the late-duplicate history in its variants
    // (`--skip-directed-late`: mutation-testing aid, to see what the random streams find on their own)
    let skip_late = args.extra.iter().any(|a| a == "--skip-directed-late");
    for (name, setup, lines) in directed_late().into_iter().filter(|_| !skip_late) {
        let o = run_script(&mut m, &mut rep, "directed-late", &setup, &lines, true);
        // on the code as it is: the late PREPARE is refused because T1 holds the key, and nothing is left to clean up
        if o.violations.is_empty() && !o.disagreed && !o.tags.iter().any(|t| t == "late.prepare_finished.refused_key_held") {
            rep.note(&format!("directed-late template {name} did not reach the late PREPARE of a finished tx on a held key"));
        }
        record(&mut rep, &mut m, "directed-late", &setup, &lines, &o);
        if rep.samples.is_empty() {
            rep.sample(json!({"stream": "directed-late", "name": name, "setup": setup.init_line(), "script": lines}));
        }
    }

    // ---- forged / mis-tagged votes inside the alphabet
    for (name, setup, lines) in directed_forged() {
        let o = run_script(&mut m, &mut rep, "directed-forged", &setup, &lines, true);
        if o.tags.iter().any(|t| t == "outside_alphabet_event") {
            rep.note(&format!("directed-forged template {name} left the alphabet (model flagged an event !outside)"));
        }
        record(&mut rep, &mut m, "directed-forged", &setup, &lines, &o);
        rep.sample(json!({"stream": "directed-forged", "name": name, "setup": setup.init_line(), "script": lines}));
    }

    // ---- directed templates
    for (name, setup, lines) in directed() {
        let o = run_script(&mut m, &mut rep, "directed", &setup, &lines, true);
        record(&mut rep, &mut m, "directed", &setup, &lines, &o);
        if rep.samples.len() < 4 {
            rep.sample(json!({"stream": "directed", "name": name, "setup": setup.init_line(), "script": lines}));
        }
    }

    // ---- random schedules
    let n_sched = if args.thorough { 6000 } else { 500 };
    let mut r = root.fork("schedules");
    let mut violating = 0;
    for i in 0..n_sched {
        let setup = Setup {
            n: 2 + r.below(2) as usize,
            t_units: 2,
            maxc: if r.chance(1, 10) { 2 } else { 100 },
            lock_to: 1000,
            wallclock: false,
            age_parts: false,
            recovery: false,
            restart: false,
            wal: false,
        };
        let max_events = 20 + r.below(41) as usize;
        let lines = gen_schedule(&mut r, &setup, max_events, &mut rep);
        let o = run_script(&mut m, &mut rep, "schedules", &setup, &lines, true);
        record(&mut rep, &mut m, "schedules", &setup, &lines, &o);
        if i < 4 {
            rep.sample(json!({"stream": "schedules", "setup": setup.init_line(), "script": lines}));
        }
        violating += usize::from(!o.violations.is_empty());
        if violating >= 6 {
            break;
        }
    }

    // ---- random timeout-abort schedules (random fates of the participants around the coordinator's timeout)
    // Directed abort-acknowledgement histories (Ack.lean), run before the random streams.
    // (`--skip-directed-abort-acks`: mutation-testing aid)
    let skip_aa = args.extra.iter().any(|a| a == "--skip-directed-abort-acks");
    for (name, setup, lines) in directed_abort_acks().into_iter().filter(|_| !skip_aa) {
        let o = run_script(&mut m, &mut rep, "directed-abort-acks", &setup, &lines, true);
        if o.tags.iter().any(|t| t == "outside_alphabet_event") {
            rep.note(&format!("directed-abort-acks history {name} left the alphabet (model flagged an event !outside)"));
        }
        // on the code as it is: T0 is aborted, the retry round leaves nobody prepared and the follow-up transaction commits
        let ok = o.tags.iter().any(|t| t == "asettle.clean") && o.tags.iter().filter(|t| *t == "ccommit.ok").count() >= 1 && !o.tags.iter().any(|t| t == "settle.stuck");
        if o.violations.is_empty() && !o.disagreed && !ok {
            rep.note(&format!("directed-abort-acks history {name} did not reach abort + clean asettle + committed follow-up"));
        }
        record(&mut rep, &mut m, "directed-abort-acks", &setup, &lines, &o);
        if name.starts_with("3-shards/conflict/abort-to-shard-1-lost+ack") {
            rep.sample(json!({"stream": "directed-abort-acks", "name": name, "setup": setup.init_line(), "script": lines}));
        }
    }
    let mut r = root.fork("abort-ack-schedules");
    let mut violating = 0;
    for i in 0..if args.thorough { 1200 } else { 100 } {
        let setup = plain_setup(2 + r.below(2) as usize);
        let lines = gen_abort_acks(&mut r, &setup);
        let o = run_script(&mut m, &mut rep, "abort-ack-schedules", &setup, &lines, true);
        record(&mut rep, &mut m, "abort-ack-schedules", &setup, &lines, &o);
        if i < 1 {
            rep.sample(json!({"stream": "abort-ack-schedules", "setup": setup.init_line(), "script": lines}));
        }
        violating += usize::from(!o.violations.is_empty());
        if violating >= 6 {
            break;
        }
    }
    let mut r = root.fork("timeout-abort-schedules");
    let mut violating = 0;
    for i in 0..if args.thorough { 1500 } else { 120 } {
        let setup = plain_setup(2 + r.below(2) as usize);
        let lines = gen_timeout_abort(&mut r, &setup);
        let o = run_script(&mut m, &mut rep, "timeout-abort-schedules", &setup, &lines, true);
        record(&mut rep, &mut m, "timeout-abort-schedules", &setup, &lines, &o);
        if i < 1 {
            rep.sample(json!({"stream": "timeout-abort-schedules", "setup": setup.init_line(), "script": lines}));
        }
        violating += usize::from(!o.violations.is_empty());
        if violating >= 6 {
            break;
        }
    }

    // ---- random schedules with late duplicates of finished transactions' messages on overlapping keys
    let mut r = root.fork("late-duplicates");
    let mut violating = 0;
    for i in 0..if args.thorough { 3000 } else { 250 } {
        let setup = Setup { n: 2 + r.below(2) as usize, t_units: 2, maxc: 100, lock_to: 1000, wallclock: false, age_parts: false, recovery: false, restart: false, wal: false };
        let max_events = 25 + r.below(36) as usize;
        let lines = gen_schedule_mode(&mut r, &setup, max_events, &mut rep, true);
        let o = run_script(&mut m, &mut rep, "late-duplicates", &setup, &lines, true);
        record(&mut rep, &mut m, "late-duplicates", &setup, &lines, &o);
        if i < 2 {
            rep.sample(json!({"stream": "late-duplicates", "setup": setup.init_line(), "script": lines}));
        }
        violating += usize::from(!o.violations.is_empty());
        if violating >= 12 && !skip_late {
            break;
        }
    }

    // ---- coordinator-level record_vote with forged votes (No votes, unknown shards, unknown txs)
    let mut r = root.fork("coord-unit");
    for _ in 0..if args.thorough { 1500 } else { 200 } {
        let setup = Setup { n: 0, t_units: 2, maxc: 100, lock_to: 1000, wallclock: false, age_parts: false, recovery: false, restart: false, wal: false };
        let mut lines = vec![];
        let ntx = 1 + r.below(2) as usize;
        let mut shards_of = vec![];
        for _ in 0..ntx {
            let cnt = 1 + r.below(3) as usize;
            let shards: Vec<usize> = (0..cnt).collect();
            let ops: Vec<Vec<Op>> = shards.iter().map(|_| vec![]).collect();
            let embs: Vec<u64> = shards.iter().map(|_| 0).collect();
            lines.push(begin_line(&shards, &ops, &embs));
            shards_of.push(cnt);
        }
        let mut h = 0;
        // forged YES votes use embedding 1 + (shard % 2): shards of equal parity are parallel, others orthogonal
        let mut sim = vec![];
        for i in 0..4usize {
            for j in (i + 1)..4 {
                if i % 2 == j % 2 {
                    sim.push(format!("{i}.{j}"));
                }
            }
        }
        let sim = sim.join(",");
        for _ in 0..(2 + r.below(8)) {
            let tx = r.below(ntx as u64 + 1) as usize;
            let sh = r.below(4);
            let line = match r.below(10) {
                0 => format!("cvote {tx} {sh} n -"),
                1 => format!("cvote {tx} {sh} c{} -", r.below(3)),
                _ => {
                    let keys: Vec<u64> = (0..2).filter(|_| r.chance(2, 3)).collect();
                    h += 1;
                    format!("cvote {tx} {sh} y{}:{}:e{} {}", h - 1, dotted(&keys), 1 + sh % 2, sim)
                },
            };
            lines.push(line);
            if r.chance(1, 6) {
                lines.push(format!("ccommit {}", r.below(ntx as u64)));
            }
        }
        let o = run_script(&mut m, &mut rep, "coord-unit", &setup, &lines, true);
        record(&mut rep, &mut m, "coord-unit", &setup, &lines, &o);
    }

    // ---- untouched wall clock: 1 ms timeout, every tick sleeps 3 ms, sweeps follow ticks
    let mut r = root.fork("wallclock");
    for _ in 0..if args.thorough { 60 } else { 12 } {
        let setup = Setup { n: 2, t_units: 0, maxc: 100, lock_to: 1000, wallclock: true, age_parts: false, recovery: false, restart: false, wal: false };
        let mut lines = vec![];
        let ops = vec![gen_ops(&mut r, 3), gen_ops(&mut r, 3)];
        lines.push(begin_line(&[0, 1], &ops, &[1, 2]));
        let k = r.below(5) as usize;
        let pre = ["deliver 0", "deliver 1", "deliver 2", "deliver 3"];
        for p in pre.iter().take(k.min(4)) {
            lines.push((*p).to_string());
        }
        lines.push("tick 1".into());
        lines.push("sweep".into());
        lines.push("ccommit 0".into());
        for i in 0..8 {
            lines.push(format!("deliver {i}"));
        }
        let o = run_script(&mut m, &mut rep, "wallclock", &setup, &lines, true);
        record(&mut rep, &mut m, "wallclock", &setup, &lines, &o);
    }

    // ---- reasons distribution
    // (reasons are part of every dump comparison; tally them from the tags of the last runs)

    // ---- random schedules over the EXTENDED alphabet (lock expiry on every tick, cleanup_stale, recover):
    //      correspondence only; monitor hits are counted as observations, never as violations
    let mut r = root.fork("extended");
    let mut ext_hits: BTreeMap<String, u64> = BTreeMap::new();
    for _ in 0..if args.thorough { 600 } else { 60 } {
        let setup = Setup { n: 1 + r.below(2) as usize, t_units: 2, maxc: 100, lock_to: 0, wallclock: false, age_parts: true, recovery: false, restart: false, wal: false };
        let lines = gen_schedule(&mut r, &setup, 30, &mut rep);
        let o = run_script(&mut m, &mut rep, "outside-quantifier", &setup, &lines, false);
        rep.case("outside-quantifier", None);
        for t in &o.tags {
            if t == "stale" || t == "recover" || t == "outside_alphabet_event" {
                rep.hit(&format!("ext.{t}"));
            }
        }
        for ob in &o.observations {
            *ext_hits.entry(ob.split(':').next().unwrap_or("").to_string()).or_insert(0) += 1;
        }
    }
    rep.observe(json!({"stream": "outside-quantifier random schedules", "monitor_hits_by_class": ext_hits,
        "note": "with lock expiry / cleanup_stale / recover in the alphabet the monitors do fire; by design these are not violations of C03"}));

    // ---- the two counter-traces over the extended alphabet: observations, never violations
    for (name, setup, lines) in witnesses() {
        let o = run_script(&mut m, &mut rep, "outside-quantifier", &setup, &lines, false);
        rep.case("outside-quantifier", None);
        rep.observe(json!({
            "witness": name, "setup": setup.init_line(), "script": lines,
            "reproduced_on_real_objects": !o.observations.is_empty() && !o.disagreed,
            "monitor_hits": o.observations,
            "note": "event alphabet extended by participant-side cleanup_stale / lock expiry: outside C03's quantifier"
        }));
        if o.observations.is_empty() {
            rep.note(&format!("witness {name} did NOT reproduce on the real objects (behaviour changed?)"));
        }
    }

    // ---- the coordinator's recovery API (recover / get_pending_decisions / complete_* / force_resolve):
    //      correspondence with Recovery.lean; outside the alphabet, monitor hits are observations
    {
        let sr = || Setup { n: 2, t_units: 2, maxc: 100, lock_to: 1000, wallclock: false, age_parts: false, recovery: true, restart: false, wal: false };
        let l = |v: &[&str]| v.iter().map(|x| x.to_string()).collect::<Vec<String>>();
        let b = |sh: &[usize], ops: &[&str], embs: &[u64]| begin_line(sh, &ops.iter().map(|o| parse_ops(o)).collect::<Vec<_>>(), embs);
        let both_yes = ["deliver 0", "deliver 1", "deliver 2", "deliver 3"];
        let witnesses: Vec<(&str, Vec<String>)> = vec![
            ("recover_then_timeout_sweep_changes_decision", {
                let mut v = vec![b(&[0, 1], &["p1=7", "p3=9"], &[1, 2])];
                v.extend(l(&both_yes));
                v.extend(l(&["crecover", "tick 3", "sweep", "deliver 4", "deliver 7", "ccomplete_commit 0"]));
                v
            }),
            ("recover_then_abort_changes_decision", {
                let mut v = vec![b(&[0, 1], &["p1=7", "p3=9"], &[1, 2])];
                v.extend(l(&both_yes));
                v.extend(l(&["crecover", "cabort 0", "deliver 4", "deliver 7"]));
                v
            }),
            ("force_resolve_commits_without_all_yes", {
                let mut v = vec![b(&[0, 1], &["p1=7", "p3=9"], &[1, 2])];
                v.extend(l(&["deliver 0", "deliver 2", "cforce 0 1", "deliver 3", "deliver 4"]));
                v
            }),
            ("recover_commits_and_aborts_then_completes", {
                let mut v = vec![b(&[0, 1], &["p1=7", "p3=9"], &[1, 2])];
                v.extend(l(&both_yes));
                v.extend(l(&["crecover", "deliver 4", "deliver 5", "ccomplete_abort 0", "ccomplete_commit 0", "ccomplete_commit 0"]));
                v.push(b(&[0, 1], &["p1=8", "p3=1"], &[1, 2])); // 6,7 = PREPARE(T1)
                v.extend(l(&["deliver 6", "tick 3", "crecover", "deliver 9", "deliver 10", "ccomplete_abort 1", "cforce 1 0", "crecover"]));
                // T2 is Preparing with a NO vote on record: force_resolve(commit) is refused, force_resolve(abort) goes through
                v.push(b(&[0, 1], &["p1=2", "p3=2"], &[1, 2]));
                v.extend(l(&["cvote 2 0 n -", "cforce 2 1", "cforce 2 0"]));
                v
            }),
        ];
        for (name, lines) in witnesses {
            let setup = sr();
            let o = run_script(&mut m, &mut rep, "coord-recovery", &setup, &lines, true);
            rep.case("coord-recovery", None);
            for t in &o.tags {
                rep.hit(t);
            }
            rep.observe(json!({
                "witness": name, "setup": setup.init_line(), "script": lines,
                "model_agrees": !o.disagreed,
                "monitor_hits": o.observations,
                "note": "coordinator recovery API (recover + re-sent decisions, complete_commit / complete_abort, force_resolve): outside C03's quantifier; Lean PropsRecovery.lean"
            }));
            if name != "recover_commits_and_aborts_then_completes" && (o.observations.is_empty() || o.disagreed) {
                rep.note(&format!("recovery witness {name} did NOT reproduce on the real objects (behaviour changed?)"));
            }
        }
        let mut r = root.fork("coord-recovery");
        let mut hits: BTreeMap<String, u64> = BTreeMap::new();
        for _ in 0..if args.thorough { 1200 } else { 120 } {
            let setup = Setup { n: 2 + r.below(2) as usize, ..sr() };
            let max_events = 20 + r.below(25) as usize;
            let lines = gen_schedule(&mut r, &setup, max_events, &mut rep);
            let o = run_script(&mut m, &mut rep, "coord-recovery", &setup, &lines, true);
            rep.case("coord-recovery", None);
            for t in &o.tags {
                if t.starts_with("crecover") || t.starts_with("ccomplete") || t.starts_with("cforce") {
                    rep.hit(t);
                }
            }
            for ob in &o.observations {
                *hits.entry(ob.split(':').next().unwrap_or("").to_string()).or_insert(0) += 1;
            }
            // up to the first recovery call the schedule is inside the alphabet: violations count
            record(&mut rep, &mut m, "coord-recovery", &setup, &lines, &Outcome { nontrivial: false, tags: vec![], observations: vec![], ..o });
        }
        rep.observe(json!({"stream": "coord-recovery random schedules", "monitor_hits_by_class": hits,
            "note": "with recover / complete_* / force_resolve in the alphabet decisions can change (cleanup_timeouts and abort() have no phase test, force_resolve's all_yes is vacuous over the votes present); by design these are not violations of C03"}));
    }


    // ---- random schedules with coordinator restarts, inside the alphabet `ReachK` of Restart.lean: every monitor armed
    {
        let mut r = root.fork("restart-schedules");
        let mut violating = 0;
        for i in 0..if args.thorough { 2400 } else { 140 } {
            let setup = Setup { n: 2 + r.below(2) as usize, t_units: 2, maxc: 100, lock_to: 1000, wallclock: false, age_parts: false, recovery: false, restart: true, wal: false };
            let max_events = 20 + r.below(31) as usize;
            let lines = gen_schedule(&mut r, &setup, max_events, &mut rep);
            let o = run_script(&mut m, &mut rep, "restart-schedules", &setup, &lines, true);
            if o.tags.iter().any(|t| t == "outside_alphabet_event") {
                rep.hit("restart.schedule_left_alphabet");
            }
            record(&mut rep, &mut m, "restart-schedules", &setup, &lines, &o);
            if i < 2 {
                rep.sample(json!({"stream": "restart-schedules", "setup": setup.init_line(), "script": lines}));
            }
            violating += usize::from(!o.violations.is_empty());
            if violating >= 6 {
                break;
            }
        }
        // recover() on every phase x votes x deadline, doctored entries: correspondence only
        for (name, setup, lines) in restart_arms() {
            let o = run_script(&mut m, &mut rep, "restart-arms", &setup, &lines, false);
            rep.case("restart-arms", None);
            for t in &o.tags {
                if t.starts_with("restart.") {
                    rep.hit(t);
                }
            }
            let _ = name;
        }
        // the stale-checkpoint witness (Lean: stale_checkpoint_restore_changes_decision_outside_quantifier_witness)
        let setup = Setup { n: 2, t_units: 2, maxc: 100, lock_to: 1000, wallclock: false, age_parts: false, recovery: false, restart: true, wal: false };
        let mut lines = vec![begin_line(&[0, 1], &[parse_ops("p1=7"), parse_ops("p3=9")], &[1, 2])];
        for l in ["deliver 0", "deliver 1", "deliver 2", "deliver 3", "ckpt", "ccommit 0", "deliver 4", "tick 3", "crestore", "crecover", "deliver 7"] {
            lines.push(l.to_string());
        }
        let o = run_script(&mut m, &mut rep, "restart-arms", &setup, &lines, true);
        rep.case("restart-arms", None);
        for t in &o.tags {
            if t.starts_with("restart.") {
                rep.hit(t);
            }
        }
        rep.observe(json!({
            "witness": "stale_checkpoint_restore_changes_decision", "setup": setup.init_line(), "script": lines,
            "model_agrees": !o.disagreed, "reproduced_on_real_objects": !o.observations.is_empty(), "monitor_hits": o.observations,
            "note": "a checkpoint older than a commit() decision is restored after the deadline: recover() aborts the transaction. State-based recovery forgets what was decided after the checkpoint (the WAL covers that window): outside C03's quantifier; Lean PropsRestart.lean"
        }));
        if !o.violations.is_empty() {
            rep.note("the stale-checkpoint witness reported violations BEFORE its stale restore");
            record(&mut rep, &mut m, "restart-arms", &setup, &lines, &o);
        }
    }

    // ---- random schedules on a WAL-backed coordinator with WAL restarts, inside the alphabet `ReachW` of Wal.lean
    {
        let mut r = root.fork("wal-restart-schedules");
        let mut violating = 0;
        // (`--skip-wal-stream`: timing aid)
        let n_wal = if args.extra.iter().any(|a| a == "--skip-wal-stream") { 0 } else if args.thorough { 2000 } else { 110 };
        for i in 0..n_wal {
            let setup = Setup { n: 2 + r.below(2) as usize, t_units: 2, maxc: 100, lock_to: 1000, wallclock: false, age_parts: false, recovery: false, restart: true, wal: true };
            let max_events = 20 + r.below(31) as usize;
            let lines = gen_schedule(&mut r, &setup, max_events, &mut rep);
            let o = run_script(&mut m, &mut rep, "wal-restart-schedules", &setup, &lines, true);
            if o.tags.iter().any(|t| t == "outside_alphabet_event") {
                rep.hit("wal.schedule_left_alphabet");
            }
            record(&mut rep, &mut m, "wal-restart-schedules", &setup, &lines, &o);
            if i < 2 {
                rep.sample(json!({"stream": "wal-restart-schedules", "setup": setup.init_line(), "script": lines}));
            }
            violating += usize::from(!o.violations.is_empty());
            if violating >= 6 {
                break;
            }
        }
        // On the code AS IT IS the timeout abort of a PREPARED entry (cleanup_timeouts, recover()) is not logged either,
        // and the log says Prepared: a WAL restart commits it (Lean: timeout_abort_of_prepared_entry_is_not_logged_outside_quantifier_witness).
        // Coordinator crashes are not in C03's quantifier; the model tags the restart `!outside`: an observation.
        let setup = Setup { n: 2, t_units: 2, maxc: 100, lock_to: 1000, wallclock: false, age_parts: false, recovery: false, restart: false, wal: true };
        for (name, tail) in [
            ("timeout_sweep_of_prepared_entry_then_wal_restart_commits", vec!["tick 3", "sweep", "deliver 4", "wrestart", "deliver 7"]),
            ("recover_of_timed_out_prepared_entry_then_wal_restart_commits", vec!["tick 3", "crecover", "deliver 4", "wrestart", "deliver 7"]),
        ] {
            let mut lines = vec![begin_line(&[0, 1], &[parse_ops("p1=7"), parse_ops("p3=9")], &[1, 2])];
            for l in ["deliver 0", "deliver 1", "deliver 2", "deliver 3"].iter().chain(tail.iter()) {
                lines.push(l.to_string());
            }
            let o = run_script(&mut m, &mut rep, "wal-observations", &setup, &lines, true);
            rep.case("wal-observations", None);
            for t in &o.tags {
                if t.starts_with("wal.") || t.starts_with("wrestart") {
                    rep.hit(t);
                }
            }
            rep.observe(json!({
                "witness": name, "setup": setup.init_line(), "script": lines,
                "model_agrees": !o.disagreed, "reproduced_on_real_objects": !o.observations.is_empty(), "monitor_hits": o.observations,
                "note": "a transaction that reached Prepared (logged) is aborted by the coordinator's timeout (cleanup_timeouts / recover()) without a WAL record; after crash + recover_from_wal() + recover() the restarted coordinator announces COMMIT for it: shard 0 rolled back, shard 1 applies. Coordinator crashes are outside C03's quantifier; proposed/C03-log-timeout-abort.diff; Lean PropsWal.lean"
            }));
            if !o.violations.is_empty() {
                rep.note(&format!("the WAL observation {name} reported violations BEFORE its restart left the alphabet"));
                record(&mut rep, &mut m, "wal-observations", &setup, &lines, &o);
            }
            if o.observations.is_empty() || o.disagreed {
                rep.note(&format!("WAL observation {name} did NOT reproduce on the real objects (behaviour changed?)"));
            }
        }
    }

    // ---- duplicate prepare + duplicate commit after another tx committed the same key: re-applies
    //      the first tx's writes (not excluded by C03's statement; reported as an observation)
    {
        let setup = Setup { n: 1, t_units: 2, maxc: 100, lock_to: 1000, wallclock: false, age_parts: false, recovery: false, restart: false, wal: false };
        let mut lines = vec![begin_line(&[0], &[parse_ops("p1=7")], &[1]), begin_line(&[0], &[parse_ops("p1=9")], &[1])];
        for l in ["deliver 0", "deliver 2", "ccommit 0", "deliver 3", "deliver 1", "deliver 4", "ccommit 1", "deliver 5", "deliver 0", "deliver 3"] {
            lines.push(l.to_string());
        }
        let mut real = Real::new(1, 2, 100, false, false, false);
        for l in &lines {
            real.exec(l);
        }
        let end = real.snapshot(0);
        let o = run_script(&mut m, &mut rep, "observations", &setup, &lines, true);
        record(&mut rep, &mut m, "observations", &setup, &lines, &o);
        rep.observe(json!({
            "observation": "duplicate_prepare_then_duplicate_commit_reapplies_committed_writes",
            "script": lines, "final_shard0": format!("{end:?}"),
            "note": "tx0 (k1=7) and then tx1 (k1=9) both committed; a duplicated prepare+commit of tx0 delivered afterwards re-prepares and re-applies k1=7 over tx1's committed write. C03's statement (one decision, no apply without commit, no split, aborts change nothing) is not violated: both decisions are commit."
        }));
    }

    for (k, v) in rep.distribution.clone() {
        let _ = (k, v);
    }
    rep.note("coordinator timeouts are produced on a virtual clock through the public persistence API (to_state -> bitcode -> load_from_store with shifted started_at); a small stream uses the untouched wall clock");
    rep.note("the streams directed-wal / wal-restart-schedules / wal-observations run a WAL-backed coordinator (TxWal on a tmpfs file; every append succeeds) and compare the log it writes with the model's after every event; the other streams run without a WAL. The coordinator-local handle_prepare lock manager is not exercised (asserted empty after every event); TensorStore::put never fails, so the rollback branch of TxParticipant::commit is unreachable");
    rep.write(&args.out);
}
