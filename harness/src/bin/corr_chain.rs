//! C16 correspondence: real `TensorChain` / `Chain` / `Block` / `TensorStateMachine` vs the Lean
//! chain model (`drv_chain`), plus property oracles evaluated on the implementation alone.
use std::collections::{BTreeMap, BTreeSet};
use std::sync::{Arc, Barrier, Mutex};

use graph_engine::GraphEngine;
use nverif::sched::{run_threads, Step};
use nverif::*;
use serde_json::{json, Value};
use tensor_chain::block::{Block, BlockHeader, Transaction};
use tensor_chain::chain::Chain;
use tensor_chain::network::{AppendEntriesResponse, MemoryTransport, Message};
use tensor_chain::raft::{RaftConfig, RaftNode};
use tensor_chain::signing::{Identity, ValidatorRegistry};
use tensor_chain::state_root::compute_state_root;
use tensor_chain::transaction::{apply_transaction_to_store, TransactionState, TransactionWorkspace};
use tensor_chain::{AutoMergeConfig, ChainConfig, ChainError, TensorChain, TensorStateMachine};
use tensor_store::{ScalarValue, SparseVector, TensorData, TensorStore, TensorValue};

const DIM: usize = 128;

// ------------------------------------------------------------------ helpers

#[derive(Clone, Debug, PartialEq)]
enum Tx {
    Put(u64, u64),
    Del(u64),
    /// `CompareAndSwap`: `None` = empty `expected_data` (what an absent key compares as)
    Cas(u64, Option<u64>, u64),
}
impl Tx {
    fn show(&self) -> String {
        match self {
            Tx::Put(k, v) => format!("p{k}:{v}"),
            Tx::Del(k) => format!("d{k}"),
            Tx::Cas(k, None, v) => format!("c{k}:-:{v}"),
            Tx::Cas(k, Some(e), v) => format!("c{k}:{e}:{v}"),
        }
    }
    fn real(&self) -> Transaction {
        match self {
            Tx::Put(k, v) => Transaction::Put { key: format!("d{k}"), data: v.to_le_bytes().to_vec() },
            Tx::Del(k) => Transaction::Delete { key: format!("d{k}") },
            Tx::Cas(k, e, v) => Transaction::CompareAndSwap { key: format!("d{k}"), expected_data: e.map(|e| e.to_le_bytes().to_vec()).unwrap_or_default(), new_data: v.to_le_bytes().to_vec() },
        }
    }
}
fn le8(data: &[u8]) -> u64 {
    let mut b = [0u8; 8];
    for (i, x) in data.iter().take(8).enumerate() {
        b[i] = *x;
    }
    u64::from_le_bytes(b)
}
/// what one transaction of the `d<k>` family does to a key/value image (the oracle's own replay)
fn apply_to_image(img: &mut BTreeMap<u64, u64>, t: &Transaction) {
    // keys outside the `d<k>` family (only present when `add_operation` let a reserved key through) are not data keys
    let dk = |key: &str| key.strip_prefix('d').and_then(|x| x.parse::<u64>().ok());
    match t {
        Transaction::Put { key, data } => {
            if let Some(k) = dk(key) {
                img.insert(k, le8(data));
            }
        }
        Transaction::Delete { key } => {
            if let Some(k) = dk(key) {
                img.remove(&k);
            }
        }
        Transaction::CompareAndSwap { key, expected_data, new_data } => {
            let Some(k) = dk(key) else { return };
            let matches = match img.get(&k) {
                Some(cur) => expected_data.len() == 8 && le8(expected_data) == *cur,
                None => expected_data.is_empty(),
            };
            if matches {
                img.insert(k, le8(new_data));
            }
        }
        _ => {}
    }
}
fn show_txs(t: &[Tx]) -> String {
    if t.is_empty() {
        "-".into()
    } else {
        t.iter().map(Tx::show).collect::<Vec<_>>().join(",")
    }
}
fn show_real_tx(t: &Transaction) -> String {
    // `d<k>` keys in the model's spelling; any other key (a reserved key that was let through) verbatim
    let sk = |key: &str| match key.strip_prefix('d') {
        Some(x) if x.parse::<u64>().is_ok() => x.to_string(),
        _ => format!("[{key}]"),
    };
    match t {
        Transaction::Put { key, data } => format!("p{}:{}", sk(key), le8(data)),
        Transaction::Delete { key } => format!("d{}", sk(key)),
        Transaction::CompareAndSwap { key, expected_data, new_data } => {
            format!("c{}:{}:{}", sk(key), if expected_data.is_empty() { "-".to_string() } else { le8(expected_data).to_string() }, le8(new_data))
        }
        _ => "other".into(),
    }
}
fn show_list(mut v: Vec<String>, sort: bool) -> String {
    if sort {
        v.sort();
    }
    if v.is_empty() {
        "-".into()
    } else {
        v.join(",")
    }
}

// ---------------------------------------------------------------- error canonicalisation (BUILDING.md)
// Rule 1 wherever the variant says it all (EmptyChain, BlockNotFound, InvalidHash, ConflictDetected; unknown
// variants are named, never quoted). `ValidationFailed(String)` and `TransactionFailed(String)` each carry
// several refusals that C16's oracles and known-finding classes DO tell apart (a commit rejected by
// Chain::append = late failure; which check of verify_chain fired; too many operations vs not active), and the
// variant has no structured discriminator: rule 3. The sub-reason is read by the keywords the repo's own tests
// pin, no tighter:
//   chain.rs  test_append_rejects_*            msg.contains("tx_root"), msg.contains("signed")
//   block.rs  test_verify_chain_fails_on_*     msg.contains("height"), msg.contains("timestamp");
//             verify_signature tests           to_string().contains("unknown proposer")
//   transaction.rs state tests                 msg.contains("not active"), contains("cannot commit"), contains("committed")
// ("state_root", "signature", "max_txs_per_block", "reserved" are pinned by no test; they are the field / config /
// constant names the messages quote). A message is given a specific token only when the keywords of EXACTLY ONE
// sub-reason occur in it; with none or several it degrades to the collapsed token of its variant (`err invalid`,
// `err txfail`), never to another specific token. `reconcile` then compares that line with every sub-reason of
// the same variant collapsed on both sides, and the consumers below treat the collapsed token by its variant.
const VAL_COLLAPSED: &str = "err invalid";
const TXF_COLLAPSED: &str = "err txfail";
const VAL_FINE: [(&str, &[&str]); 6] = [
    ("err height", &["height"]),
    ("err tx_root", &["tx_root"]),
    ("err state_root", &["state_root"]),
    ("err timestamp", &["timestamp"]),
    ("err unsigned", &["signed"]),
    ("err bad_sig", &["signature", "unknown proposer"]),
];
const TXF_FINE: [(&str, &[&str]); 4] = [
    ("err too_many", &["max_txs_per_block"]),
    ("err not_active", &["not active", "cannot commit"]),
    ("err committed", &["committed"]),
    ("err reserved", &["reserved"]),
];
fn sub_reason(m: &str, table: &[(&'static str, &[&str])], collapsed: &'static str) -> &'static str {
    let hits: Vec<&'static str> = table.iter().filter(|(_, kws)| kws.iter().any(|k| m.contains(k))).map(|(t, _)| *t).collect();
    if hits.len() == 1 { hits[0] } else { collapsed }
}
fn verr(e: &ChainError) -> String {
    match e {
        ChainError::EmptyChain => "err empty_chain".into(),
        ChainError::BlockNotFound(h) => format!("err not_found {h}"),
        ChainError::InvalidHash { .. } => "err prev_hash".into(),
        ChainError::ValidationFailed(m) => sub_reason(m, &VAL_FINE, VAL_COLLAPSED).into(),
        ChainError::ConflictDetected { .. } => "err conflict".into(),
        ChainError::TransactionFailed(m) => sub_reason(m, &TXF_FINE, TXF_COLLAPSED).into(),
        other => format!("err other:{}", format!("{other:?}").chars().take_while(|c| c.is_alphanumeric()).collect::<String>()),
    }
}
/// (implementation line, model line) as they are compared: when the implementation's line carries a collapsed
/// token, the sub-reasons of that variant are collapsed on BOTH sides (so a reworded message agrees with any
/// sub-reason of the same variant and with nothing else); otherwise both lines are returned unchanged.
fn reconcile(imp: &str, model: &str) -> (String, String) {
    let (mut a, mut b) = (imp.to_string(), model.to_string());
    for (collapsed, table) in [(VAL_COLLAPSED, &VAL_FINE[..]), (TXF_COLLAPSED, &TXF_FINE[..])] {
        if imp.contains(collapsed) {
            for (fine, _) in table {
                a = a.replace(fine, collapsed);
                b = b.replace(fine, collapsed);
            }
        }
    }
    (a, b)
}
trait CompareCollapsed {
    fn compare_c(&mut self, stream: &str, input: impl FnOnce() -> Value, imp: &str, model: &str) -> bool;
}
impl CompareCollapsed for Report {
    fn compare_c(&mut self, stream: &str, input: impl FnOnce() -> Value, imp: &str, model: &str) -> bool {
        let (a, b) = reconcile(imp, model);
        self.compare(stream, input, &a, &b)
    }
}
fn vres(r: Result<(), ChainError>) -> String {
    match r {
        Ok(()) => "ok".into(),
        Err(e) => verr(&e),
    }
}

fn data_image(store: &TensorStore) -> BTreeMap<u64, u64> {
    let mut m = BTreeMap::new();
    for k in store.scan("d") {
        if let (Ok(n), Ok(td)) = (k[1..].parse::<u64>(), store.get(&k)) {
            if let Some(TensorValue::Scalar(ScalarValue::Bytes(b))) = td.get("data") {
                let mut a = [0u8; 8];
                for (i, x) in b.iter().take(8).enumerate() {
                    a[i] = *x;
                }
                m.insert(n, u64::from_le_bytes(a));
            }
        }
    }
    m
}
fn show_image(m: &BTreeMap<u64, u64>) -> String {
    show_list(m.iter().map(|(k, v)| format!("{k}:{v}")).collect(), false)
}
fn blocks_present(store: &TensorStore) -> Vec<u64> {
    let mut v: Vec<u64> = store.scan("chain:block:").iter().filter_map(|k| k["chain:block:".len()..].parse().ok()).collect();
    v.sort_unstable();
    v
}
fn show_heights(v: &[u64]) -> String {
    show_list(v.iter().map(|x| x.to_string()).collect(), false)
}
fn read_block(store: &TensorStore, h: u64) -> Option<Block> {
    let td = store.get(&format!("chain:block:{h}")).ok()?;
    match td.get("_block") {
        Some(TensorValue::Scalar(ScalarValue::Bytes(b))) => bitcode::deserialize(b).ok(),
        _ => None,
    }
}
fn write_block(store: &TensorStore, h: u64, b: &Block) {
    let key = format!("chain:block:{h}");
    let mut td = store.get(&key).unwrap_or_default();
    td.set("_block", TensorValue::Scalar(ScalarValue::Bytes(bitcode::serialize(b).unwrap())));
    store.put(key, td).unwrap();
}
/// keys whose presence or serialized value differs between two stores
fn store_diff(a: &TensorStore, b: &TensorStore) -> Vec<String> {
    let mut keys: BTreeSet<String> = a.scan("").into_iter().collect();
    keys.extend(b.scan(""));
    let ser = |s: &TensorStore, k: &str| -> Option<Vec<(String, Vec<u8>)>> {
        let td = s.get(k).ok()?;
        let mut f: Vec<(String, Vec<u8>)> = td.keys().map(|fk| (fk.clone(), bitcode::serialize(td.get(fk).unwrap()).unwrap_or_default())).collect();
        f.sort();
        Some(f)
    };
    let mut out = Vec::new();
    for k in keys {
        match (ser(a, &k), ser(b, &k)) {
            (Some(x), Some(y)) if x == y => {}
            (Some(x), Some(y)) => {
                let fields: Vec<String> = x.iter().zip(y.iter()).filter(|(p, q)| p != q).map(|(p, _)| p.0.clone()).collect();
                out.push(format!("{k} (fields {})", fields.join("/")));
            }
            (Some(_), None) => out.push(format!("{k} (only replica 1)")),
            (None, Some(_)) => out.push(format!("{k} (only replica 2)")),
            (None, None) => {}
        }
    }
    out
}
fn unit(d: u64) -> Vec<f32> {
    let mut v = vec![0.0f32; DIM];
    if d > 0 {
        v[(d as usize) % DIM] = 1.0;
    }
    v
}

// ------------------------------------------------------------------ stream A: workspaces

#[derive(Clone, Debug)]
enum Op {
    Begin(u64),
    Put(usize, u64, u64),
    Del(usize, u64),
    Cas(usize, u64, Option<u64>, u64),
    /// `add_operation` with a key under the reserved `chain:` prefix: kind (`put` / `del` / `cas`), the key in the
    /// model's spelling (`meta` = `chain:meta`, `block:<h>` = `chain:block:<h>`), value
    RawAdd(usize, &'static str, String, u64),
    Commit(usize),
    /// a commit during whose `Chain::append` the process stops after the block record was stored and before the height
    /// record was saved (the pre-commit `chain:meta` record is put back), followed by a restart; a commit that
    /// stores no block is an ordinary commit
    CrashCommit(usize),
    Rollback(usize),
    /// restart: a new `TensorChain` object (same identity) over the same store + `initialize()`
    Reopen,
    History(u64),
    State,
}
fn show_op(o: &Op) -> String {
    match o {
        Op::Begin(d) => format!("begin dir={d}"),
        Op::Put(w, k, v) => format!("put {w} {k} {v}"),
        Op::Del(w, k) => format!("del {w} {k}"),
        Op::Cas(w, k, e, v) => format!("cas {w} {k} {} {v}", e.map_or("-".to_string(), |e| e.to_string())),
        Op::RawAdd(w, kind, key, v) => match *kind {
            "put" => format!("radd {w} put {key} {v}"),
            "del" => format!("radd {w} del {key}"),
            _ => format!("radd {w} cas {key} - {v}"),
        },
        Op::Commit(w) => format!("commit {w}"),
        Op::CrashCommit(w) => format!("commit {w} (stop in append after the block record, before the height record; restart)"),
        Op::Rollback(w) => format!("rollback {w}"),
        Op::Reopen => "reopen".into(),
        Op::History(k) => format!("history {k}"),
        Op::State => "state".into(),
    }
}

/// the store key a model-spelled reserved key stands for
fn reserved_real_key(key: &str) -> String {
    format!("chain:{key}")
}
fn reserved_tx(kind: &str, real_key: &str, v: u64) -> Transaction {
    match kind {
        "put" => Transaction::Put { key: real_key.to_string(), data: v.to_le_bytes().to_vec() },
        "del" => Transaction::Delete { key: real_key.to_string() },
        _ => Transaction::CompareAndSwap { key: real_key.to_string(), expected_data: vec![], new_data: v.to_le_bytes().to_vec() },
    }
}
const NAMESPACE_CLASS: &str = "tensor_chain.commit/workspace_write_to_chain_namespace";
/// after a restart the in-memory tip hash is not the hash of the stored block at the in-memory height
const TIP_CLASS: &str = "tensor_chain.initialize/tip_hash_not_hash_of_tip_block";
/// a restart over a store left behind by a stop inside `Chain::append` does not recover the stored chain
const CRASH_CLASS: &str = "tensor_chain.initialize/append_crash_state_not_recovered";
/// blocks appended / committed through the public interface after a restart over a verifying store do not verify
const AFTER_RESTART_CLASS: &str = "tensor_chain.initialize/chain_built_after_restart_does_not_verify";

/// oracle (a): the tip hash an object reports is the hash of the stored block at the height it reports
fn tip_mismatch(height: u64, tip: [u8; 32], store: &TensorStore) -> Option<String> {
    let b = read_block(store, height)?;
    if b.hash() == tip {
        return None;
    }
    let names = (0..height).rev().find(|h| read_block(store, *h).is_some_and(|x| x.hash() == tip));
    Some(format!("height() = {height}, tip_hash() = {}.. but the stored block {height} has hash {}..{}", hex(&tip[..6]), hex(&b.hash()[..6]),
        names.map_or(String::new(), |h| format!(" (tip_hash() is the hash of block {h})"))))
}
/// oracle (b), the links: every stored block `1..=height` names the hash of the stored block below it
fn broken_links(store: &TensorStore, height: u64) -> Vec<String> {
    (1..=height)
        .filter_map(|h| match (read_block(store, h - 1), read_block(store, h)) {
            (Some(p), Some(b)) if b.header.prev_hash == p.hash() => None,
            (Some(p), Some(b)) => {
                let names = (0..h).find(|x| read_block(store, *x).is_some_and(|y| y.hash() == b.header.prev_hash));
                Some(format!("block {h}: prev_hash {}.. is not the hash of block {} ({}..){}", hex(&b.header.prev_hash[..6]), h - 1, hex(&p.hash()[..6]), names.map_or(String::new(), |x| format!(", it is the hash of block {x}"))))
            }
            _ => Some(format!("block {} or {h} missing", h - 1)),
        })
        .collect()
}

fn gen_ops(r: &mut Rng, allow_stale_rollback: bool) -> Vec<Op> {
    let n = 8 + r.below(30) as usize;
    let mut ops = Vec::new();
    let mut nws = 0usize;
    let mut dirs: Vec<u64> = Vec::new();
    let mut val = 1u64;
    let mut last_put: BTreeMap<u64, u64> = BTreeMap::new(); // last value any workspace wrote under a key (CAS expectations)
    let mut committed_since: Vec<bool> = Vec::new(); // per ws: has some commit happened since its begin
    for _ in 0..n {
        let c = r.below(100);
        if nws == 0 || (c < 15 && nws < 6) {
            let d = if r.chance(1, 3) { 1 + r.below(3) } else { 0 };
            ops.push(Op::Begin(d));
            dirs.push(d);
            committed_since.push(false);
            nws += 1;
        } else if c < 60 {
            let w = r.below(nws as u64) as usize;
            let k = if dirs[w] == 0 { r.below(5) } else { 100 * dirs[w] + r.below(2) };
            if r.chance(1, 8) {
                // a key of the chain's own records (must be refused: repo commit b368f92a)
                let key = if r.chance(1, 4) { "meta".to_string() } else { format!("block:{}", r.below(5)) };
                ops.push(Op::RawAdd(w, *r.pick(&["put", "del", "cas"]), key, val));
                val += 1;
                continue;
            }
            match r.below(10) {
                0 | 1 => ops.push(Op::Del(w, k)),
                2 | 3 => {
                    let e = match r.below(4) {
                        0 => None,
                        1 => Some(1 + r.below(val)),
                        _ => last_put.get(&k).copied(),
                    };
                    ops.push(Op::Cas(w, k, e, val));
                    last_put.insert(k, val);
                    val += 1;
                }
                _ => {
                    ops.push(Op::Put(w, k, val));
                    last_put.insert(k, val);
                    val += 1;
                }
            }
        } else if c < 80 {
            let w = r.below(nws as u64) as usize;
            // a fifth of the commits stop inside `Chain::append` (block record stored, height record not) + restart
            ops.push(if c >= 76 { Op::CrashCommit(w) } else { Op::Commit(w) });
            for x in committed_since.iter_mut() {
                *x = true;
            }
        } else if c < 88 {
            let w = r.below(nws as u64) as usize;
            if allow_stale_rollback || !committed_since[w] {
                ops.push(Op::Rollback(w));
            }
        } else if c < 92 {
            ops.push(Op::Reopen);
        } else if c < 95 {
            let keys: Vec<u64> = last_put.keys().copied().collect();
            ops.push(Op::History(if keys.is_empty() { r.below(5) } else { *r.pick(&keys) }));
        } else {
            ops.push(Op::State);
        }
    }
    let keys: Vec<u64> = last_put.keys().copied().collect();
    ops.push(Op::History(if keys.is_empty() { r.below(5) } else { *r.pick(&keys) }));
    ops.push(Op::State);
    ops
}

struct WsOutcome {
    disagreements: Vec<(String, String, String)>,
    violations: Vec<(String, String)>,
    nontrivial: bool,
    hits: Vec<String>,
}

/// the node identity of the workspace streams (fixed, so that a restart can re-create the same node)
fn node_identity() -> Identity {
    Identity::from_bytes(&[7u8; 32]).unwrap()
}
/// the height a dumped `chain:meta` record names
fn meta_of_dump(d: &Dump) -> Option<u64> {
    let f = d.get("chain:meta")?;
    let (_, bytes) = f.iter().find(|(k, _)| k == "height")?;
    match bitcode::deserialize::<TensorValue>(bytes).ok()? {
        TensorValue::Scalar(ScalarValue::Int(h)) => Some(h as u64),
        _ => None,
    }
}
fn meta_height(store: &TensorStore) -> String {
    match store.get("chain:meta").ok().and_then(|d| d.get("height").cloned()) {
        Some(TensorValue::Scalar(ScalarValue::Int(h))) => h.to_string(),
        _ => "none".into(),
    }
}
fn show_history(h: &[(u64, Transaction)]) -> String {
    show_list(h.iter().map(|(h, t)| format!("{h}:{}", show_real_tx(t))).collect(), false)
}

/// Run one op list on a fresh real `TensorChain` and on the model.
fn run_ws_case(m: &mut Model, ops: &[Op], max_txs: usize, auto_merge: bool, max_merge: usize) -> WsOutcome {
    let mut out = WsOutcome { disagreements: vec![], violations: vec![], nontrivial: false, hits: vec![] };
    let store = TensorStore::new();
    let mut cfg = ChainConfig::new("n").with_max_txs(max_txs);
    cfg.auto_merge = AutoMergeConfig { enabled: auto_merge, orthogonal_threshold: 0.1, max_merge_batch: max_merge, merge_window_ms: u64::MAX / 4 };
    let mut tc = TensorChain::with_identity(store.clone(), cfg.clone(), node_identity());
    tc.initialize().unwrap();
    m.ask(&format!("init {max_txs} {} {max_merge} 0", u8::from(auto_merge)));
    let mut wss: Vec<Arc<TransactionWorkspace>> = Vec::new();
    // oracle state: what the chain should contain if every commit is atomic and nothing else touches it
    let mut expect_blocks: u64 = 0;
    let mut expect_data: BTreeMap<u64, u64> = BTreeMap::new();
    let mut ts = 1u64;
    let mut broken = false;
    let mut reserved_accepted = false;
    let mut taint_from = usize::MAX;
    for (i, op) in ops.iter().enumerate() {
        let (imp, model, tag): (String, String, &str) = match op {
            Op::Begin(d) => {
                let w = tc.begin().unwrap();
                w.set_before_embedding(&vec![0.0; DIM]);
                w.compute_delta(&unit(*d));
                wss.push(w);
                let a = m.ask("begin");
                let id = wss.len() - 1;
                m.ask(&format!("dir {id} {d}"));
                (format!("ws {id}"), a, "begin")
            }
            Op::Put(w, k, v) => {
                let r = wss[*w].add_operation(Tx::Put(*k, *v).real());
                (r.map_or_else(|e| verr(&e), |()| "ok".into()), m.ask(&format!("put {w} {k} {v}")), "put")
            }
            Op::Del(w, k) => {
                let r = wss[*w].add_operation(Tx::Del(*k).real());
                (r.map_or_else(|e| verr(&e), |()| "ok".into()), m.ask(&format!("del {w} {k}")), "del")
            }
            Op::Cas(w, k, e, v) => {
                let r = wss[*w].add_operation(Tx::Cas(*k, *e, *v).real());
                (r.map_or_else(|e| verr(&e), |()| "ok".into()), m.ask(&show_op(op)), "cas")
            }
            Op::RawAdd(w, kind, key, v) => {
                let real_key = reserved_real_key(key);
                let r = wss[*w].add_operation(reserved_tx(kind, &real_key, *v));
                // oracle (implementation only; Lean: add_operation_refuses_reserved_keys): never accepted
                if r.is_ok() {
                    if !reserved_accepted {
                        taint_from = out.violations.len();
                    }
                    reserved_accepted = true;
                    out.violations.push((NAMESPACE_CLASS.into(), format!("op {i}: add_operation accepted {kind} on the chain's own record {real_key:?}")));
                }
                (r.map_or_else(|e| verr(&e), |()| "ok".into()), m.ask(&show_op(op)), "radd")
            }
            Op::Commit(w) | Op::CrashCommit(w) => {
                let before_h = tc.height();
                let meta_before = store.get("chain:meta").ok();
                let before_img = data_image(&store);
                let nops = wss[*w].operation_count();
                let was_active = wss[*w].is_active();
                let r = tc.commit(&wss[*w]);
                ts += 1;
                let imp = match &r {
                    Ok(_) if nops == 0 && was_active => "empty".to_string(),
                    Ok(_) => {
                        let h = tc.height();
                        let b = read_block(&store, h);
                        let txs = b.as_ref().map(|b| b.transactions.iter().map(show_real_tx).collect::<Vec<_>>()).unwrap_or_default();
                        // oracle: exactly one new block holding the ops; all writes applied
                        if h != before_h + 1 {
                            out.violations.push(("tensor_chain.commit/not_one_new_block".into(), format!("op {i}: height {before_h} -> {h}")));
                        }
                        if let Some(b) = &b {
                            for t in &b.transactions {
                                apply_to_image(&mut expect_data, t);
                            }
                            for o in wss[*w].operations() {
                                if !b.transactions.contains(&o) {
                                    out.violations.push(("tensor_chain.commit/committed_op_not_in_block".into(), format!("op {i}")));
                                }
                            }
                        } else {
                            out.violations.push(("tensor_chain.commit/ok_without_block".into(), format!("op {i}")));
                        }
                        expect_blocks += 1;
                        out.nontrivial = true;
                        format!("ok h={h} txs={}", show_list(txs, true))
                    }
                    Err(e) => {
                        // oracle: nothing changed
                        if tc.height() != before_h || (data_image(&store) != before_img && !broken) {
                            out.violations.push(("tensor_chain.commit/failed_commit_changed_state".into(), format!("op {i}: {e}")));
                        }
                        verr(e)
                    }
                };
                let model = m.ask(&format!("commit {w} {ts}"));
                // merged ids are compared through the tx multiset of the block; strip the model's merged= part
                let model = model.split(" merged=").next().unwrap_or("").to_string();
                match (op, meta_before) {
                    (Op::CrashCommit(_), Some(meta_before)) if r.is_ok() && tc.height() == before_h + 1 => {
                        // the crash state "block record stored, height record not yet saved", then a restart
                        store.put("chain:meta", meta_before).unwrap();
                        tc = TensorChain::with_identity(store.clone(), cfg.clone(), node_identity());
                        let init = tc.initialize();
                        ts += 1;
                        // oracles (implementation only; Lean: reopen_after_append_crash_recovers_tip): the restart
                        // succeeds, finds the stored block, and the tip hash is the hash of that block
                        if !broken {
                            if let Some(what) = tip_mismatch(tc.height(), tc.tip_hash(), &store) {
                                broken = true;
                                out.violations.push((TIP_CLASS.into(), format!("op {i}: after a stop inside append (block {} stored, height record {before_h}) and a restart: {what}", before_h + 1)));
                            } else if init.is_err() || tc.height() != before_h + 1 {
                                broken = true;
                                out.violations.push((CRASH_CLASS.into(), format!("op {i}: after a stop inside append (block {} stored, height record {before_h}) and a restart: initialize() = {:?}, height {}", before_h + 1, init.as_ref().map_err(|e| e.to_string()), tc.height())));
                            }
                        }
                        let imp = format!("{imp} | restart {} meta={} active={}", state_line(&tc, &store), meta_height(&store), tc.active_transactions());
                        m.ask(&format!("nsetmeta {before_h}"));
                        let a = m.ask(&format!("reopen {ts}"));
                        (imp, format!("{model} | restart {a} meta={} active={}", m.ask("meta"), m.ask("active")), "crashcommit")
                    }
                    _ => (imp, model, "commit"),
                }
            }
            Op::Rollback(w) => {
                let r = tc.rollback(&wss[*w]);
                (r.map_or_else(|e| verr(&e), |()| "ok".into()), m.ask(&format!("rollback {w}")), "rollback")
            }
            Op::Reopen => {
                let before = chain_snap(&tc, &store);
                tc = TensorChain::with_identity(store.clone(), cfg.clone(), node_identity());
                let init = tc.initialize();
                ts += 1;
                let after = chain_snap(&tc, &store);
                // oracle (implementation only): after ANY restart the tip hash is the hash of the stored block at the height
                if !broken {
                    if let Some(what) = tip_mismatch(tc.height(), tc.tip_hash(), &store) {
                        broken = true;
                        out.violations.push((TIP_CLASS.into(), format!("op {i}: after a restart: {what}")));
                    }
                }
                // oracle (implementation only): a restart of a healthy node changes nothing
                if !broken && (init.is_err() || after != before) {
                    out.violations.push((
                        "tensor_chain.initialize/restart_changed_chain".into(),
                        format!("op {i}: new TensorChain over the same store + initialize() = {:?}: {}", init.as_ref().map_err(|e| e.to_string()), snap_diff(&before, &after).join("; ")),
                    ));
                }
                let imp = format!("{} meta={} active={}", state_line(&tc, &store), meta_height(&store), tc.active_transactions());
                let a = m.ask(&format!("reopen {ts}"));
                (imp, format!("{a} meta={} active={}", m.ask("meta"), m.ask("active")), "reopen")
            }
            Op::History(k) => {
                let h = tc.history(&format!("d{k}"));
                let imp = h.as_ref().map_or_else(|e| verr(e), |h| show_history(h));
                // oracle (implementation only): the value under a key is the replay of the key's own history
                if let (false, Ok(h)) = (broken, &h) {
                    let mut img = BTreeMap::new();
                    for (_, t) in h {
                        apply_to_image(&mut img, t);
                    }
                    let cur = data_image(&store).get(k).copied();
                    if img.get(k).copied() != cur {
                        out.violations.push(("tensor_chain.history/value_not_replay_of_history".into(), format!("op {i}: key d{k}: store has {cur:?}, replaying history(d{k}) = [{imp}] gives {:?}", img.get(k))));
                    }
                }
                (imp, m.ask(&format!("history {k}")), "history")
            }
            Op::State => {
                // oracle (implementation only; Lean: each_committed_workspace_exactly_once): the chain's transactions
                // are, as a multiset, exactly the operations of the workspaces in state Committed
                if !broken {
                    let mut want: BTreeMap<String, i64> = BTreeMap::new();
                    for x in wss.iter().filter(|x| x.state() == TransactionState::Committed) {
                        for o in x.operations() {
                            *want.entry(show_real_tx(&o)).or_default() += 1;
                        }
                    }
                    let mut have: BTreeMap<String, i64> = BTreeMap::new();
                    for h in 0..=tc.height() {
                        if let Some(b) = read_block(&store, h) {
                            for t in &b.transactions {
                                *have.entry(show_real_tx(t)).or_default() += 1;
                            }
                        }
                    }
                    if have != want {
                        let diff: Vec<String> = have.keys().chain(want.keys()).filter(|k| have.get(*k) != want.get(*k)).map(|k| format!("{k}: chain {} / committed workspaces {}", have.get(k).unwrap_or(&0), want.get(k).unwrap_or(&0))).collect::<BTreeSet<_>>().into_iter().collect();
                        out.violations.push(("tensor_chain.commit/chain_not_committed_workspaces_once".into(), format!("op {i}: the transactions of the chain's blocks are not exactly the operations of the Committed workspaces, each once: {}", diff.join("; "))));
                    }
                }
                let imp = format!("{} meta={}", state_line(&tc, &store), meta_height(&store));
                (imp, format!("{} meta={}", m.ask("state"), m.ask("meta")), "state")
            }
        };
        if tag == "history" {
            out.hits.push(format!("ws.history.{}", if imp == "-" { "empty" } else if imp.contains(",") { "several" } else { "one" }));
        } else {
            out.hits.push(format!("ws.{tag}.{}", imp.split(' ').take(2).collect::<Vec<_>>().join("_").replace(|c: char| c.is_ascii_digit() || c == '=', "")));
        }
        let (imp_c, model_c) = reconcile(&imp, &model);
        if imp_c != model_c {
            out.disagreements.push((format!("op {i} {}", show_op(op)), imp.clone(), model));
        }
        // property oracle after every op (implementation only)
        if !broken {
            let present = blocks_present(&store);
            let want: Vec<u64> = (0..=expect_blocks).collect();
            let ver = tc.verify();
            let img = data_image(&store);
            let ok = tc.height() == expect_blocks && present == want && ver.is_ok() && img == expect_data;
            if !ok {
                broken = true;
                let (class, what) = match op {
                    Op::Rollback(_) => ("tensor_chain.rollback/stale_checkpoint_wipes_committed_block", "rollback of a workspace begun before a later commit restored the whole store to its checkpoint"),
                    Op::Commit(_) => ("tensor_chain.commit/sequential_commit_not_atomic", "after a sequential commit chain/store are not (one new block + all writes) or untouched"),
                    Op::CrashCommit(_) => (CRASH_CLASS, "after a commit that stopped inside append (block record stored, height record not yet saved) and a restart, height / blocks / verify / data are not those of the completed commit"),
                    Op::Reopen => ("tensor_chain.initialize/restart_lost_chain", "after a restart (new TensorChain over the same store + initialize()) height / blocks / verify / data are not those of before"),
                    _ => ("tensor_chain.workspace/op_changed_chain_or_store", "a non-commit op changed chain or store"),
                };
                out.violations.push((
                    class.into(),
                    format!("{what}; after op {i} ({}): height={} want {expect_blocks}, blocks={present:?}, verify={}, data={} want {}", show_op(op), tc.height(), vres(ver), show_image(&img), show_image(&expect_data)),
                ));
            }
        }
    }
    // once a key under the reserved prefix was let into a workspace of this chain, every later oracle failure of the
    // case is a consequence of that: the class is computed from the trace
    for v in out.violations.iter_mut().skip(taint_from) {
        if v.0 != NAMESPACE_CLASS {
            v.1 = format!("(after add_operation accepted a key under the reserved chain: prefix) {}: {}", v.0, v.1);
            v.0 = NAMESPACE_CLASS.into();
        }
    }
    out
}

// ------------------------------------------------------------------ stream V: auto-merge under the transition validator
//
// With a NON-EMPTY global codebook `find_and_merge_orthogonal` asks the `TransitionValidator` about every merge
// candidate and marks a rejected one `Failed`.  The validators used here decide by the SIZE of the candidate's delta
// (so the verdict does not depend on the `HashMap` order the candidates are visited in): a "small" delta (0.05 along
// the workspace's own axis) is accepted, a "big" one (3.0) is rejected by `reject_big` (non-strict, magnitude limit
// 1.0) and by `strict` (the configuration of the repo's own test `test_auto_merge_validation_rejects_candidate`:
// default `ValidationConfig`, one centroid along the first committer's axis: the committer's own delta must lie on that
// axis, the merged delta within cosine 0.8 of it and the added part within magnitude 1.0); `accept_all` (non-strict, no effective limit)
// accepts both; `empty` is the default empty codebook (validator not consulted).
// Property oracle (implementation only; Lean: rejected_candidate_contributes_nothing, failed_candidate_ops_not_in_block,
// failed_candidate_writes_not_in_store): after every commit the new block holds exactly the operations of the
// workspaces that became `Committed` in that call, the store is the replay of the Committed workspaces, and a
// workspace that ended `Failed` has none of its operations in any block and none of its writes in the store.

const VM_FAILED_CLASS: &str = "tensor_chain.commit/failed_merge_candidate_writes_applied";

#[derive(Clone, Debug, PartialEq)]
enum VmStep {
    /// slot, direction (0 = zero delta), size of the delta: 0 = small (0.05), 1 = unit (1.0), 2 = big (3.0)
    Begin(usize, u64, u8),
    Add(usize, Tx),
    Commit(usize),
}
fn show_vm(s: &VmStep) -> String {
    match s {
        VmStep::Begin(w, d, size) => format!("begin ws{w} delta={}*e{d}", if *d == 0 { "0" } else { ["0.05", "1.0", "3.0"][*size as usize % 3] }),
        VmStep::Add(w, t) => format!("ws{w}: {}", t.show()),
        VmStep::Commit(w) => format!("commit ws{w}"),
    }
}
fn vm_chain(validator: &str, auto_merge: bool, centroid_dir: u64) -> (TensorChain, TensorStore) {
    use tensor_chain::{CodebookConfig, GlobalCodebook, ValidationConfig};
    let store = TensorStore::new();
    let mut cfg = ChainConfig::new("n");
    cfg.auto_merge = AutoMergeConfig { enabled: auto_merge, orthogonal_threshold: 0.1, max_merge_batch: 10, merge_window_ms: u64::MAX / 4 };
    let tc = if validator == "empty" {
        TensorChain::with_identity(store.clone(), cfg, node_identity())
    } else {
        let vc = match validator {
            "strict" => ValidationConfig::default(),
            "reject_big" => ValidationConfig { strict_transition: false, max_transition_magnitude: 1.0, ..ValidationConfig::default() },
            _ => ValidationConfig { strict_transition: false, max_transition_magnitude: 1.0e9, ..ValidationConfig::default() },
        };
        TensorChain::with_codebook(store.clone(), cfg, GlobalCodebook::from_centroids(vec![unit(centroid_dir.max(1))]), CodebookConfig::default(), vc)
    };
    tc.initialize().unwrap();
    (tc, store)
}
struct VmOutcome {
    disagreements: Vec<(String, String, String)>,
    violations: Vec<(String, String)>,
    hits: Vec<String>,
    nontrivial: bool,
}
/// Run one step list on a fresh real `TensorChain` built with the validator; every commit is also put to the model's
/// merge loop (`vmerge`) with the verdict bits the validator's configuration predicts.
fn run_vm_case(m: &mut Model, validator: &str, auto_merge: bool, steps: &[VmStep]) -> VmOutcome {
    let mut out = VmOutcome { disagreements: vec![], violations: vec![], hits: vec![], nontrivial: false };
    // the centroid of the non-empty codebooks lies along the first committer's axis (as in the repo's test)
    let first_committer_dir = steps.iter().find_map(|s| if let VmStep::Commit(w) = s { steps.iter().find_map(|b| matches!(b, VmStep::Begin(x, _, _) if x == w).then(|| if let VmStep::Begin(_, d, _) = b { *d } else { 0 })) } else { None }).unwrap_or(1);
    let (tc, store) = vm_chain(validator, auto_merge, first_committer_dir);
    let mut wss: BTreeMap<usize, (Arc<TransactionWorkspace>, u64, u8)> = BTreeMap::new();
    let mut expect_data: BTreeMap<u64, u64> = BTreeMap::new();
    let mut expect_height = 0u64;
    let mut broken = false;
    for (i, st) in steps.iter().enumerate() {
        match st {
            VmStep::Begin(w, d, size) => {
                if wss.contains_key(w) {
                    continue;
                }
                let x = tc.begin().unwrap();
                x.set_before_embedding(&vec![0.0; DIM]);
                let mut v = unit(*d);
                for f in v.iter_mut() {
                    *f *= [0.05f32, 1.0, 3.0][*size as usize % 3];
                }
                x.compute_delta(&v);
                wss.insert(*w, (x, *d, *size));
            }
            VmStep::Add(w, t) => {
                if let Some((x, _, _)) = wss.get(w) {
                    let _ = x.add_operation(t.real());
                }
            }
            VmStep::Commit(w) => {
                let Some((x, d, size)) = wss.get(w).map(|(x, d, b)| (x.clone(), *d, *b)) else { continue };
                let states_before: BTreeMap<usize, TransactionState> = wss.iter().map(|(k, v)| (*k, v.0.state())).collect();
                // the candidates `find_merge_candidates` returns: Active, non-zero delta, another axis
                let cands: Vec<usize> = wss.iter().filter(|(k, v)| *k != w && v.0.state() == TransactionState::Active && v.1 != 0 && v.1 != d && d != 0 && auto_merge && x.state() == TransactionState::Active && x.operation_count() > 0).map(|(k, _)| *k).collect();
                let before = chain_snap(&tc, &store);
                let own_ops = x.operations();
                let r = tc.commit(&x);
                let after_states: BTreeMap<usize, TransactionState> = wss.iter().map(|(k, v)| (*k, v.0.state())).collect();
                let newly = |st: TransactionState| -> Vec<usize> { wss.keys().filter(|k| *k != w && states_before[*k] == TransactionState::Active && after_states[*k] == st).copied().collect() };
                let (merged, failed) = (newly(TransactionState::Committed), newly(TransactionState::Failed));
                let h = tc.height();
                let imp = match &r {
                    Ok(_) if own_ops.is_empty() && states_before[w] == TransactionState::Active => "empty".to_string(),
                    Ok(_) => {
                        let txs = read_block(&store, h).map(|b| b.transactions.iter().map(show_real_tx).collect::<Vec<_>>()).unwrap_or_default();
                        format!("txs={} merged={} failed={}", show_list(txs, true), show_list(merged.iter().map(|k| k.to_string()).collect(), true), show_list(failed.iter().map(|k| k.to_string()).collect(), true))
                    }
                    Err(e) => verr(e),
                };
                out.hits.push(format!("vmerge.{validator}.commit.{}", imp.split(' ').next().unwrap_or("").split('=').next().unwrap_or("")));
                if !merged.is_empty() {
                    out.hits.push(format!("vmerge.{validator}.candidate_merged"));
                }
                if !failed.is_empty() {
                    out.hits.push(format!("vmerge.{validator}.candidate_rejected"));
                }
                if !merged.is_empty() && !failed.is_empty() {
                    out.hits.push("vmerge.accepted_and_rejected_in_one_commit".to_string());
                }
                // ---- correspondence: the model's merge loop with the predicted verdict bits
                if r.is_ok() && !own_ops.is_empty() && states_before[w] == TransactionState::Active {
                    let line = format!(
                        "vmerge {} {} {d} {}",
                        u8::from(validator != "empty"),
                        own_ops.iter().map(show_real_tx).collect::<Vec<_>>().join(","),
                        if cands.is_empty() { "-".to_string() } else { cands.iter().map(|k| {
                            let (cx, cd, cbig) = &wss[k];
                            let ops = cx.operations();
                            format!("{k}/1/{}/{cd}/{}", u8::from(match validator { "strict" => { let (sc, sk) = ([0.05f64, 1.0, 3.0][size as usize % 3], [0.05f64, 1.0, 3.0][*cbig as usize % 3]); d == first_committer_dir.max(1) && sk <= 1.0 && sc / (sc * sc + sk * sk).sqrt() >= 0.8 } "reject_big" => *cbig != 2, _ => true }), if ops.is_empty() { "-".to_string() } else { ops.iter().map(show_real_tx).collect::<Vec<_>>().join(",") })
                        }).collect::<Vec<_>>().join(";") }
                    );
                    let model = m.ask(&line);
                    let model = model.split(" ndirs=").next().unwrap_or("").to_string();
                    if model != imp {
                        out.disagreements.push((format!("step {i} {} [{line}]", show_vm(st)), imp.clone(), model));
                    }
                }
                // ---- property oracles on the real chain and store
                if broken {
                    continue;
                }
                let fail_ops = |wss: &BTreeMap<usize, (Arc<TransactionWorkspace>, u64, u8)>| -> Vec<(usize, Transaction)> {
                    wss.iter().filter(|(_, v)| v.0.state() == TransactionState::Failed).flat_map(|(k, v)| v.0.operations().into_iter().map(move |o| (*k, o))).collect()
                };
                match &r {
                    Ok(_) if !(own_ops.is_empty() && states_before[w] == TransactionState::Active) => {
                        out.nontrivial = true;
                        expect_height += 1;
                        let mut want: Vec<Transaction> = own_ops.clone();
                        for k in &merged {
                            want.extend(wss[k].0.operations());
                        }
                        for t in &want {
                            apply_to_image(&mut expect_data, t);
                        }
                        let have = read_block(&store, h).map(|b| b.transactions).unwrap_or_default();
                        let mut surplus = have.clone();
                        for t in &want {
                            if let Some(p) = surplus.iter().position(|x| x == t) {
                                surplus.remove(p);
                            } else {
                                broken = true;
                                out.violations.push(("tensor_chain.commit/committed_op_not_in_block".into(), format!("step {i} ({}): operation {} of a workspace that became Committed is not in block {h}", show_vm(st), show_real_tx(t))));
                            }
                        }
                        if !surplus.is_empty() {
                            broken = true;
                            let fo = fail_ops(&wss);
                            let owners: Vec<String> = surplus.iter().map(|t| fo.iter().find(|(_, o)| o == t).map_or_else(|| format!("{} (of no Failed workspace)", show_real_tx(t)), |(k, _)| format!("{} (of ws{k}, state Failed)", show_real_tx(t)))).collect();
                            let class = if surplus.iter().all(|t| fo.iter().any(|(_, o)| o == t)) { VM_FAILED_CLASS } else { "tensor_chain.commit/block_not_committed_workspaces" };
                            out.violations.push((class.into(), format!("step {i} ({}): block {h} holds operations of no workspace that became Committed: {}", show_vm(st), owners.join(", "))));
                        }
                        if h != expect_height {
                            broken = true;
                            out.violations.push(("tensor_chain.commit/not_one_new_block".into(), format!("step {i} ({}): height {h}, want {expect_height}", show_vm(st))));
                        }
                    }
                    Ok(_) => {}
                    Err(e) => {
                        let after = chain_snap(&tc, &store);
                        if after != before {
                            broken = true;
                            out.violations.push(("tensor_chain.commit/failed_commit_changed_state".into(), format!("step {i} ({}): commit = {e}; {}", show_vm(st), snap_diff(&before, &after).join("; "))));
                        }
                    }
                }
                let img = data_image(&store);
                if !broken && img != expect_data {
                    broken = true;
                    let fo = fail_ops(&wss);
                    let diff: Vec<u64> = img.keys().chain(expect_data.keys()).filter(|k| img.get(*k) != expect_data.get(*k)).copied().collect::<BTreeSet<_>>().into_iter().collect();
                    let by_failed = diff.iter().all(|k| fo.iter().any(|(_, o)| *o.affected_key() == format!("d{k}")));
                    let class = if by_failed { VM_FAILED_CLASS } else { "tensor_chain.commit/merge_commit_not_atomic" };
                    out.violations.push((class.into(), format!("step {i} ({}): the store is not the replay of the Committed workspaces: data={} want {}; differing keys {:?}{}", show_vm(st), show_image(&img), show_image(&expect_data), diff, if by_failed { " are all written by workspaces in state Failed" } else { "" })));
                }
                if !broken {
                    let ver = tc.verify();
                    if ver.is_err() {
                        broken = true;
                        out.violations.push(("tensor_chain.commit/chain_does_not_verify".into(), format!("step {i} ({}): verify() = {}", show_vm(st), vres(ver))));
                    }
                }
            }
        }
    }
    // end of case: no operation of a workspace that ended Failed is in ANY block, beyond what Committed ones account for
    if !broken {
        let mut have: BTreeMap<String, i64> = BTreeMap::new();
        for h in 0..=tc.height() {
            if let Some(b) = read_block(&store, h) {
                for t in &b.transactions {
                    *have.entry(show_real_tx(t)).or_default() += 1;
                }
            }
        }
        let mut want: BTreeMap<String, i64> = BTreeMap::new();
        for (x, _, _) in wss.values().filter(|v| v.0.state() == TransactionState::Committed) {
            for o in x.operations() {
                *want.entry(show_real_tx(&o)).or_default() += 1;
            }
        }
        for (k, (x, _, _)) in wss.iter().filter(|(_, v)| v.0.state() == TransactionState::Failed) {
            for o in x.operations() {
                let t = show_real_tx(&o);
                if have.get(&t).copied().unwrap_or(0) > want.get(&t).copied().unwrap_or(0) {
                    out.violations.push((VM_FAILED_CLASS.into(), format!("end of case: operation {t} of ws{k} (state Failed) is in the chain's blocks")));
                    return out;
                }
            }
        }
    }
    out
}
/// a random case of the shape the validator matters for: 2-5 workspaces on pairwise different axes (sometimes a zero
/// delta), big and small deltas, own keys per workspace plus shared keys a second workspace deletes / overwrites
fn gen_vm_case(r: &mut Rng) -> (String, bool, Vec<VmStep>) {
    let validator = *r.pick(&["strict", "strict", "reject_big", "reject_big", "accept_all", "empty"]);
    let auto_merge = !r.chance(1, 8);
    let n = 2 + r.below(4) as usize;
    let mut steps = Vec::new();
    let mut val = 1u64;
    let first = r.below(n as u64) as usize;
    for w in 0..n {
        let d = if r.chance(1, 8) { 0 } else { w as u64 + 1 };
        steps.push(VmStep::Begin(w, d, if w == first { 1 } else if r.chance(1, 2) { 2 } else { 0 }));
    }
    // shared keys 1..=3: written by the first committer, touched by at most one other workspace each
    let mut other: Vec<usize> = (0..n).filter(|w| *w != first).collect();
    for k in 1..=3u64 {
        if r.chance(2, 3) {
            steps.push(VmStep::Add(first, Tx::Put(k, val)));
            val += 1;
            if !other.is_empty() && r.chance(2, 3) {
                let o = other.remove(r.below(other.len() as u64) as usize);
                steps.push(VmStep::Add(o, match r.below(3) { 0 => Tx::Del(k), 1 => Tx::Cas(k, Some(val - 1), val), _ => Tx::Put(k, val) }));
                val += 1;
            }
        }
    }
    for w in 0..n {
        for _ in 0..(if w == first { 1 } else { r.below(3) } + u64::from(r.chance(3, 4))) {
            let k = 10 * (w as u64 + 1) + r.below(2);
            steps.push(VmStep::Add(w, match r.below(6) { 0 => Tx::Del(k), 1 => Tx::Cas(k, None, val), _ => Tx::Put(k, val) }));
            val += 1;
        }
    }
    steps.push(VmStep::Commit(first));
    // then the others, in a random order (Failed ones must be refused and change nothing; Active ones commit / merge)
    let mut rest: Vec<usize> = (0..n).filter(|w| *w != first).collect();
    while !rest.is_empty() {
        let w = rest.remove(r.below(rest.len() as u64) as usize);
        if r.chance(3, 4) {
            steps.push(VmStep::Commit(w));
        }
    }
    (validator.to_string(), auto_merge, steps)
}
/// the minimal history the validator's rejection matters for, and its neighbours
fn vm_directed() -> Vec<(&'static str, &'static str, bool, Vec<VmStep>)> {
    use VmStep::*;
    let two = |big: u8| vec![Begin(0, 1, 1), Add(0, Tx::Put(1, 1)), Begin(1, 2, big), Add(1, Tx::Put(2, 2)), Add(1, Tx::Del(1)), Commit(0), Commit(1)];
    let three = vec![
        Begin(0, 1, 1), Add(0, Tx::Put(1, 1)), Add(0, Tx::Put(2, 2)),
        Begin(1, 2, 2), Add(1, Tx::Put(21, 3)), Add(1, Tx::Del(1)),
        Begin(2, 3, 0), Add(2, Tx::Put(31, 4)), Add(2, Tx::Cas(2, Some(2), 5)),
        Begin(3, 0, 2), Add(3, Tx::Put(41, 6)),
        Commit(0), Commit(1), Commit(2), Commit(3),
    ];
    let mut v = vec![
        ("rejected candidate: unit deltas, the configuration of the repo's test", "strict", true, two(1)),
        ("rejected candidate (strict validator, big delta)", "strict", true, two(2)),
        ("rejected candidate (magnitude limit)", "reject_big", true, two(2)),
        ("accepted candidate, strict validator", "strict", true, two(0)),
        ("accepted candidate, magnitude limit", "reject_big", true, two(0)),
        ("big candidate, accepting validator", "accept_all", true, two(2)),
        ("big candidate, empty codebook", "empty", true, two(2)),
        ("big candidate, auto-merge off", "strict", false, two(2)),
    ];
    for val in ["strict", "reject_big", "accept_all", "empty"] {
        v.push(("rejected, accepted and zero-delta workspaces in one commit", val, true, three.clone()));
    }
    v
}

// ------------------------------------------------------------------ stream L: sequential commits that fail LATE
//
// `TensorChain::commit` can fail after the workspace's operations were applied to the store: `Chain::append`
// rejects the block it has just built.  Without a second thread this is reachable through the public API by removing
// the node's own key from the validator registry (`validator_registry().remove(node_id)`): at height >= 1 `append`
// answers "unknown proposer".  (The other late exits of `commit` are not reachable sequentially: `TensorStore::put`
// and `compute_state_root` do not fail on an in-memory store, `new_block()` reads height/tip right before `append`,
// and a node id is derived from its key, so no other key can be registered under it.)
// Oracle, evaluated on the implementation alone around EVERY commit that returns an error: height, tip hash, every
// block 0..=height, the state root and the canonical dump of ALL keys and values of the store are what they were
// immediately before the call; `verify()` succeeds once the key is registered again.

#[derive(Clone, Debug)]
enum LOp {
    Begin(u64),
    Put(usize, u64, u64),
    Del(usize, u64),
    Cas(usize, u64, Option<u64>, u64),
    Commit(usize),
    Rollback(usize),
    Unreg,
    Rereg,
    State,
}
fn show_lop(o: &LOp) -> String {
    match o {
        LOp::Begin(d) => format!("begin dir={d}"),
        LOp::Put(w, k, v) => format!("put {w} {k} {v}"),
        LOp::Del(w, k) => format!("del {w} {k}"),
        LOp::Cas(w, k, e, v) => format!("cas {w} {k} {} {v}", e.map_or("-".to_string(), |e| e.to_string())),
        LOp::Commit(w) => format!("commit {w}"),
        LOp::Rollback(w) => format!("rollback {w}"),
        LOp::Unreg => "unregister own key".into(),
        LOp::Rereg => "register own key".into(),
        LOp::State => "state".into(),
    }
}
fn lops_well_formed(ops: &[LOp]) -> bool {
    let mut n = 0usize;
    for o in ops {
        match o {
            LOp::Begin(_) => n += 1,
            LOp::Put(w, ..) | LOp::Del(w, _) | LOp::Cas(w, ..) | LOp::Commit(w) | LOp::Rollback(w) => {
                if *w >= n {
                    return false;
                }
            }
            _ => {}
        }
    }
    true
}

type Dump = BTreeMap<String, Vec<(String, Vec<u8>)>>;
/// every key of the store with its fields in canonical (sorted, serialized) form
fn store_dump(s: &TensorStore) -> Dump {
    let mut out = Dump::new();
    for k in s.scan("") {
        let v = match s.get(&k) {
            Ok(td) => {
                let mut f: Vec<(String, Vec<u8>)> = td.keys().map(|fk| (fk.clone(), bitcode::serialize(td.get(fk).unwrap()).unwrap_or_default())).collect();
                f.sort();
                f
            }
            Err(_) => vec![("<scanned but unreadable>".to_string(), vec![])],
        };
        out.insert(k, v);
    }
    out
}

/// everything the property speaks about: chain head, every block through the public getter, the whole store
#[derive(PartialEq)]
struct ChainSnap {
    height: u64,
    tip: [u8; 32],
    blocks: Vec<Result<Option<Vec<u8>>, String>>,
    root: Result<[u8; 32], String>,
    dump: Dump,
}
fn chain_snap(tc: &TensorChain, store: &TensorStore) -> ChainSnap {
    let height = tc.height();
    ChainSnap {
        height,
        tip: tc.tip_hash(),
        blocks: (0..=height).map(|h| tc.get_block(h).map(|b| b.map(|b| bitcode::serialize(&b).unwrap_or_default())).map_err(|e| e.to_string())).collect(),
        root: compute_state_root(store).map_err(|e| e.to_string()),
        dump: store_dump(store),
    }
}
fn snap_diff(a: &ChainSnap, b: &ChainSnap) -> Vec<String> {
    let mut out = Vec::new();
    if a.height != b.height {
        out.push(format!("height {} -> {}", a.height, b.height));
    }
    if a.tip != b.tip {
        out.push(format!("tip hash {} -> {}", hex(&a.tip[..6]), hex(&b.tip[..6])));
    }
    let show = |x: Option<&Result<Option<Vec<u8>>, String>>| match x {
        None => "beyond height".to_string(),
        Some(Ok(Some(_))) => "present".to_string(),
        Some(Ok(None)) => "MISSING".to_string(),
        Some(Err(e)) => format!("error {e}"),
    };
    for h in 0..a.blocks.len().max(b.blocks.len()) {
        if a.blocks.get(h) != b.blocks.get(h) {
            out.push(format!("get_block({h}): {} -> {}", show(a.blocks.get(h)), if a.blocks.get(h).is_some() && b.blocks.get(h).is_some() && show(a.blocks.get(h)) == show(b.blocks.get(h)) { "different content".to_string() } else { show(b.blocks.get(h)) }));
        }
    }
    if a.root != b.root {
        out.push("state root differs".into());
    }
    let keys: BTreeSet<&String> = a.dump.keys().chain(b.dump.keys()).collect();
    for k in keys {
        match (a.dump.get(k), b.dump.get(k)) {
            (Some(x), Some(y)) if x == y => {}
            (Some(_), Some(_)) => out.push(format!("store key {k}: value changed")),
            (Some(_), None) => out.push(format!("store key {k}: GONE")),
            (None, Some(_)) => out.push(format!("store key {k}: NEW")),
            (None, None) => {}
        }
    }
    out
}

/// the records under the chain's own prefix that differ between two dumps of the store
fn chain_record_changes(a: &Dump, b: &Dump) -> Vec<String> {
    let keys: BTreeSet<&String> = a.keys().chain(b.keys()).filter(|k| k.starts_with("chain:")).collect();
    keys.into_iter()
        .filter_map(|k| match (a.get(k), b.get(k)) {
            (Some(x), Some(y)) if x == y => None,
            (Some(_), Some(_)) => Some(format!("{k} changed")),
            (Some(_), None) => Some(format!("{k} GONE")),
            (None, Some(_)) => Some(format!("{k} NEW")),
            (None, None) => None,
        })
        .collect()
}

struct LfFail {
    kind: String,
    k: u64,
    nops: usize,
}
struct LfOutcome {
    disagreements: Vec<(String, String, String)>,
    violations: Vec<(String, String, Value)>,
    fails: Vec<LfFail>,
    hits: Vec<String>,
    commits_ok: u64,
}

/// `verify()` with the node's own key registered (temporarily, if the history has removed it)
fn verify_registered(tc: &TensorChain) -> String {
    let me = tc.node_id().clone();
    let had = tc.validator_registry().contains(&me);
    if !had {
        tc.register_validator(tc.identity());
    }
    let v = vres(tc.verify());
    if !had {
        let _ = tc.validator_registry().remove(&me);
    }
    v
}

/// Run one history on a fresh real `TensorChain` and on the model; the failed-commit oracle runs around every commit.
fn run_late_case(m: &mut Model, ops: &[LOp], max_txs: usize, auto_merge: bool) -> LfOutcome {
    let mut out = LfOutcome { disagreements: vec![], violations: vec![], fails: vec![], hits: vec![], commits_ok: 0 };
    let store = TensorStore::new();
    let mut cfg = ChainConfig::new("n").with_max_txs(max_txs);
    cfg.auto_merge = AutoMergeConfig { enabled: auto_merge, orthogonal_threshold: 0.1, max_merge_batch: 10, merge_window_ms: u64::MAX / 4 };
    let tc = TensorChain::with_config(store.clone(), cfg);
    tc.initialize().unwrap();
    m.ask(&format!("init {max_txs} {} 10 0", u8::from(auto_merge)));
    let me = tc.node_id().clone();
    let mut wss: Vec<Arc<TransactionWorkspace>> = Vec::new();
    let mut begin_height: Vec<u64> = Vec::new();
    let mut ts = 1u64;
    for (i, op) in ops.iter().enumerate() {
        let (imp, model, tag): (String, String, &str) = match op {
            LOp::Begin(d) => {
                let w = tc.begin().unwrap();
                w.set_before_embedding(&vec![0.0; DIM]);
                w.compute_delta(&unit(*d));
                wss.push(w);
                begin_height.push(tc.height());
                let a = m.ask("begin");
                let id = wss.len() - 1;
                m.ask(&format!("dir {id} {d}"));
                (format!("ws {id}"), a, "begin")
            }
            LOp::Put(w, k, v) => {
                let r = wss[*w].add_operation(Tx::Put(*k, *v).real());
                (r.map_or_else(|e| verr(&e), |()| "ok".into()), m.ask(&format!("put {w} {k} {v}")), "put")
            }
            LOp::Del(w, k) => {
                let r = wss[*w].add_operation(Tx::Del(*k).real());
                (r.map_or_else(|e| verr(&e), |()| "ok".into()), m.ask(&format!("del {w} {k}")), "del")
            }
            LOp::Cas(w, k, e, v) => {
                let r = wss[*w].add_operation(Tx::Cas(*k, *e, *v).real());
                (r.map_or_else(|e| verr(&e), |()| "ok".into()), m.ask(&show_lop(op)), "cas")
            }
            LOp::Commit(w) => {
                let nops = wss[*w].operation_count();
                let was_active = wss[*w].is_active();
                let states_before: Vec<TransactionState> = wss.iter().map(|x| x.state()).collect();
                let verify_before = verify_registered(&tc);
                let before = chain_snap(&tc, &store);
                let r = tc.commit(&wss[*w]);
                ts += 1;
                let imp = match &r {
                    Ok(_) if nops == 0 && was_active => "empty".to_string(),
                    Ok(_) => {
                        let h = tc.height();
                        let txs = read_block(&store, h).map(|b| b.transactions.iter().map(show_real_tx).collect::<Vec<_>>()).unwrap_or_default();
                        out.commits_ok += 1;
                        format!("ok h={h} txs={}", show_list(txs, true))
                    }
                    Err(e) => {
                        let after = chain_snap(&tc, &store);
                        let mut diff = snap_diff(&before, &after);
                        // the failed workspace's writes must be absent (implied by the dump; said explicitly)
                        for o in wss[*w].operations() {
                            if let Transaction::Put { key, .. } | Transaction::Delete { key } | Transaction::CompareAndSwap { key, .. } = &o {
                                if before.dump.get(key) != after.dump.get(key) {
                                    diff.push(format!("operation of the failed workspace visible in the store: {}", show_real_tx(&o)));
                                }
                            }
                        }
                        let verify_after = verify_registered(&tc);
                        let merged = wss.iter().enumerate().filter(|(j, x)| j != w && states_before[*j] == TransactionState::Active && x.state() == TransactionState::Failed).count();
                        let es = verr(e);
                        let kind = match es.as_str() {
                            "err bad_sig" if merged > 0 => "late_unknown_proposer_merged".to_string(),
                            "err bad_sig" => "late_unknown_proposer".to_string(),
                            "err too_many" => "early_too_many".to_string(),
                            "err conflict" => "early_conflict".to_string(),
                            "err not_active" => "early_not_active".to_string(),
                            // collapsed tokens, by variant: ValidationFailed comes from Chain::append (late),
                            // TransactionFailed from the checks before the block is built (early)
                            VAL_COLLAPSED => "late_validation_unclassified".to_string(),
                            TXF_COLLAPSED => "early_txfail_unclassified".to_string(),
                            o => format!("other_{}", o.replace(' ', "_")),
                        };
                        let k = tc.height().saturating_sub(begin_height[*w]);
                        if !diff.is_empty() || (verify_before == "ok" && verify_after != "ok") {
                            diff.dedup();
                            let total = diff.len();
                            diff.truncate(16);
                            out.violations.push((
                                "tensor_chain.commit/failed_commit_not_atomic".into(),
                                format!(
                                    "sequential history: commit of workspace {w} returned an error ({es}, {kind}) after {k} other commit(s) since its begin, and chain/store are not what they were immediately before the call: {}",
                                    diff.first().cloned().unwrap_or_else(|| format!("verify() with the key registered: {verify_before} -> {verify_after}"))
                                ),
                                json!({"failed_commit_at_op": i, "workspace": w, "error": e.to_string(), "failure_kind": kind, "commits_since_its_begin": k, "workspace_ops": nops,
                                    "merged_workspaces_failed_with_it": merged, "differences_before_vs_after": diff, "differences_total": total,
                                    "height_before": before.height, "height_after": after.height, "verify_before_key_registered": verify_before, "verify_after_key_registered": verify_after}),
                            ));
                        }
                        out.fails.push(LfFail { kind, k, nops });
                        es
                    }
                };
                let model = m.ask(&format!("commit {w} {ts}"));
                let model = model.split(" merged=").next().unwrap_or("").replace("append_", "");
                (imp, model, "commit")
            }
            LOp::Rollback(w) => {
                let r = tc.rollback(&wss[*w]);
                (r.map_or_else(|e| verr(&e), |()| "ok".into()), m.ask(&format!("rollback {w}")), "rollback")
            }
            LOp::Unreg => {
                let r = tc.validator_registry().remove(&me);
                ((if r.is_some() { "removed" } else { "absent" }).to_string(), m.ask("unreg"), "unreg")
            }
            LOp::Rereg => {
                tc.register_validator(tc.identity());
                ("ok".to_string(), m.ask("rereg"), "rereg")
            }
            LOp::State => (state_line(&tc, &store), m.ask("state"), "state"),
        };
        out.hits.push(format!("late_fail.{tag}.{}", imp.split(' ').take(2).collect::<Vec<_>>().join("_").replace(|c: char| c.is_ascii_digit() || c == '=', "")));
        let (imp_c, model_c) = reconcile(&imp, &model);
        if imp_c != model_c {
            out.disagreements.push((format!("op {i} {}", show_lop(op)), imp, model));
        }
    }
    out
}

struct LateCase {
    ops: Vec<LOp>,
    max_txs: usize,
    auto_merge: bool,
    plan: String,
}

/// One history of the shape: `prefix` committed blocks; maybe a workspace begun and rolled back at once; workspace L
/// begins and gets operations; `k` OTHER workspaces (one of them possibly begun before L) get operations and commit,
/// L possibly getting more operations in between; maybe a further workspace M stays pending; L's commit is made to
/// fail (`kind`); then the key is registered again, a fresh workspace commits, M commits.
fn gen_late_case(r: &mut Rng, kind: &str, k: u64, prefix: u64) -> LateCase {
    let late = kind.starts_with("late");
    let prefix = if late && prefix + k == 0 { 1 } else if kind == "unreg_height0" { 0 } else { prefix };
    let k = if kind == "unreg_height0" { 0 } else { k };
    let auto_merge = kind == "late_merged" || r.chance(1, 3);
    let max_txs = if kind == "early_too_many" { 3 } else { 1000 };
    let mut ops: Vec<LOp> = Vec::new();
    let mut nws = 0usize;
    let mut val = 1u64;
    let mut begin = |ops: &mut Vec<LOp>, d: u64| -> usize {
        ops.push(LOp::Begin(d));
        nws += 1;
        nws - 1
    };
    let mut last_put: BTreeMap<u64, u64> = BTreeMap::new();
    let mut write = |ops: &mut Vec<LOp>, r: &mut Rng, w: usize, key: u64| {
        match r.below(10) {
            0 | 1 => ops.push(LOp::Del(w, key)),
            2 | 3 => {
                // compare-and-swap: expecting the last value written under the key (succeeds if that write is in the
                // store when the operation is applied), nothing, or a value never written
                let e = match r.below(4) {
                    0 => None,
                    1 => Some(9_000_000 + val),
                    _ => last_put.get(&key).copied(),
                };
                ops.push(LOp::Cas(w, key, e, val));
                last_put.insert(key, val);
                val += 1;
            }
            _ => {
                ops.push(LOp::Put(w, key, val));
                last_put.insert(key, val);
                val += 1;
            }
        }
    };
    for _ in 0..prefix {
        let w = begin(&mut ops, 0);
        for _ in 0..1 + r.below(3) {
            let key = r.below(6);
            write(&mut ops, r, w, key);
        }
        ops.push(LOp::Commit(w));
    }
    if r.chance(1, 3) {
        // rolled back before L begins: its checkpoint is the current store
        let w = begin(&mut ops, 0);
        let key = r.below(6);
        write(&mut ops, r, w, key);
        ops.push(LOp::Rollback(w));
    }
    let early_other = if k >= 1 && r.chance(1, 3) {
        let w = begin(&mut ops, 0);
        let key = r.below(6);
        write(&mut ops, r, w, key);
        Some(w)
    } else {
        None
    };
    let ldir = u64::from(kind == "late_merged" || kind == "early_conflict");
    let l = begin(&mut ops, ldir);
    let nl = if kind == "early_too_many" { 4 + r.below(3) } else { 1 + r.below(5) };
    for _ in 0..nl {
        let key = if kind == "early_conflict" { 100 } else if ldir == 1 { 100 + r.below(2) } else { r.below(6) };
        write(&mut ops, r, l, key);
    }
    let mut pending: Option<usize> = None;
    let begin_pending = |ops: &mut Vec<LOp>, r: &mut Rng, begin: &mut dyn FnMut(&mut Vec<LOp>, u64) -> usize, write: &mut dyn FnMut(&mut Vec<LOp>, &mut Rng, usize, u64)| -> Option<usize> {
        match kind {
            "late_merged" => {
                let w = begin(ops, 2);
                for _ in 0..1 + r.below(2) {
                    let key = 200 + r.below(2);
                    write(ops, r, w, key);
                }
                Some(w)
            }
            "early_conflict" => {
                let w = begin(ops, 1);
                ops.push(LOp::Put(w, 101, 7777));
                Some(w)
            }
            _ if r.chance(1, 3) => {
                let w = begin(ops, 0);
                let key = r.below(6);
                write(ops, r, w, key);
                Some(w)
            }
            _ => None,
        }
    };
    let pending_first = r.chance(1, 2);
    if pending_first {
        pending = begin_pending(&mut ops, r, &mut begin, &mut write);
    }
    for j in 0..k {
        let o = match early_other {
            Some(w) if j == 0 => w,
            _ => begin(&mut ops, 0),
        };
        for _ in 0..1 + r.below(3) {
            let key = r.below(6);
            write(&mut ops, r, o, key);
        }
        ops.push(LOp::Commit(o));
        if ldir == 0 && kind != "early_too_many" && r.chance(1, 3) {
            let key = r.below(6);
            write(&mut ops, r, l, key);
        }
    }
    if !pending_first {
        pending = begin_pending(&mut ops, r, &mut begin, &mut write);
    }
    match kind {
        "late_unknown_proposer" | "late_merged" | "unreg_height0" => {
            ops.push(LOp::Unreg);
            if r.chance(1, 3) {
                ops.push(LOp::State);
            }
            ops.push(LOp::Commit(l));
            if r.chance(1, 3) {
                ops.push(LOp::State);
            }
            ops.push(LOp::Rereg);
        }
        "early_not_active" => {
            ops.push(LOp::Commit(l));
            ops.push(LOp::Commit(l));
        }
        _ => ops.push(LOp::Commit(l)),
    }
    ops.push(LOp::State);
    let n = begin(&mut ops, 0);
    let key = r.below(6);
    write(&mut ops, r, n, key);
    ops.push(LOp::Commit(n));
    if let Some(p) = pending {
        ops.push(LOp::Commit(p));
    }
    ops.push(LOp::State);
    LateCase { ops, max_txs, auto_merge, plan: format!("{kind} k={k} prefix={prefix}") }
}

// ------------------------------------------------------------------ stream B: raw chain, tamper

struct RawChain {
    store: TensorStore,
    chain: Arc<Chain>,
    ids: Vec<Identity>, // [0] unused, [1],[2] registered validators, [3] unregistered
    base_ts: u64,
    reg: Option<Arc<ValidatorRegistry>>,
}
impl RawChain {
    /// restart: a NEW `Chain` object over the same store (same validator keys) + `initialize()`
    fn reopen(&mut self) -> Result<(), ChainError> {
        let graph = Arc::new(GraphEngine::with_store(self.store.clone()));
        self.chain = Arc::new(match &self.reg {
            Some(reg) => Chain::with_registry(graph, self.ids[1].node_id(), reg.clone()),
            None => Chain::new(graph, self.ids[1].node_id()),
        });
        self.chain.initialize()
    }
    /// the process stops and comes back over the store contents `image` (a `snapshot_bytes` of the old store)
    fn restart_over(&mut self, image: &[u8]) -> Result<(), ChainError> {
        self.store = TensorStore::new();
        self.store.restore_from_bytes(image).unwrap();
        self.reopen()
    }
    fn state(&self) -> String {
        format!(
            "h={} verify={} blocks={} data={} meta={}",
            self.chain.height(),
            vres(self.chain.verify_chain()),
            show_heights(&blocks_present(&self.store)),
            show_image(&data_image(&self.store)),
            meta_height(&self.store)
        )
    }
}
fn new_raw(with_reg: bool) -> RawChain {
    let store = TensorStore::new();
    let graph = Arc::new(GraphEngine::with_store(store.clone()));
    let ids: Vec<Identity> = (0..4).map(|_| Identity::generate()).collect();
    let reg = Arc::new(ValidatorRegistry::new());
    reg.register(&ids[1]);
    reg.register(&ids[2]);
    let chain = Arc::new(if with_reg { Chain::with_registry(graph, ids[1].node_id(), reg.clone()) } else { Chain::new(graph, ids[1].node_id()) });
    chain.initialize().unwrap();
    let base_ts = read_block(&store, 0).unwrap().header.timestamp;
    RawChain { store, chain, ids, base_ts, reg: if with_reg { Some(reg) } else { None } }
}
fn flip(h: &mut [u8; 32]) {
    h[5] ^= 0x10;
}
#[allow(clippy::too_many_arguments)]
fn mk_block(rc: &RawChain, hsel: &str, prev: &str, root: &str, sig: &str, ts_off: u64, prop: usize, txs: &[Tx]) -> Block {
    mk_block_on(&rc.chain, &rc.ids, rc.base_ts, [0u8; 32], hsel, prev, root, sig, ts_off, prop, txs)
}
/// a block on top of `chain`'s current head, each check of `Chain::append` individually satisfiable or not
#[allow(clippy::too_many_arguments)]
fn mk_block_on(chain: &Chain, ids: &[Identity], base_ts: u64, state_root: [u8; 32], hsel: &str, prev: &str, root: &str, sig: &str, ts_off: u64, prop: usize, txs: &[Tx]) -> Block {
    mk_block_emb(chain, ids, base_ts, state_root, hsel, prev, root, sig, ts_off, prop, txs, SparseVector::new(0))
}
/// the same with a delta embedding in the header (covered by the signature)
#[allow(clippy::too_many_arguments)]
fn mk_block_emb(chain: &Chain, ids: &[Identity], base_ts: u64, state_root: [u8; 32], hsel: &str, prev: &str, root: &str, sig: &str, ts_off: u64, prop: usize, txs: &[Tx], emb: SparseVector) -> Block {
    struct R<'a> {
        chain: &'a Chain,
        ids: &'a [Identity],
        base_ts: u64,
    }
    let rc = R { chain, ids, base_ts };
    let height = match hsel {
        "same" => rc.chain.height(),
        "skip" => rc.chain.height() + 2,
        _ => rc.chain.height() + 1,
    };
    let mut prev_hash = rc.chain.tip_hash();
    if prev == "bad" {
        flip(&mut prev_hash);
    }
    let mut b = Block::new(
        BlockHeader { height, prev_hash, tx_root: [0u8; 32], state_root, delta_embedding: emb, quantized_codes: vec![], timestamp: rc.base_ts - 1000 + ts_off, proposer: rc.ids[prop].node_id(), signature: vec![] },
        txs.iter().map(Tx::real).collect(),
    );
    match root {
        "zero" => {}
        "bad" => {
            b.header.tx_root = b.compute_tx_root();
            flip(&mut b.header.tx_root);
        }
        _ => b.header.tx_root = b.compute_tx_root(),
    }
    let bytes = b.header.signing_bytes();
    b.header.signature = match sig {
        "none" => vec![],
        "bad" => {
            let mut s = rc.ids[prop].sign(&bytes);
            s[3] ^= 1;
            s
        }
        "wrongkey" => rc.ids[3].sign(&bytes),
        _ => rc.ids[prop].sign(&bytes),
    };
    b
}

/// One store state a process can leave behind when it stops inside an operation: the contents of the store right
/// before the store call `before` of that operation (or after its last one: `before` = "return").
struct CrashPoint {
    before: String,
    image: Vec<u8>,
    dump: Dump,
}
/// Run `task` as ONE real thread that parks at the entry of every store call it makes (the `yield_point` hook of
/// /repo), and record the store contents at every parking point and at the end.  Consecutive equal contents are
/// kept once, so the result is: the store before the operation, after its first store write, after its second, …,
/// after its last — every prefix of the operation's store writes, whatever they are.
fn crash_points(store: &TensorStore, task: Box<dyn FnOnce() + Send + 'static>) -> Vec<CrashPoint> {
    let pts: Arc<Mutex<Vec<CrashPoint>>> = Arc::new(Mutex::new(Vec::new()));
    let record = |pts: &Arc<Mutex<Vec<CrashPoint>>>, s: &TensorStore, before: String| {
        let dump = store_dump(s);
        let mut p = pts.lock().unwrap();
        if p.last().is_none_or(|l| l.dump != dump) {
            p.push(CrashPoint { before, image: s.snapshot_bytes().unwrap(), dump });
        }
    };
    let (s2, p2) = (store.clone(), pts.clone());
    run_threads(vec![task], move |_, parked| {
        let (_, site, key) = &parked[0];
        // the entry of a `TensorStore` call: no store lock is held by the parked thread
        if site.starts_with("store.") || *site == "thread.start" {
            record(&p2, &s2, format!("{site} {key}"));
        }
        0
    });
    record(&pts, store, "return".to_string());
    Arc::try_unwrap(pts).map(|m| m.into_inner().unwrap()).unwrap_or_default()
}
/// the keys in which two dumps of a store differ
fn dump_changes(a: &Dump, b: &Dump) -> Vec<String> {
    let keys: BTreeSet<&String> = a.keys().chain(b.keys()).collect();
    keys.into_iter()
        .filter_map(|k| match (a.get(k), b.get(k)) {
            (Some(x), Some(y)) if x == y => None,
            (Some(_), Some(_)) => Some(format!("{k} rewritten")),
            (Some(_), None) => Some(format!("{k} deleted")),
            (None, Some(_)) => Some(format!("{k} new")),
            (None, None) => None,
        })
        .collect()
}

const MUTATIONS: &[(&str, &str)] = &[
    ("height", "inc"),
    ("height", "dec"),
    ("prev_hash", "flip"),
    ("tx_root", "flip"),
    ("state_root", "flip"),
    ("delta_embedding", "alter"),
    ("quantized_codes", "push"),
    ("timestamp", "inc"),
    ("timestamp", "dec"),
    ("proposer", "other"),
    ("proposer", "unknown"),
    ("signature", "alter"),
    ("signature", "clear"),
    ("transactions", "dup_last"),
    ("transactions", "drop_last"),
    ("transactions", "alter_first"),
    ("transactions", "alter_last"),
    ("transactions", "push_new"),
    ("transactions", "swap_first_two"),
    ("signatures", "push"),
];

/// Apply the symbolic mutation to a real block; None = not applicable (mirrors `tamperBlock`).
fn mutate_block(rc: &RawChain, b: &Block, field: &str, variant: &str) -> Option<Block> {
    let mut n = b.clone();
    let h = &mut n.header;
    match (field, variant) {
        ("height", "inc") => h.height += 1,
        ("height", "dec") => h.height = h.height.saturating_sub(1),
        ("prev_hash", _) => flip(&mut h.prev_hash),
        ("tx_root", _) => flip(&mut h.tx_root),
        ("state_root", _) => flip(&mut h.state_root),
        ("delta_embedding", _) => h.delta_embedding = SparseVector::from_dense(&[0.0, 1.0, 0.0, 2.0]),
        ("quantized_codes", _) => h.quantized_codes.push(7),
        ("timestamp", "inc") => h.timestamp += 1,
        ("timestamp", "dec") => h.timestamp = h.timestamp.saturating_sub(1),
        ("proposer", "other") => h.proposer = if h.proposer == rc.ids[2].node_id() { rc.ids[1].node_id() } else { rc.ids[2].node_id() },
        ("proposer", "unknown") => h.proposer = rc.ids[3].node_id(),
        ("signature", "alter") => {
            if h.signature.is_empty() {
                h.signature.push(1);
            } else {
                h.signature[0] ^= 1;
            }
        }
        ("signature", "clear") => h.signature.clear(),
        ("transactions", "dup_last") => {
            let t = n.transactions.last()?.clone();
            n.transactions.push(t);
        }
        ("transactions", "drop_last") => {
            n.transactions.pop()?;
        }
        ("transactions", "alter_first" | "alter_last") => {
            let t = if variant == "alter_first" { n.transactions.first_mut()? } else { n.transactions.last_mut()? };
            *t = match t {
                Transaction::Put { key, data } => {
                    let mut a = [0u8; 8];
                    a.copy_from_slice(&data[..8]);
                    Transaction::Put { key: key.clone(), data: (u64::from_le_bytes(a) + 1).to_le_bytes().to_vec() }
                }
                Transaction::Delete { key } => Transaction::Put { key: key.clone(), data: 1u64.to_le_bytes().to_vec() },
                Transaction::CompareAndSwap { key, expected_data, new_data } => {
                    Transaction::CompareAndSwap { key: key.clone(), expected_data: expected_data.clone(), new_data: (le8(new_data) + 1).to_le_bytes().to_vec() }
                }
                _ => return None,
            };
        }
        ("transactions", "push_new") => n.transactions.push(Tx::Put(999, 999).real()),
        ("transactions", "swap_first_two") => {
            if n.transactions.len() < 2 || n.transactions[0] == n.transactions[1] {
                return None;
            }
            n.transactions.swap(0, 1);
        }
        ("signatures", _) => n.signatures.push(tensor_chain::ValidatorSignature { validator: "x".into(), signature: vec![1], block_hash: [0u8; 32] }),
        _ => return None,
    }
    if &n == b {
        return None;
    }
    Some(n)
}

fn gen_txs(r: &mut Rng, n: usize, val: &mut u64) -> Vec<Tx> {
    (0..n)
        .map(|_| {
            match r.below(12) {
                0 | 1 => Tx::Del(r.below(6)),
                2 => {
                    *val += 1;
                    Tx::Cas(r.below(6), None, *val)
                }
                3 => {
                    // expects a value written earlier in this chain (the values are 1..=val)
                    *val += 1;
                    Tx::Cas(r.below(6), Some(1 + r.below(*val)), *val)
                }
                _ => {
                    *val += 1;
                    Tx::Put(r.below(6), *val)
                }
            }
        })
        .collect()
}

// ------------------------------------------------------------------ concurrent commits: set-up, oracle, scheduler

type CommitOut = Result<[u8; 32], String>;

struct Conc {
    store: TensorStore,
    tc: Arc<TensorChain>,
    wss: Vec<Arc<TransactionWorkspace>>,
    plan: Vec<Vec<Tx>>,
    genesis_plus: u64,
    params: Value,
}

/// A chain (optionally with one sequentially committed block, "so that there is something to lose") and
/// `nthreads` active workspaces with two puts each, not yet committed.
fn conc_setup(nthreads: usize, auto_merge: bool, conflicting: bool, directional: bool, prefix: bool) -> Conc {
    let store = TensorStore::new();
    let mut cfg = ChainConfig::new("n");
    cfg.auto_merge = AutoMergeConfig { enabled: auto_merge, orthogonal_threshold: 0.1, max_merge_batch: 10, merge_window_ms: u64::MAX / 4 };
    let tc = Arc::new(TensorChain::with_config(store.clone(), cfg));
    tc.initialize().unwrap();
    if prefix {
        let w0 = tc.begin().unwrap();
        w0.add_operation(Tx::Put(50, 5000).real()).unwrap();
        tc.commit(&w0).unwrap();
    }
    let genesis_plus = tc.height();
    let mut wss = Vec::new();
    let mut plan = Vec::new();
    for t in 0..nthreads {
        let w = tc.begin().unwrap();
        let d = if directional { 1 + t as u64 } else { 0 };
        w.set_before_embedding(&vec![0.0; DIM]);
        w.compute_delta(&unit(d));
        let k = if conflicting { 1 } else { 10 + t as u64 };
        let ops = vec![Tx::Put(k, 1000 + t as u64), Tx::Put(20 + t as u64, 2000 + t as u64)];
        for o in &ops {
            w.add_operation(o.real()).unwrap();
        }
        plan.push(ops);
        wss.push(w);
    }
    let params = json!({"threads": nthreads, "auto_merge": auto_merge, "conflicting_keys": conflicting, "directional_deltas": directional, "sequential_prefix_block": prefix});
    Conc { store, tc, wss, plan, genesis_plus, params }
}

fn state_line(tc: &TensorChain, store: &TensorStore) -> String {
    format!("h={} verify={} blocks={} data={}", tc.height(), vres(tc.verify()), show_heights(&blocks_present(store)), show_image(&data_image(store)))
}

/// The property oracle for a finished set of (possibly overlapping) commits, evaluated on the implementation
/// alone: (violated classes, failing-input details, number of Ok results).
fn conc_oracle(c: &Conc, results: &[CommitOut]) -> (Vec<(&'static str, &'static str)>, Value, u64) {
    let oks = results.iter().filter(|x| x.is_ok()).count() as u64;
    let height = c.tc.height();
    let present = blocks_present(&c.store);
    let ver = vres(c.tc.verify());
    let mut chain_txs: Vec<Transaction> = Vec::new();
    let mut replay: BTreeMap<u64, u64> = BTreeMap::new();
    for h in 0..=height {
        if let Some(b) = read_block(&c.store, h) {
            for t in &b.transactions {
                chain_txs.push(t.clone());
                if let Transaction::Put { key, data } = t {
                    let mut a = [0u8; 8];
                    a.copy_from_slice(&data[..8]);
                    replay.insert(key[1..].parse().unwrap(), u64::from_le_bytes(a));
                }
            }
        }
    }
    let img = data_image(&c.store);
    let mut input = c.params.clone();
    let extra = json!({"stream": "concurrent",
        "results": results.iter().map(|x| x.as_ref().map_or_else(|e| e.clone(), |_| "ok".into())).collect::<Vec<_>>(),
        "ws_states": c.wss.iter().map(|w| format!("{:?}", w.state())).collect::<Vec<_>>(),
        "height": height, "blocks_present": present, "verify": ver, "data": show_image(&img), "data_by_chain_replay": show_image(&replay)});
    for (k, v) in extra.as_object().unwrap() {
        input[k] = v.clone();
    }
    let mut vios: Vec<(&'static str, &'static str)> = Vec::new();
    let want: Vec<u64> = (0..=height).collect();
    if ver != "ok" || present != want {
        vios.push(("tensor_chain.commit/concurrent_commit_lost", "after concurrent commits the chain does not verify / a block record below the in-memory height is missing (a losing commit restored a snapshot taken before the winner's append)"));
        // Lean: `concurrent_commits_valid_unless_late_failure` — only the restore step of a commit that failed LATE
        // (Chain::append rejected its block) can break the chain
        // (`err invalid` = a ValidationFailed whose sub-reason the wording no longer tells: TensorChain::commit gets
        // that variant from Chain::append only, so it is a late failure as well)
        let late = |e: &String| e == "err height" || e == "err prev_hash" || e == "err bad_sig" || e == "err unsigned" || e == "err tx_root" || e == VAL_COLLAPSED;
        if !results.iter().any(|x| x.as_ref().err().is_some_and(late)) {
            vios.push(("tensor_chain.commit/concurrent_chain_broken_without_late_failure", "after concurrent commits the chain does not verify although no commit was rejected by Chain::append (no late failure, hence no restore of a pre-apply snapshot)"));
        }
        if height != c.genesis_plus + oks {
            vios.push(("tensor_chain.commit/concurrent_height_mismatch", "height != previous height + number of commits that returned Ok"));
        }
    } else {
        if height != c.genesis_plus + oks {
            vios.push(("tensor_chain.commit/concurrent_height_mismatch", "height != previous height + number of commits that returned Ok"));
        }
        for (t, w) in c.wss.iter().enumerate() {
            let cnt: Vec<usize> = c.plan[t].iter().map(|o| chain_txs.iter().filter(|x| **x == o.real()).count()).collect();
            match w.state() {
                TransactionState::Committed => {
                    if cnt.iter().any(|x| *x != 1) {
                        vios.push(("tensor_chain.commit/concurrent_committed_ops_not_exactly_once", "a committed workspace's operations are not in the chain exactly once"));
                    }
                }
                _ => {
                    if cnt.iter().any(|x| *x != 0) {
                        vios.push(("tensor_chain.commit/concurrent_failed_ops_in_chain", "a failed workspace's operations are in the chain"));
                    }
                }
            }
        }
        if img != replay {
            vios.push(("tensor_chain.commit/concurrent_store_diverges_from_chain", "the store's data image is not the result of replaying the chain's blocks (writes of overlapping commits reach the store in another order than their blocks reach the chain, or a losing commit's restore removed or resurrected writes)"));
        }
    }
    vios.dedup();
    (vios, input, oks)
}

/// Units of one real `commit` as the deterministic scheduler can separate them (`A` = everything up to the first
/// store call: mark_committing, conflict check, snapshot_bytes; `B` = one store.put/delete per operation;
/// `C` = compute_state_root (store.scan "" + one store.get per key), then — without a further store call — block
/// building, signing, taking `append_lock` and `Chain::append`'s checks; `D` = the store writes of `Chain::append`
/// from `chain:block:h` to `chain:meta`, the in-memory height/tip update and the workspace bookkeeping).
/// The model's atomic steps: A = prepare+snapshot, B = apply, C = root+build, D = append (+restore).
const UA: u8 = 0;
const UB: u8 = 1;
const UC: u8 = 2;
const UD: u8 = 3;

fn park_phase(cur: u8, site: &str, key: &str) -> u8 {
    if site == "thread.start" {
        UA
    } else if site == "store.scan" && key.is_empty() && cur < UC {
        UC
    } else if site == "store.put" && key.starts_with("chain:block:") && cur == UC {
        UD
    } else if cur == UA {
        UB
    } else {
        cur
    }
}

fn commit_tasks(c: &Conc, results: &Arc<Mutex<Vec<Option<CommitOut>>>>) -> Vec<Box<dyn FnOnce() + Send + 'static>> {
    c.wss
        .iter()
        .cloned()
        .enumerate()
        .map(|(i, w)| {
            let tc = c.tc.clone();
            let res = results.clone();
            Box::new(move || {
                let r = tc.commit(&w).map_err(|e| verr(&e));
                res.lock().unwrap()[i] = Some(r);
            }) as Box<dyn FnOnce() + Send + 'static>
        })
        .collect()
}

/// Run the commits of `c` as real threads, one store call at a time, following a script of (thread, unit):
/// the named thread is granted while it is parked in a unit <= the named one.
fn run_unit_script(c: &Conc, script: &[(usize, u8)]) -> (Vec<CommitOut>, Vec<Step>) {
    let n = c.wss.len();
    let results: Arc<Mutex<Vec<Option<CommitOut>>>> = Arc::new(Mutex::new(vec![None; n]));
    let tasks = commit_tasks(c, &results);
    let sc = script.to_vec();
    let mut phase = vec![UA; n];
    let mut idx = 0usize;
    let trace = run_threads(tasks, move |_, parked| {
        for (t, site, key) in parked {
            phase[*t] = park_phase(phase[*t], site, key);
        }
        loop {
            match sc.get(idx) {
                None => return 0,
                Some((t, u)) => {
                    if let Some(pos) = parked.iter().position(|p| p.0 == *t) {
                        if phase[*t] <= *u {
                            return pos;
                        }
                    }
                    idx += 1;
                }
            }
        }
    });
    let out = results.lock().unwrap().iter().map(|x| x.clone().unwrap_or_else(|| Err("no result".into()))).collect();
    (out, trace)
}

/// Canonical form of one thread's yield sequence: the store accesses per unit.
fn thread_trace(trace: &[Step], t: usize) -> String {
    let mut ph = UA;
    let mut apply: Vec<String> = Vec::new();
    let mut root = "none".to_string();
    let mut first_block: Option<String> = None;
    let mut last_key: Option<String> = None;
    for s in trace.iter().filter(|s| s.thread == t) {
        let np = park_phase(ph, s.site, &s.key);
        match np {
            UA => {}
            UB => apply.push(format!("{}:{}", match s.site { "store.put" => "put", "store.delete" => "del", "store.get" => "get", o => o }, s.key.trim_start_matches('d'))),
            UC => {
                if ph != UC {
                    root = "scan".into();
                } else if s.site != "store.get" {
                    root = format!("scan+{}", s.site);
                }
            }
            _ => {
                if ph != UD {
                    first_block = Some(s.key["chain:block:".len()..].to_string());
                }
                last_key = Some(s.key.clone());
            }
        }
        ph = np;
    }
    let append = match (first_block, last_key) {
        (Some(b), Some(l)) if l == "chain:meta" => format!("block:{b}..meta"),
        (Some(b), l) => format!("block:{b}..{}", l.unwrap_or_default()),
        _ => "none".into(),
    };
    format!("apply={} root={root} append={append}", show_list(apply, false))
}

/// The model's schedule (thread index per atomic model step) for a unit script.
fn model_schedule(script: &[(usize, u8)]) -> String {
    let mut out: Vec<String> = Vec::new();
    for (t, u) in script {
        let k = match *u {
            UA | UC | UD => 2, // prepare+snapshot, root+build, append+restore
            _ => 1,
        };
        for _ in 0..k {
            out.push(t.to_string());
        }
    }
    out.join(",")
}

/// Random 2-thread unit script that the real code can realise exactly: `append_lock` is taken inside unit C, so
/// once a thread has run C the other thread's D cannot come before the holder's D (its C blocks on the lock).
fn gen_unit_script(r: &mut Rng) -> Vec<(usize, u8)> {
    let mut next = [UA, UA];
    let mut holder: Option<usize> = None;
    let mut out = Vec::new();
    while next[0] <= UD || next[1] <= UD {
        let t = r.below(2) as usize;
        let t = if next[t] > UD { 1 - t } else { t };
        let o = 1 - t;
        let u = next[t];
        if u == UD && holder == Some(o) {
            continue; // blocked on the other thread's append_lock
        }
        if u == UC && holder.is_none() {
            holder = Some(t);
        }
        if u == UD && holder == Some(t) {
            holder = None;
            out.push((t, u));
            next[t] += 1;
            if next[o] == UD {
                // the other thread was waiting for the lock: its append (and restore) follow at once
                out.push((o, UD));
                next[o] += 1;
            }
            continue;
        }
        out.push((t, u));
        next[t] += 1;
    }
    out
}

fn show_script(script: &[(usize, u8)]) -> String {
    script.iter().map(|(t, u)| format!("{t}{}", ["A", "B", "C", "D"][*u as usize])).collect::<Vec<_>>().join(" ")
}

// ------------------------------------------------------------------ stream V helpers: every `Transaction` variant

fn gen_variant(r: &mut Rng, val: &mut u64) -> Transaction {
    *val += 1;
    let v = *val;
    let k = r.below(4);
    match r.below(12) {
        0 | 1 => Transaction::Put { key: format!("d{k}"), data: v.to_le_bytes().to_vec() },
        2 => Transaction::Delete { key: format!("d{k}") },
        3 => Transaction::Embed { key: format!("e{k}"), vector: (0..1 + r.below(4)).map(|i| (v % 7) as f32 + i as f32 * 0.5).collect() },
        4 => Transaction::NodeCreate { key: format!("v{k}"), label: format!("L{}", r.below(2)) },
        5 => Transaction::NodeDelete { key: format!("v{k}") },
        6 => Transaction::EdgeCreate { from: format!("v{k}"), to: format!("v{}", r.below(4)), edge_type: format!("t{}", r.below(2)) },
        7 => Transaction::TableInsert { table: format!("tb{}", r.below(2)), values: v.to_le_bytes().to_vec() },
        8 => Transaction::TableUpdate { table: format!("tb{}", r.below(2)), row_id: r.below(3), values: v.to_le_bytes().to_vec() },
        9 => Transaction::TableDelete { table: format!("tb{}", r.below(2)), row_id: r.below(3) },
        10 => Transaction::CompareAndSwap { key: format!("d{k}"), expected_data: vec![], new_data: v.to_le_bytes().to_vec() },
        _ => Transaction::CompareAndSwap { key: format!("d{k}"), expected_data: (1 + r.below(v)).to_le_bytes().to_vec(), new_data: v.to_le_bytes().to_vec() },
    }
}
/// keys written by transactions (not the chain's own records: `chain:*`, the graph records `Chain::append` creates
/// beside each block — `node:<n>`, `node:<n>:in|out`, `edge:<n>`, `_graph_idx:*`)
fn is_user_key(k: &str) -> bool {
    let numbered = |rest: &str| rest.chars().next().is_some_and(|c| c.is_ascii_digit());
    !(k.starts_with("chain:") || k.starts_with("_graph") || k.strip_prefix("node:").is_some_and(numbered) || k.strip_prefix("edge:").is_some_and(numbered))
}
fn user_dump(s: &TensorStore) -> Dump {
    store_dump(s).into_iter().filter(|(k, _)| is_user_key(k)).collect()
}

// ------------------------------------------------------------------ replicas as OBJECTS: fast path, recent-embedding window

/// two `TensorStateMachine` replicas that held the same state store contents, height and tip were fed the same
/// block and disagree afterwards (acceptance, height, tip, state root or store image)
const DIVERGE_CLASS: &str = "tensor_chain.state_machine.apply_block/replicas_diverge";
/// `apply_block` / `apply_committed` returned Ok for a block whose header state root is not the root of the
/// replica's state store after the call
const WRONG_ROOT_CLASS: &str = "tensor_chain.state_machine.apply_block/block_with_wrong_state_root_accepted";

const FP_DEFECTS: &[&str] = &["sroot_bad", "sroot_stale", "height_same", "height_skip", "prev_bad", "txroot_bad", "sig_none", "sig_bad", "sig_wrongkey"];

#[derive(Clone, Debug, PartialEq)]
enum FpStep {
    /// a block built on replica 0's chain head and state store, fed to EVERY replica; `emb`: None = zero delta
    /// embedding, Some((class, perturbation)) = unit vector of the class axis plus a small component elsewhere
    /// (cosine within a class >= 0.99, across classes <= 0.01)
    Block { emb: Option<(u64, u64)>, defect: &'static str, txs: Vec<Tx>, prop: usize },
    /// the process of replica `i` restarts: a new `TensorStateMachine` (true: `with_threshold(0.0)`) over the same
    /// chain and the same state store
    Restart(usize, bool),
    /// `clear_recent()` on replica `i`
    Clear(usize),
}
fn show_fp(s: &FpStep) -> String {
    match s {
        FpStep::Block { emb, defect, txs, prop } => format!("block emb={} defect={defect} proposer={prop} txs={}", emb.map_or("-".to_string(), |(c, q)| format!("{c}:{q}")), show_txs(txs)),
        FpStep::Restart(i, all) => format!("restart replica {i}{}", if *all { " with_threshold(0.0)" } else { "" }),
        FpStep::Clear(i) => format!("clear_recent replica {i}"),
    }
}
fn fp_embedding(emb: Option<(u64, u64)>) -> SparseVector {
    match emb {
        None => SparseVector::new(0),
        Some((c, q)) => {
            let mut v = vec![0.0f32; 16];
            v[(c % 4) as usize] = 1.0;
            if q > 0 {
                v[4 + (q % 12) as usize] = 0.1;
            }
            SparseVector::from_dense(&v)
        }
    }
}
/// a Raft node that is leader of {itself, "peer"}; the harness plays the peer (acknowledges every entry), so that
/// `propose` + acknowledgement commits an entry and `TensorStateMachine::apply_committed` applies it (`apply_entry`)
fn fp_log_raft() -> Arc<RaftNode> {
    let raft = Arc::new(RaftNode::new("n".to_string(), vec!["peer".to_string()], Arc::new(MemoryTransport::new("n".to_string())), RaftConfig::default()));
    raft.become_leader();
    fp_peer_ack(&raft, 0);
    raft
}
fn fp_peer_ack(raft: &RaftNode, match_index: u64) {
    let _ = raft.handle_message(&"peer".to_string(), &Message::AppendEntriesResponse(AppendEntriesResponse { term: raft.current_term(), success: true, follower_id: "peer".to_string(), match_index, used_fast_path: false }));
}
struct FpOutcome {
    disagreements: Vec<(String, String, String)>,
    violations: Vec<(String, String)>,
    hits: Vec<String>,
    nontrivial: bool,
    trace: Vec<String>,
}
struct FpRep {
    chain: Arc<Chain>,
    chain_store: TensorStore,
    state: TensorStore,
    raft: Arc<RaftNode>,
    sm: TensorStateMachine,
    all: bool,
}
fn fp_sm(chain: &Arc<Chain>, raft: &Arc<RaftNode>, state: &TensorStore, all: bool) -> TensorStateMachine {
    if all { TensorStateMachine::with_threshold(chain.clone(), raft.clone(), state.clone(), 0.0) } else { TensorStateMachine::new(chain.clone(), raft.clone(), state.clone()) }
}
/// compare one line with the model while it is followed; after the first disagreement the case continues on the
/// real objects alone (the oracles never consult the model)
fn fp_cmp(m: &mut Option<&mut Model>, follow: &mut bool, out: &mut FpOutcome, at: &str, imp: &str, line: &str) {
    if !*follow {
        return;
    }
    if let Some(m) = m.as_mut() {
        let ans = m.ask(line);
        let (a, b) = reconcile(imp, &ans);
        if a != b {
            out.disagreements.push((at.to_string(), a, b));
            *follow = false;
        }
    }
}
fn fp_tell(m: &mut Option<&mut Model>, follow: bool, line: &str) {
    if follow {
        if let Some(m) = m.as_mut() {
            m.ask(line);
        }
    }
}
/// `nrep` replicas (separate state stores, one genesis block), every block of `steps` fed to all of them through
/// `apply_block` (or, `log_path`, through each replica's Raft log and `apply_committed`), restarts and
/// `clear_recent()` in between.  Which path `can_fast_path` chooses is read off the real object's public getters
/// before each call (`recent_embedding_count`, `recent_embedding_similarity`, `fast_path_threshold`).
fn run_fp_case(mut m: Option<&mut Model>, nrep: usize, with_reg: bool, log_path: bool, shared_raft: &Arc<RaftNode>, steps: &[FpStep]) -> FpOutcome {
    let mut out = FpOutcome { disagreements: vec![], violations: vec![], hits: vec![], nontrivial: false, trace: vec![] };
    let ids: Vec<Identity> = (0..4).map(|_| Identity::generate()).collect();
    let reg = Arc::new(ValidatorRegistry::new());
    reg.register(&ids[1]);
    reg.register(&ids[2]);
    let mut reps: Vec<FpRep> = Vec::new();
    for i in 0..nrep {
        let chain_store = TensorStore::new();
        if i > 0 {
            for k in ["chain:block:0", "chain:meta"] {
                chain_store.put(k, reps[0].chain_store.get(k).unwrap()).unwrap();
            }
        }
        let graph = Arc::new(GraphEngine::with_store(chain_store.clone()));
        let chain = Arc::new(if with_reg { Chain::with_registry(graph, ids[1].node_id(), reg.clone()) } else { Chain::new(graph, ids[1].node_id()) });
        chain.initialize().unwrap();
        let state = TensorStore::new();
        let raft = if log_path { fp_log_raft() } else { shared_raft.clone() };
        let sm = fp_sm(&chain, &raft, &state, false);
        reps.push(FpRep { chain, chain_store, state, raft, sm, all: false });
    }
    let base_ts = read_block(&reps[0].chain_store, 0).unwrap().header.timestamp;
    let mut follow = m.is_some();
    fp_tell(&mut m, follow, &format!("rnew {nrep} {} 1000", u8::from(with_reg)));
    let rstate = |x: &FpRep| format!("h={} verify={} blocks={} data={}", x.chain.height(), vres(x.chain.verify_chain()), show_heights(&blocks_present(&x.chain_store)), show_image(&data_image(&x.state)));
    let (mut nblock, mut fast_accepted, mut rejected) = (0u64, 0u64, 0u64);
    'steps: for st in steps {
        match st {
            FpStep::Restart(i, all) => {
                if *i >= nrep {
                    continue;
                }
                let x = &mut reps[*i];
                x.all = *all;
                x.sm = fp_sm(&x.chain, &x.raft, &x.state, *all);
                fp_tell(&mut m, follow, &format!("rrestart {i} {}", u8::from(*all)));
                out.trace.push(show_fp(st));
                out.hits.push("replay.fastpath.restart".into());
            }
            FpStep::Clear(i) => {
                if *i >= nrep {
                    continue;
                }
                reps[*i].sm.clear_recent();
                fp_tell(&mut m, follow, &format!("rclear {i}"));
                out.trace.push(show_fp(st));
                out.hits.push("replay.fastpath.clear_recent".into());
            }
            FpStep::Block { emb, defect, txs, prop } => {
                let (mut hsel, mut prev, mut rootsel, mut sroot, mut sig) = ("ok", "ok", "ok", "ok", "ok");
                match *defect {
                    "sroot_bad" => sroot = "bad",
                    "sroot_stale" => sroot = "stale",
                    "height_same" => hsel = "same",
                    "height_skip" => hsel = "skip",
                    "prev_bad" => prev = "bad",
                    "txroot_bad" => rootsel = "bad",
                    "sig_none" => sig = "none",
                    "sig_bad" => sig = "bad",
                    "sig_wrongkey" => sig = "wrongkey",
                    _ => {}
                }
                let ts_off = 1000 + 2 * nblock;
                nblock += 1;
                // the proposer computes the state root on a copy of replica 0's state store
                let temp = TensorStore::new();
                temp.restore_from_bytes(&reps[0].state.snapshot_bytes().unwrap()).unwrap();
                let stale_root = compute_state_root(&temp).unwrap();
                for t in txs {
                    apply_transaction_to_store(&temp, &t.real()).unwrap();
                }
                let honest_root = compute_state_root(&temp).unwrap();
                let mut state_root = honest_root;
                match sroot {
                    "bad" => flip(&mut state_root),
                    "stale" => state_root = stale_root,
                    _ => {}
                }
                let e = fp_embedding(*emb);
                let b = mk_block_emb(&reps[0].chain, &ids, base_ts, state_root, hsel, prev, rootsel, sig, ts_off, *prop, txs, e.clone());
                fp_tell(&mut m, follow, &format!("rblock 0 {hsel} {prev} {rootsel} {sroot} {sig} {ts_off} {prop} {} {}", show_txs(txs), emb.map_or("-".to_string(), |(c, q)| format!("{c}:{q}"))));
                let mut line = show_fp(st);
                let mut pres: Vec<(u64, [u8; 32], Dump)> = Vec::new();
                let mut posts: Vec<(u64, [u8; 32], Dump)> = Vec::new();
                let mut oks: Vec<bool> = Vec::new();
                let mut paths: Vec<bool> = Vec::new();
                for i in 0..nrep {
                    let x = &mut reps[i];
                    // which path `can_fast_path` is about to choose, from the object's own getters
                    let count = x.sm.recent_embedding_count();
                    let fast = e.nnz() != 0 && count > 0 && x.sm.recent_embedding_similarity(&e) >= x.sm.fast_path_threshold();
                    fp_cmp(&mut m, &mut follow, &mut out, &format!("block {nblock} replica {i}: window"), &format!("n={count} fast={}", u8::from(fast)), &format!("rwin {i}"));
                    let pre = (x.chain.height(), x.chain.tip_hash(), store_dump(&x.state));
                    let pre_blocks = blocks_present(&x.chain_store);
                    let res: Result<(), ChainError> = if log_path {
                        match x.raft.propose(b.clone()) {
                            Ok(idx) => {
                                fp_peer_ack(&x.raft, idx);
                                match x.sm.apply_committed() {
                                    Ok(1) => Ok(()),
                                    Ok(n) => panic!("harness: apply_committed applied {n} entries after one committed proposal"),
                                    Err(e) => Err(e),
                                }
                            }
                            Err(e) => panic!("harness: Raft log of replica {i} refused the proposal: {e}"),
                        }
                    } else {
                        x.sm.apply_block(&b)
                    };
                    let imp = res.as_ref().map_or_else(|e| verr(e), |()| "ok".into());
                    fp_cmp(&mut m, &mut follow, &mut out, &format!("block {nblock} replica {i}: verdict"), &imp, &format!("rapply {i}"));
                    fp_cmp(&mut m, &mut follow, &mut out, &format!("block {nblock} replica {i}: state"), &rstate(x), &format!("rstate {i}"));
                    let path = if fast { "fast" } else { "full" };
                    out.hits.push(format!("replay.fastpath.path.{path}.{}", if res.is_ok() { "accepted" } else { "rejected" }));
                    out.hits.push(format!("replay.fastpath.defect.{defect}.{}", imp.replace(' ', "_")));
                    line.push_str(&format!(" | replica {i}: window {count}, {path} path => {imp}"));
                    let post = (x.chain.height(), x.chain.tip_hash(), store_dump(&x.state));
                    if res.is_ok() {
                        if fast {
                            fast_accepted += 1;
                        }
                        // ORACLE: an accepted block's state root is the root of the state it produced
                        let now = compute_state_root(&x.state).unwrap();
                        if now != b.header.state_root {
                            out.violations.push((WRONG_ROOT_CLASS.into(), format!(
                                "block {nblock} ({}): replica {i} (window of {count} embeddings, {path} path) returned Ok for a block whose header state_root {} is not the root {} of its state store after the call (the root of the replica's state with the transactions applied is {}); height {} -> {}",
                                show_fp(st), &hex(&b.header.state_root)[..12], &hex(&now)[..12], &hex(&honest_root)[..12], pre.0, post.0)));
                        }
                    } else {
                        rejected += 1;
                        // ORACLE: a rejected block leaves the replica as it was
                        if post != pre || blocks_present(&x.chain_store) != pre_blocks {
                            out.violations.push(("tensor_chain.state_machine.apply_block/rejected_block_changed_replica".into(), format!("block {nblock} ({}): replica {i} returned {imp} but its state store / chain height / tip / block records are not those of before the call", show_fp(st))));
                        }
                        if log_path {
                            // the rejected entry stays at the head of the replica's log: the replica comes back with a
                            // new log and a new state machine object
                            x.raft = fp_log_raft();
                            x.sm = fp_sm(&x.chain, &x.raft, &x.state, x.all);
                            fp_tell(&mut m, follow, &format!("rrestart {i} {}", u8::from(x.all)));
                            line.push_str(" (log stuck: replica restarted with a new log)");
                        }
                    }
                    pres.push(pre);
                    posts.push(post);
                    oks.push(res.is_ok());
                    paths.push(fast);
                }
                out.trace.push(line);
                if paths.iter().any(|f| *f) && paths.iter().any(|f| !*f) {
                    out.hits.push("replay.fastpath.replicas_on_different_paths".into());
                    if sroot != "ok" {
                        out.hits.push("replay.fastpath.wrong_state_root_on_different_paths".into());
                    }
                }
                if *defect != "none" && paths.iter().any(|f| *f) {
                    out.hits.push(format!("replay.fastpath.defect_on_fast_path.{defect}"));
                }
                // ORACLE: replicas that agreed before the block agree after it
                for a in 0..nrep {
                    for c in a + 1..nrep {
                        if pres[a] == pres[c] && (oks[a] != oks[c] || posts[a] != posts[c]) {
                            let (ra, rc) = (compute_state_root(&reps[a].state).unwrap(), compute_state_root(&reps[c].state).unwrap());
                            let mut keys: Vec<String> = dump_changes(&posts[a].2, &posts[c].2);
                            keys.truncate(6);
                            out.violations.push((DIVERGE_CLASS.into(), format!(
                                "block {nblock} ({}): replicas {a} and {c} held the same state store contents, height {} and tip before the block; replica {a} ({} path) {} it, replica {c} ({} path) {} it; heights {} / {}, tips {}, state roots {} / {} ({}), differing state keys {:?}",
                                show_fp(st), pres[a].0, if paths[a] { "fast" } else { "full" }, if oks[a] { "ACCEPTED" } else { "rejected" }, if paths[c] { "fast" } else { "full" }, if oks[c] { "ACCEPTED" } else { "rejected" },
                                posts[a].0, posts[c].0, if posts[a].1 == posts[c].1 { "equal" } else { "differ" }, &hex(&ra)[..12], &hex(&rc)[..12], if ra == rc { "equal" } else { "differ" }, keys)));
                            break 'steps;
                        }
                    }
                }
            }
        }
    }
    if follow {
        let all_equal = reps.iter().all(|x| compute_state_root(&x.state).unwrap() == compute_state_root(&reps[0].state).unwrap());
        fp_cmp(&mut m, &mut follow, &mut out, "end: state roots", if all_equal { "roots equal" } else { "roots differ" }, "rrootsall");
    }
    if follow && m.is_some() {
        out.hits.push("replay.fastpath.model_followed_to_the_end".into());
    }
    out.nontrivial = fast_accepted > 0 && rejected > 0;
    out
}
/// the directed histories of the fast-path stream (they run before every seeded stream): the shortest history in
/// which the state-root comparison on the fast path is the only thing that keeps two replicas together, and its
/// neighbours
fn fp_directed() -> Vec<(&'static str, usize, bool, Vec<FpStep>)> {
    let blk = |emb: Option<(u64, u64)>, defect: &'static str, k: u64, v: u64| FpStep::Block { emb, defect, txs: vec![Tx::Put(k, v)], prop: 1 };
    let mut out: Vec<(&'static str, usize, bool, Vec<FpStep>)> = Vec::new();
    // (a) two honest similar blocks, replica 1 restarts, a similar block with an altered state root
    out.push(("restart_then_wrong_root", 2, false, vec![blk(Some((1, 0)), "none", 1, 1), blk(Some((1, 1)), "none", 2, 2), FpStep::Restart(1, false), FpStep::Block { emb: Some((1, 2)), defect: "sroot_bad", txs: vec![Tx::Put(1, 99), Tx::Put(3, 3)], prop: 1 }, blk(Some((1, 3)), "none", 4, 4)]));
    // (b) the shortest one: one honest block, restart, wrong root
    out.push(("minimal", 2, false, vec![blk(Some((1, 0)), "none", 1, 1), FpStep::Restart(1, false), blk(Some((1, 1)), "sroot_bad", 2, 2)]));
    // (c) clear_recent() instead of a restart; the stale root (the proposer forgot to apply the block)
    out.push(("clear_then_stale_root", 2, false, vec![blk(Some((2, 0)), "none", 1, 1), FpStep::Clear(0), blk(Some((2, 5)), "sroot_stale", 2, 2), blk(Some((2, 6)), "none", 2, 3)]));
    // (d) same windows, different thresholds: replica 1 was created with_threshold(0.0), the block is of another class
    out.push(("thresholds_differ", 2, false, vec![FpStep::Restart(1, true), blk(Some((1, 0)), "none", 1, 1), blk(Some((2, 0)), "sroot_bad", 2, 2), blk(Some((3, 0)), "none", 3, 3)]));
    // (e) EVERY defect at a position where replica 0 takes the fast path and the restarted replica 1 the full path
    // (validator keys registered, so that the signature defects are defects), an honest block after each
    let mut steps = vec![blk(Some((1, 0)), "none", 0, 1)];
    for (n, d) in FP_DEFECTS.iter().enumerate() {
        steps.push(FpStep::Restart(1, false));
        steps.push(blk(Some((1, 1 + n as u64)), d, 1 + (n as u64 % 4), 10 + n as u64));
        steps.push(blk(Some((1, 0)), "none", 5, 20 + n as u64));
    }
    out.push(("every_defect_fast_vs_full", 3, true, steps));
    // (f) the window evicts: ten accepted blocks of class 2 push the class-1 embedding out of replica 0's window;
    // replica 1 restarts after five of them.  The class-1 block with a wrong root then meets: replica 0 window of 10
    // without class 1 (full path), replica 1 window of 5 (full path); then class 2 with a wrong root (both fast)
    let mut steps = vec![blk(Some((1, 0)), "none", 0, 1)];
    for n in 0..10u64 {
        if n == 5 {
            steps.push(FpStep::Restart(1, false));
        }
        steps.push(blk(Some((2, n)), "none", n % 5, 30 + n));
    }
    steps.push(blk(Some((1, 1)), "sroot_bad", 1, 50));
    steps.push(blk(Some((2, 11)), "sroot_stale", 2, 51));
    steps.push(blk(Some((2, 3)), "none", 2, 52));
    out.push(("window_evicts_oldest", 2, false, steps));
    // (g) blocks without a delta embedding never enter the window and never take the fast path
    out.push(("zero_embeddings", 2, false, vec![blk(None, "none", 1, 1), blk(Some((1, 0)), "sroot_bad", 2, 2), blk(Some((1, 0)), "none", 2, 3), blk(None, "sroot_bad", 3, 4), blk(None, "none", 3, 5)]));
    out
}
fn gen_fp_steps(r: &mut Rng, nrep: usize) -> Vec<FpStep> {
    let nblocks = 3 + r.below(8);
    let hot = r.below(4);
    let mut val = 0u64;
    let mut steps = Vec::new();
    for j in 0..nblocks {
        if j > 0 && r.chance(1, 3) {
            steps.push(FpStep::Restart(r.below(nrep as u64) as usize, r.chance(1, 5)));
        } else if j > 0 && r.chance(1, 10) {
            steps.push(FpStep::Clear(r.below(nrep as u64) as usize));
        }
        let emb = match r.below(10) {
            0 => None,
            1 | 2 => Some((r.below(4), r.below(12))),
            _ => Some((hot, r.below(12))),
        };
        // the first block is honest more often, so that a window exists when the defects arrive
        let defect: &'static str = if r.chance(if j == 0 { 1 } else { 2 }, 5) {
            if r.chance(1, 2) { if r.chance(2, 3) { "sroot_bad" } else { "sroot_stale" } } else { FP_DEFECTS[2 + r.below(FP_DEFECTS.len() as u64 - 2) as usize] }
        } else {
            "none"
        };
        let ntx = 1 + r.below(3) as usize;
        steps.push(FpStep::Block { emb, defect, txs: gen_txs(r, ntx, &mut val), prop: 1 + r.below(2) as usize });
    }
    steps
}

// ------------------------------------------------------------------ stream tamper.tx: ONE transaction of a stored block altered

/// a stored block of a verifying chain built through the public interface had ONE of its transactions replaced by a
/// different one (same number of transactions, header untouched), and verification still returns Ok
const ALTERED_TX_CLASS: &str = "tensor_chain.verify/altered_transaction_not_detected";
/// the same on the block alone: `compute_tx_root` / `verify_tx_root` do not notice the replaced transaction
const ALTERED_LEAF_CLASS: &str = "tensor_chain.block.merkle/altered_transaction_same_tx_root";
/// transactions added to / removed from a stored block, undetected, and NOT by the known duplicated-tail weakness
const TX_COUNT_CLASS: &str = "tensor_chain.verify/transaction_count_change_not_detected";

/// What the documented `merkle_root` computes (every level pairs its nodes, an odd last node with itself), as a
/// term over an injective symbolic hash: two transaction lists have equal terms exactly when the documented tree
/// gives them one root WHATEVER the hash function — the known duplicated-tail weakness and nothing else.
fn symbolic_tx_root(txs: &[Transaction]) -> String {
    if txs.is_empty() {
        return "0".into();
    }
    let mut level: Vec<String> = txs.iter().map(|t| format!("<{t:?}>")).collect();
    while level.len() > 1 {
        level = level.chunks(2).map(|c| format!("({}|{})", c[0], c.get(1).unwrap_or(&c[0]))).collect();
    }
    level.remove(0)
}

/// one transaction of a `tamper.tx` case and the block it goes into (equal `block` = same block, in list order);
/// `altered` marks THE transaction that is replaced in the stored block afterwards
#[derive(Clone, Debug)]
struct TxItem {
    block: usize,
    tx: Tx,
    altered: bool,
}
struct TxAlterOut {
    /// the case could not be set up as intended (no marked transaction, replacement = original, a block refused)
    skipped: Option<String>,
    blocks: Vec<Vec<Tx>>,
    /// (height of the altered block, position in its transaction list)
    target: (u64, usize),
    original: String,
    verify_before: String,
    verify_after: String,
    /// `compute_tx_root()` of the altered block equals the original's; `verify_tx_root()` of the altered block
    root_same: bool,
    root_verifies: bool,
    disagreements: Vec<(String, String, String)>,
}
impl TxAlterOut {
    fn undetected(&self) -> bool {
        self.skipped.is_none() && self.verify_before == "ok" && self.verify_after == "ok"
    }
    fn same_root(&self) -> bool {
        self.skipped.is_none() && (self.root_same || self.root_verifies)
    }
}
/// the items grouped into blocks (heights 1, 2, … in list order) and the marked transaction's (height, position)
fn tx_case_blocks(items: &[TxItem]) -> (Vec<Vec<Tx>>, Option<(u64, usize)>) {
    let mut blocks: Vec<Vec<Tx>> = Vec::new();
    let mut last = None;
    let mut target = None;
    for it in items {
        if last != Some(it.block) {
            blocks.push(Vec::new());
            last = Some(it.block);
        }
        let h = blocks.len() as u64;
        let b = blocks.last_mut().unwrap();
        if it.altered && target.is_none() {
            target = Some((h, b.len()));
        }
        b.push(it.tx.clone());
    }
    (blocks, target)
}
/// Build a chain holding the blocks of `items` through the public interface — `public`: a `TensorChain`, one
/// workspace (begin / add_operation / commit) per block, checked with `verify()`; otherwise a `Chain` with a validator
/// registry, one signed block per `append`, checked with `verify_chain()` —, then replace the marked transaction of the
/// STORED block by `repl` and verify again.  The model follows (`init`/`begin`/`put`…/`commit`/`naltertx`/`state`, or
/// `cinit`/`cappend`/`altertx`/`cverify`) until the first disagreement; the real objects are driven to the end.
fn run_tx_alter_case(mut m: Option<&mut Model>, public: bool, items: &[TxItem], repl: &Tx) -> TxAlterOut {
    let (blocks, target) = tx_case_blocks(items);
    let mut out = TxAlterOut { skipped: None, blocks: blocks.clone(), target: target.unwrap_or((0, 0)), original: String::new(), verify_before: String::new(), verify_after: String::new(), root_same: false, root_verifies: false, disagreements: vec![] };
    let Some((th, pos)) = target else {
        out.skipped = Some("no marked transaction".into());
        return out;
    };
    let mut follow = m.is_some();
    // compare one answer with the model's (only while the model is followed)
    fn cmp(m: &mut Option<&mut Model>, follow: &mut bool, out: &mut TxAlterOut, imp: &str, line: &str, cut: Option<&str>) {
        if !*follow {
            return;
        }
        if let Some(m) = m.as_deref_mut() {
            let mut model = m.ask(line);
            if let Some(c) = cut {
                model = model.split(c).next().unwrap_or("").to_string();
            }
            let (a, b) = reconcile(imp, &model);
            if a != b {
                out.disagreements.push((line.to_string(), imp.to_string(), model));
                *follow = false;
            }
        }
    }
    let alter = |store: &TensorStore, out: &mut TxAlterOut| -> bool {
        let Some(orig) = read_block(store, th) else {
            out.skipped = Some(format!("no stored block {th}"));
            return false;
        };
        if pos >= orig.transactions.len() || orig.transactions[pos] == repl.real() {
            out.skipped = Some("replacement equals the original transaction".into());
            return false;
        }
        out.original = show_real_tx(&orig.transactions[pos]);
        let mut forged = orig.clone();
        forged.transactions[pos] = repl.real();
        out.root_same = forged.compute_tx_root() == orig.compute_tx_root();
        out.root_verifies = forged.verify_tx_root();
        write_block(store, th, &forged);
        true
    };
    if public {
        let store = TensorStore::new();
        let mut cfg = ChainConfig::new("n").with_max_txs(1000);
        cfg.auto_merge = AutoMergeConfig { enabled: false, orthogonal_threshold: 0.1, max_merge_batch: 10, merge_window_ms: u64::MAX / 4 };
        let tc = TensorChain::with_identity(store.clone(), cfg, node_identity());
        tc.initialize().unwrap();
        cmp(&mut m, &mut follow, &mut out, "ok", "init 1000 0 10 0", None);
        let mut ts = 1u64;
        for (w, txs) in blocks.iter().enumerate() {
            let ws = tc.begin().unwrap();
            ws.set_before_embedding(&vec![0.0; DIM]);
            ws.compute_delta(&unit(0));
            cmp(&mut m, &mut follow, &mut out, &format!("ws {w}"), "begin", None);
            cmp(&mut m, &mut follow, &mut out, "ok", &format!("dir {w} 0"), None);
            for t in txs {
                let r = ws.add_operation(t.real());
                let line = match t {
                    Tx::Put(k, v) => show_op(&Op::Put(w, *k, *v)),
                    Tx::Del(k) => show_op(&Op::Del(w, *k)),
                    Tx::Cas(k, e, v) => show_op(&Op::Cas(w, *k, *e, *v)),
                };
                cmp(&mut m, &mut follow, &mut out, &r.as_ref().map_or_else(verr, |()| "ok".into()), &line, None);
                if r.is_err() {
                    out.skipped = Some(format!("add_operation refused {}", t.show()));
                    return out;
                }
            }
            let r = tc.commit(&ws);
            ts += 1;
            let imp = match &r {
                Ok(_) => format!("ok h={}", tc.height()),
                Err(e) => verr(e),
            };
            cmp(&mut m, &mut follow, &mut out, &imp, &format!("commit {w} {ts}"), Some(" txs="));
            if r.is_err() {
                out.skipped = Some(format!("commit of block {} failed: {imp}", w + 1));
                return out;
            }
        }
        out.verify_before = verify_registered(&tc);
        cmp(&mut m, &mut follow, &mut out, &state_line(&tc, &store), "state", None);
        if let Some(b) = read_block(&store, th) {
            // the block holds the workspace's operations in the order they were added
            cmp(&mut m, &mut follow, &mut out, &show_list(b.transactions.iter().map(show_real_tx).collect(), false), &format!("nblocktxs {th}"), None);
        }
        if !alter(&store, &mut out) {
            return out;
        }
        out.verify_after = verify_registered(&tc);
        cmp(&mut m, &mut follow, &mut out, "ok", &format!("naltertx {th} {pos} {}", repl.show()), None);
        cmp(&mut m, &mut follow, &mut out, &state_line(&tc, &store), "state", None);
    } else {
        let rc = new_raw(true);
        cmp(&mut m, &mut follow, &mut out, "ok", "cinit 1 1000", None);
        for (j, txs) in blocks.iter().enumerate() {
            let ts_off = 1000 + 2 * j as u64;
            let prop = 1 + j % 2;
            let b = mk_block(&rc, "ok", "ok", "ok", "ok", ts_off, prop, txs);
            let imp = rc.chain.append(b).map_or_else(|e| verr(&e), |_| "ok".into());
            cmp(&mut m, &mut follow, &mut out, &imp, &format!("cappend ok ok ok ok {ts_off} {prop} {}", show_txs(txs)), None);
            if imp != "ok" {
                out.skipped = Some(format!("append of block {} refused: {imp}", j + 1));
                return out;
            }
        }
        out.verify_before = vres(rc.chain.verify_chain());
        let vb = out.verify_before.clone();
        cmp(&mut m, &mut follow, &mut out, &vb, "cverify", None);
        if !alter(&rc.store, &mut out) {
            return out;
        }
        out.verify_after = vres(rc.chain.verify_chain());
        cmp(&mut m, &mut follow, &mut out, "ok", &format!("altertx {th} {pos} {}", repl.show()), None);
        let va = out.verify_after.clone();
        cmp(&mut m, &mut follow, &mut out, &va, "cverify", None);
    }
    out
}
/// a transaction different from `orig`: another value, another key, another kind, or a copy of a sibling
fn alter_tx(kind: u64, orig: &Tx, sibling: Option<&Tx>) -> Tx {
    let by_value = match orig {
        Tx::Put(k, v) => Tx::Put(*k, v + 1000),
        Tx::Del(k) => Tx::Put(*k, 1),
        Tx::Cas(k, e, v) => Tx::Cas(*k, *e, v + 1000),
    };
    match kind {
        1 => match orig {
            Tx::Put(k, v) => Tx::Put(k + 7, *v),
            Tx::Del(k) => Tx::Del(k + 7),
            Tx::Cas(k, e, v) => Tx::Cas(k + 7, *e, *v),
        },
        2 => match orig {
            Tx::Put(k, _) | Tx::Cas(k, ..) => Tx::Del(*k),
            Tx::Del(k) => Tx::Cas(*k, None, 5),
        },
        3 => match sibling {
            Some(s) if s != orig => s.clone(),
            _ => by_value,
        },
        _ => by_value,
    }
}

fn main() {
    let args = parse_args();
    let mut rep = Report::new(
        "seeded op sequences / block sequences / mutations; a case is non-trivial when it appends or commits at least one \
         block (workspace stream: >=1 successful non-empty commit; append stream: >=1 accepted block; tamper stream: one \
         mutation applied to a stored block of a verifying chain; tamper.tx: one transaction of one stored block of a verifying chain replaced by a different one; replay: >=1 block applied; concurrent: >=1 commit Ok; \
         late_fail: >=1 commit of the history returned an error; reopen and directed.append_crash: every case (a restart over a chain of >=1 appended / committed block, or over a store a stopped commit left behind); \
         replay.verdicts: >=1 block accepted and >=1 rejected; replay.fastpath: >=1 block accepted through the fast path and >=1 block rejected; variants: >=1 successful commit); distinct = distinct canonical case text",
    );
    rep.expected_branches = [
        "ws.commit.ok_h", "ws.commit.empty", "ws.commit.err_not_active", "ws.commit.err_too_many", "ws.commit.err_conflict",
        "ws.rollback.ok", "ws.rollback.err_committed", "ws.put.err_not_active", "ws.merge.block_with_merged_ops",
        "ws.radd.err_reserved", "ws.radd.err_not_active", "directed.namespace.refused", "directed.namespace.lookalike_accepted",
        "variants.reserved.refused", "directed.removed_tip.undetected_after_restart",
        "directed.committed_block_replay.separate.rejected", "directed.committed_block_replay.shared.rejected",
        "append.ok", "append.err height", "append.err prev_hash", "append.err tx_root", "append.err unsigned", "append.err bad_sig",
        "verify.ok", "verify.err height", "verify.err prev_hash", "verify.err tx_root", "verify.err timestamp", "verify.err bad_sig",
        "verify.err not_found", "verify.err empty_chain", "tamper.genesis_transactions.detected", "concurrent.directed.reproduced",
        "sched.witness.commit_lost.reproduced", "sched.witness.store_diverges.reproduced",
        "late_fail.kind.late_unknown_proposer", "late_fail.kind.late_unknown_proposer_merged", "late_fail.kind.early_too_many",
        "late_fail.kind.early_conflict", "late_fail.kind.early_not_active", "late_fail.late.k0", "late_fail.late.k1", "late_fail.late.k2",
        "late_fail.late.k3", "late_fail.unreg.removed", "late_fail.rereg.ok",
        "ws.merge.merged_block_too_many_fails_all", "ws.cas.ok", "ws.cas.err_not_active", "ws.reopen.h_verifyok", "ws.history.empty", "ws.history.one", "ws.history.several", "late_fail.cas.ok",
        "reopen.none.verify_ok", "reopen.remove_tip.verify_ok", "reopen.remove_inner.verify_err_not_found", "reopen.meta_ahead.verify_ok",
        "reopen.meta_behind.verify_ok", "reopen.meta_deleted.verify_ok", "reopen.plant_next_valid.verify_ok",
        "reopen.plant_next_badprev.verify_err_prev_hash", "reopen.plant_gap.verify_ok",
        "reopen.append_crash.verify_ok", "reopen.append_crash.k0", "reopen.append_crash.k1", "reopen.append_crash.k2", "reopen.model_followed_to_the_end",
        "directed.append_crash.block_stored_height_not_saved", "directed.append_crash.point.k0", "directed.append_crash.point.k1", "directed.append_crash.point.k2",
        "directed.append_crash.chain_after_restart_verifies", "ws.crashcommit.ok_h",
        "replay.verdict.ok", "replay.verdict.err_state_root", "replay.verdict.err_height", "replay.verdict.err_prev_hash",
        "replay.verdict.err_tx_root", "replay.verdict.err_unsigned", "replay.verdict.err_bad_sig",
        "replay.fastpath.path.fast.accepted", "replay.fastpath.path.fast.rejected", "replay.fastpath.path.full.accepted", "replay.fastpath.path.full.rejected",
        "replay.fastpath.replicas_on_different_paths", "replay.fastpath.wrong_state_root_on_different_paths", "replay.fastpath.restart", "replay.fastpath.clear_recent",
        "replay.fastpath.defect_on_fast_path.sroot_bad", "replay.fastpath.defect_on_fast_path.sroot_stale", "replay.fastpath.defect_on_fast_path.height_same",
        "replay.fastpath.defect_on_fast_path.height_skip", "replay.fastpath.defect_on_fast_path.prev_bad", "replay.fastpath.defect_on_fast_path.txroot_bad",
        "replay.fastpath.defect_on_fast_path.sig_none", "replay.fastpath.defect_on_fast_path.sig_bad", "replay.fastpath.defect_on_fast_path.sig_wrongkey",
        "replay.fastpath.model_followed_to_the_end",
        "tamper.tx.public.detected", "tamper.tx.raw.detected", "tamper.tx.verify_after.err tx_root", "tamper.tx.pos.first", "tamper.tx.pos.inner", "tamper.tx.pos.last",
        "tamper.tx.altered_block.tip", "tamper.tx.altered_block.below_tip", "tamper.tx.size.01", "tamper.tx.size.05", "tamper.tx.size.06", "tamper.tx.size.09", "tamper.tx.size.10",
        "tamper.tx.size.11", "tamper.tx.size.12", "tamper.tx.size.13", "tamper.tx.size.17", "tamper.tx.size.18+", "merkle.mut6.different", "merkle.mut7.different",
        "variants.late_fail.failed", "variants.op.Put", "variants.op.Delete", "variants.op.Embed", "variants.op.NodeCreate", "variants.op.NodeDelete",
        "variants.op.EdgeCreate", "variants.op.TableInsert", "variants.op.TableUpdate", "variants.op.TableDelete", "variants.op.CompareAndSwap",
    ]
    .iter()
    .map(|s| s.to_string())
    .collect();
    let mut m = Model::spawn(&args.driver);
    // wall time per stream, to stderr (diagnostic only; never part of the report)
    let t_start = std::time::Instant::now();
    let mut t_last = t_start;
    let mut lap = move |name: &str| {
        let now = std::time::Instant::now();
        eprintln!("corr_chain: {name}: {:.2}s (total {:.2}s)", (now - t_last).as_secs_f64(), (now - t_start).as_secs_f64());
        t_last = now;
    };
    let root = Rng::new(args.seed);
    let scale: u64 = if args.thorough { 10 } else { 1 };
    let mut vio_seen: BTreeSet<String> = BTreeSet::new();
    let mut violation = |rep: &mut Report, class: &str, what: &str, input: Value| {
        rep.hit(&format!("violation.{class}"));
        // keep the first (smallest-index) failing input per class plus a few more
        if vio_seen.insert(class.to_string()) {
            rep.violation(class, what, input);
        }
    };


    // ---------------- directed cases (run first on every run, independent of the seed)

    // (0) AUTO-MERGE UNDER A TRANSITION VALIDATOR (non-empty global codebook): rejecting and accepting validators, the
    // minimal history first (two open workspaces on orthogonal axes, the second rejected as merge candidate of the first).
    {
        let vm_stream = |rep: &mut Report, m: &mut Model, stream: &str, name: &str, validator: &str, auto_merge: bool, steps: &[VmStep], violation: &mut dyn FnMut(&mut Report, &str, &str, Value)| {
            let out = run_vm_case(m, validator, auto_merge, steps);
            for h in &out.hits {
                rep.hit(h);
            }
            let shown: Vec<String> = steps.iter().map(show_vm).collect();
            for (at, imp, model) in &out.disagreements {
                rep.disagree(stream, json!({"case": name, "validator": validator, "auto_merge": auto_merge, "steps": shown, "at": at}), imp, model);
            }
            if let Some(first) = out.violations.first() {
                let class = first.0.clone();
                let mut fails = |cand: &[VmStep]| -> bool { run_vm_case(m, validator, auto_merge, cand).violations.iter().any(|v| v.0 == class) };
                let small = shrink_list(steps, &mut fails);
                let what = run_vm_case(m, validator, auto_merge, &small).violations.into_iter().find(|v| v.0 == class).map_or_else(|| first.1.clone(), |v| v.1);
                violation(rep, &class, &what, json!({"stream": stream, "case": name, "validator": validator, "auto_merge": auto_merge, "codebook": if validator == "empty" { "empty (default)" } else { "one centroid along the first committer's axis" }, "steps": small.iter().map(show_vm).collect::<Vec<_>>()}));
            }
            let text = format!("{validator} {auto_merge} {}", shown.join(";"));
            rep.case(stream, if out.nontrivial { Some(&text) } else { None });
        };
        for (name, validator, auto_merge, steps) in vm_directed() {
            vm_stream(&mut rep, &mut m, "directed.vmerge", name, validator, auto_merge, &steps, &mut violation);
        }
        let mut r = root.fork("vmerge");
        for case in 0..150 * scale {
            let (validator, auto_merge, steps) = gen_vm_case(&mut r);
            if case < 2 {
                rep.sample(json!({"stream": "vmerge", "validator": validator, "auto_merge": auto_merge, "steps": steps.iter().map(show_vm).collect::<Vec<_>>()}));
            }
            vm_stream(&mut rep, &mut m, "vmerge", "random", &validator, auto_merge, &steps, &mut violation);
        }
        lap("vmerge");
    }
    // (1) REGRESSION of repo commit b368f92a, class tensor_chain.commit/workspace_write_to_chain_namespace: the chain
    // keeps its block records and its height record in the store its transactions write to; `add_operation` must
    // refuse every key under the reserved `chain:` prefix.  Oracle: an ACCEPTED key under the prefix is a violation
    // (reported with what commit + verify() then do); the model (`addOperation`) is asked for the keys it has.
    {
        // (1a) the failing input of the finding, alone: height 1; begin; Put{chain:block:1}; commit; verify
        for kind in ["put", "del"] {
            let store = TensorStore::new();
            let tc = TensorChain::with_identity(store.clone(), ChainConfig::new("n"), node_identity());
            tc.initialize().unwrap();
            let w = tc.begin().unwrap();
            w.add_operation(Tx::Put(1, 1).real()).unwrap();
            tc.commit(&w).unwrap();
            let before = chain_snap(&tc, &store);
            let w = tc.begin().unwrap();
            let added = w.add_operation(reserved_tx(kind, "chain:block:1", 1));
            m.ask("init 1000 0 10 0");
            for l in ["begin", "put 0 1 1", "commit 0 1", "begin"] {
                m.ask(l);
            }
            let line = if kind == "put" { "radd 1 put block:1 1" } else { "radd 1 del block:1" };
            let ops = json!(["begin", "put d1 1", "commit", "begin", format!("{kind} chain:block:1"), "commit", "verify"]);
            rep.compare_c("directed.namespace", || json!({"ops": ops, "at": line}), &added.as_ref().map_or_else(|e| verr(e), |()| "ok".into()), &m.ask(line));
            let res = tc.commit(&w);
            let ver = tc.verify();
            let after = chain_snap(&tc, &store);
            if added.is_ok() {
                violation(&mut rep, NAMESPACE_CLASS, &format!("add_operation accepted {kind} on the chain's own record \"chain:block:1\" (regression of repo commit b368f92a); commit = {:?}; verify() = {}; {}",
                    res.as_ref().map(|_| ()).map_err(|e| e.to_string()), vres(ver), snap_diff(&before, &after).join("; ")), json!({"stream": "directed.namespace", "ops": ops}));
            } else {
                rep.hit("directed.namespace.refused");
                // the refused operation left nothing behind: the commit is an empty commit, chain and store untouched
                rep.compare_c("directed.namespace", || json!({"ops": ops, "at": "commit 1"}), &res.as_ref().map_or_else(|e| verr(e), |_| "empty".to_string()), &m.ask("commit 1 2"));
                if after != before || ver.is_err() {
                    violation(&mut rep, "tensor_chain.workspace/refused_operation_changed_state", &format!("a refused add_operation + commit of the empty workspace changed chain or store: {}; verify() = {}", snap_diff(&before, &after).join("; "), vres(ver)), json!({"stream": "directed.namespace", "ops": ops}));
                }
            }
            rep.case("directed.namespace", Some(&format!("minimal {kind}")));
        }
        // (1b) every kind of operation on every shape of key under the prefix, on one active workspace; look-alikes
        // that are NOT under the prefix are accepted; then a data-key put, commit, verify
        let store = TensorStore::new();
        let tc = TensorChain::with_identity(store.clone(), ChainConfig::new("n"), node_identity());
        tc.initialize().unwrap();
        let w = tc.begin().unwrap();
        w.add_operation(Tx::Put(1, 1).real()).unwrap();
        tc.commit(&w).unwrap();
        m.ask("init 1000 0 10 0");
        for l in ["begin", "put 0 1 1", "commit 0 1", "begin"] {
            m.ask(l);
        }
        let w = tc.begin().unwrap();
        let before = chain_snap(&tc, &store);
        let mut script: Vec<String> = vec!["begin".into(), "put d1 1".into(), "commit".into(), "begin".into()];
        let mut accepted: Vec<String> = Vec::new();
        for key in ["chain:block:1", "chain:block:0", "chain:block:2", "chain:block:7", "chain:meta", "chain:", "chain:x", "chain:block:", "chain:block:abc", "chain:meta:x"] {
            for kind in ["put", "del", "cas"] {
                let r = w.add_operation(reserved_tx(kind, key, 5));
                let imp = r.as_ref().map_or_else(|e| verr(e), |()| "ok".into());
                script.push(format!("{kind} {key} => {imp}"));
                // the model has the keys that name a record of the chain
                let mkey = key.strip_prefix("chain:").filter(|k| *k == "meta" || k.strip_prefix("block:").is_some_and(|h| h.parse::<u64>().is_ok()));
                if let Some(mk) = mkey {
                    let line = show_op(&Op::RawAdd(1, kind, mk.to_string(), 5));
                    rep.compare_c("directed.namespace", || json!({"script": script, "at": line}), &imp, &m.ask(&line));
                }
                if r.is_ok() {
                    accepted.push(format!("{kind} {key}"));
                } else {
                    rep.hit("directed.namespace.refused");
                }
            }
        }
        // a refused operation is not recorded
        if accepted.is_empty() && (w.operation_count() != 0 || !w.affected_keys().is_empty()) {
            violation(&mut rep, "tensor_chain.workspace/refused_operation_recorded", "add_operation returned the reserved-prefix error yet recorded the operation or its key", json!({"stream": "directed.namespace", "script": script}));
        }
        for t in [
            Transaction::Put { key: "my:chain:block:1".into(), data: vec![1] },
            Transaction::Put { key: "chain".into(), data: vec![1] },
            Transaction::NodeCreate { key: "chain:x".into(), label: "L".into() },
            Transaction::Embed { key: "chain:block:1".into(), vector: vec![1.0] },
        ] {
            let r = w.add_operation(t.clone());
            script.push(format!("{t:?} => {}", r.as_ref().map_or_else(|e| verr(e), |()| "ok".into())));
            if r.is_ok() {
                rep.hit("directed.namespace.lookalike_accepted");
            } else {
                violation(&mut rep, "tensor_chain.workspace/unreserved_key_refused", "add_operation refused a key that is not under the chain: prefix", json!({"stream": "directed.namespace", "script": script}));
            }
        }
        let r = w.add_operation(Tx::Put(4, 4).real());
        rep.compare_c("directed.namespace", || json!({"script": script, "at": "put 1 4 4"}), &r.map_or_else(|e| verr(&e), |()| "ok".into()), &m.ask("put 1 4 4"));
        let res = tc.commit(&w);
        let ver = tc.verify();
        let after = chain_snap(&tc, &store);
        script.push(format!("commit => {:?}; verify => {}", res.as_ref().map(|_| ()).map_err(|e| e.to_string()), vres(tc.verify())));
        // chain records after the commit: exactly the old ones plus block 2, height record rewritten
        let chain_changes = chain_record_changes(&before.dump, &after.dump);
        let clean = res.is_ok() && ver.is_ok() && chain_changes == vec!["chain:block:2 NEW".to_string(), "chain:meta changed".to_string()];
        if !accepted.is_empty() {
            violation(&mut rep, NAMESPACE_CLASS, &format!("add_operation accepted operations on keys under the reserved chain: prefix (regression of repo commit b368f92a): {accepted:?}; commit = {:?}; verify() = {}; chain records: {chain_changes:?}",
                res.as_ref().map(|_| ()).map_err(|e| e.to_string()), vres(ver)), json!({"stream": "directed.namespace", "script": script}));
        } else if !clean {
            violation(&mut rep, "tensor_chain.commit/chain_record_changed_outside_append", &format!("every reserved key was refused, yet after the commit: commit = {:?}, verify() = {}, chain records: {chain_changes:?}",
                res.as_ref().map(|_| ()).map_err(|e| e.to_string()), vres(ver)), json!({"stream": "directed.namespace", "script": script}));
        } else {
            // only compared on the healthy path (the model has no operation on a record of the chain to commit)
            rep.compare_c("directed.namespace", || json!({"script": script, "at": "state"}), &state_line(&tc, &store), &{
                m.ask("commit 1 2");
                m.ask("state")
            });
        }
        rep.case("directed.namespace", Some("sweep"));
        rep.sample(json!({"stream": "directed.namespace", "script": script}));
    }
    // (2) KNOWN FINDING tensor_chain.initialize/removed_tip_block_undetected_after_restart: two appended blocks; the
    // record of the tip block is removed; the running object's verify_chain() reports it; a new Chain + initialize()
    // walks the height back, saves it, and verify_chain() returns Ok on the truncated chain.
    {
        let mut rc = new_raw(true);
        let mut val = 0u64;
        let mut lines = Vec::new();
        for j in 0..2u64 {
            let txs = vec![Tx::Put(j + 1, { val += 1; val })];
            let b = mk_block(&rc, "ok", "ok", "ok", "ok", 1000 + 2 * j, 1, &txs);
            lines.push(format!("append block {} [{}] => {}", j + 1, show_txs(&txs), rc.chain.append(b).map_or_else(|e| verr(&e), |_| "ok".into())));
        }
        let h0 = rc.chain.height();
        let healthy = vres(rc.chain.verify_chain());
        rc.store.delete("chain:block:2").unwrap();
        let running = vres(rc.chain.verify_chain());
        let opened = rc.reopen();
        let restarted = vres(rc.chain.verify_chain());
        let input = json!({"stream": "directed.removed_tip", "build": lines, "damage": "store.delete(\"chain:block:2\")", "height_before": h0, "verify_before_damage": healthy,
            "verify_running_object": running, "initialize": opened.as_ref().map_or_else(|e| verr(e), |()| "ok".to_string()), "height_after_restart": rc.chain.height(), "height_record_after_restart": meta_height(&rc.store), "verify_after_restart": restarted});
        if h0 == 2 && healthy == "ok" && running == "err not_found 2" && opened.is_ok() && restarted == "ok" && rc.chain.height() == 1 {
            rep.hit("directed.removed_tip.undetected_after_restart");
            violation(&mut rep, "tensor_chain.initialize/removed_tip_block_undetected_after_restart", "the record of the tip block was removed from the store: the running object's verify_chain() reports it, but a new Chain + initialize() walks the height back, saves it, and verify_chain() returns Ok on the truncated chain (Lean: reopen_heals_removed_tip_witness)", input);
        } else if healthy == "ok" && running == "ok" {
            violation(&mut rep, "tensor_chain.verify/removed_tip_block_undetected", "the record of the tip block was removed from the store and the running object's verify_chain() still returns Ok", input);
        }
        rep.case("directed.removed_tip", Some("remove tip of 2"));
    }
    // (3) KNOWN FINDINGS tensor_chain.state_machine.apply_block/committed_block_rejected_{separate,shared}_store_replica:
    // the blocks TensorChain::commit produces, replayed through TensorStateMachine::apply_block on a fresh replica
    // bootstrapped from the same genesis.  The class is the listed one only when the trace shows the listed cause:
    // the verdict is the state-root check; separate state store: from block 1 on although the replica's data keys
    // are exactly the proposer's; shared store: block 1 accepted, block 2 rejected, and the records in which the
    // proposer's store (after its block 1) and the replica's store (after block 1) differ are graph records only.
    {
        let raft = {
            let id = Identity::generate();
            Arc::new(RaftNode::new(id.node_id(), vec![], Arc::new(MemoryTransport::new(id.node_id())), RaftConfig::default()))
        };
        for shared in [false, true] {
            let cfgname = if shared { "shared" } else { "separate" };
            let store = TensorStore::new();
            let tc = TensorChain::with_identity(store.clone(), ChainConfig::new("n"), node_identity());
            tc.initialize().unwrap();
            let mut proposer_after: Vec<(Dump, Dump)> = Vec::new(); // (all keys, keys written by transactions) after block i+1
            for i in 0..2u64 {
                let w = tc.begin().unwrap();
                w.add_operation(Tx::Put(i, i).real()).unwrap();
                tc.commit(&w).unwrap();
                proposer_after.push((store_dump(&store), user_dump(&store)));
                // the graph records beside a block carry a wall-clock `_created_at` (ms)
                std::thread::sleep(std::time::Duration::from_millis(3));
            }
            let chain_store = TensorStore::new();
            chain_store.put("chain:block:0", store.get("chain:block:0").unwrap()).unwrap();
            let mut td = TensorData::new();
            td.set("height", TensorValue::Scalar(ScalarValue::Int(0)));
            chain_store.put("chain:meta", td).unwrap();
            let graph = Arc::new(GraphEngine::with_store(chain_store.clone()));
            let chain = Arc::new(Chain::new(graph, tc.node_id().clone()));
            chain.initialize().unwrap();
            let state = if shared { chain_store.clone() } else { TensorStore::new() };
            let sm = TensorStateMachine::new(chain, raft.clone(), state.clone());
            let mut verdicts: Vec<String> = Vec::new();
            let mut data_agrees: Vec<bool> = Vec::new();
            let mut differing: Vec<Vec<String>> = Vec::new();
            for h in 1..=tc.height() {
                let b = tc.get_block(h).unwrap().unwrap();
                // what the replica's data keys WOULD be with the block applied (apply_block undoes a rejected block)
                let would = TensorStore::new();
                would.restore_from_bytes(&state.snapshot_bytes().unwrap()).unwrap();
                for t in &b.transactions {
                    let _ = apply_transaction_to_store(&would, t);
                }
                data_agrees.push(user_dump(&would) == proposer_after[h as usize - 1].1);
                verdicts.push(sm.apply_block(&b).map_or_else(|e| verr(&e), |()| "ok".into()));
                let mine = store_dump(&state);
                let theirs = &proposer_after[h as usize - 1].0;
                differing.push(mine.keys().chain(theirs.keys()).filter(|k| mine.get(*k) != theirs.get(*k)).cloned().collect::<BTreeSet<_>>().into_iter().collect());
            }
            let input = json!({"stream": "directed.committed_block_replay", "config": cfgname, "proposer": ["begin; put d0 0; commit", "begin; put d1 1; commit"],
                "replica": "fresh Chain over the proposer's genesis record + TensorStateMachine", "verdicts_blocks_1_2": verdicts, "replica_data_keys_would_equal_proposers": data_agrees,
                "store_keys_differing_after_each_block": differing});
            if let Some(i) = verdicts.iter().position(|v| v != "ok") {
                rep.hit(&format!("directed.committed_block_replay.{cfgname}.rejected"));
                let kind = verdicts[i].trim_start_matches("err ").replace([' ', ':'], "_");
                let graph_only = |keys: &Vec<String>| !keys.is_empty() && keys.iter().all(|k| k.starts_with("node:") || k.starts_with("edge:"));
                let listed_cause = kind == "state_root" && data_agrees[i] && if shared { i == 1 && graph_only(&differing[0]) } else { i == 0 };
                let class = if listed_cause {
                    format!("tensor_chain.state_machine.apply_block/committed_block_rejected_{cfgname}_store_replica")
                } else {
                    format!("tensor_chain.state_machine.apply_block/committed_block_rejected_{cfgname}_store_replica_{kind}_at_block_{}", i + 1)
                };
                let what = if shared {
                    "a replica whose state store is its chain store accepts block 1 of a chain built by TensorChain::commit and rejects block 2 (state root): the root commit() wrote covers the graph records written beside each block, whose _created_at is the wall clock (Lean: committed_block_replays_on_shared_replica holds of the store image the model has, which has no graph records)"
                } else {
                    "a replica with a separate state store rejects every block built by TensorChain::commit (state root) although its data keys would be exactly the proposer's: the root commit() wrote covers the proposer's whole store, chain records included (Lean: committed_block_rejected_by_separate_replica_witness)"
                };
                violation(&mut rep, &class, what, input);
            }
            rep.case("directed.committed_block_replay", Some(cfgname));
        }
    }
    // (4) RESTART OVER A CRASH STATE OF Chain::append, through the public interface (begin / put / commit) of TensorChain.
    // For N = 1, 2, 3: N-1 committed blocks, then the commit of block N is interrupted, the node restarts, the tip is
    // checked, further workspaces are committed (with and without another restart between them), verify() and the
    // predecessor links are checked.  Oracles (a) TIP_CLASS, (b) AFTER_RESTART_CLASS, (c) CRASH_CLASS as in stream
    // `reopen`, on the real objects, independent of the model; the model (`ncrash` / `nsetmeta` + `reopen`) is followed
    // until the first disagreement of a case.
    //  (4a) the shortest history: the pre-append chain:meta record is put back after the commit of block N — the store
    //       "block N stored, height N-1 saved" — exactly what the guard "re-read the tip after the walk forward" is for;
    //  (4b) every crash point of the whole commit of block N: the commit runs as a real thread that parks before each
    //       store call; every distinct store content on the way is restarted over.
    {
        let open_tc = |store: &TensorStore| -> (TensorChain, Result<(), ChainError>) {
            let tc = TensorChain::with_identity(store.clone(), ChainConfig::new("n"), node_identity());
            let init = tc.initialize();
            (tc, init)
        };
        let commit_put = |tc: &TensorChain, k: u64, v: u64| -> String {
            let w = tc.begin().unwrap();
            w.add_operation(Tx::Put(k, v).real()).unwrap();
            tc.commit(&w).map_or_else(|e| verr(&e), |_| format!("ok h={}", tc.height()))
        };
        // one case: `store` is what the stopped process left behind (`blocks_stored` = highest block record in it);
        // `model_ws` = number of workspaces the model node has begun so far (None: the model has no such state)
        let mut after_crash = |rep: &mut Report, m: &mut Model, store: TensorStore, what: String, history: &Vec<String>, second_restart: bool, model_ws: Option<u64>, label: &str| {
            let mut steps: Vec<String> = Vec::new();
            let desc = |steps: &Vec<String>| json!({"stream": "directed.append_crash", "through": "TensorChain begin/put/commit", "history": history, "stop": what, "second_restart_between_the_commits": second_restart, "then": steps});
            let mut agree = model_ws.is_some();
            let mut ws = model_ws.unwrap_or(0);
            let top_stored = { let p = blocks_present(&store); (0..).take_while(|h| p.contains(h)).last().unwrap_or(0) };
            let (mut tc, init) = open_tc(&store);
            let ver = vres(tc.verify());
            steps.push(format!("restart => initialize() = {}, {} meta={}, tip_hash {}..", init.as_ref().map_or_else(|e| verr(e), |()| "ok".into()), state_line(&tc, &store), meta_height(&store), hex(&tc.tip_hash()[..6])));
            if agree {
                agree &= rep.compare_c("directed.append_crash", || desc(&steps), &format!("{} meta={}", state_line(&tc, &store), meta_height(&store)), &format!("{} meta={}", m.ask("reopen 50"), m.ask("meta")));
            }
            let mut tip_bad = false;
            if let Some(w) = tip_mismatch(tc.height(), tc.tip_hash(), &store) {
                tip_bad = true;
                violation(rep, TIP_CLASS, &format!("after a restart (new TensorChain over the store + initialize()): {w}"), desc(&steps));
            }
            if !tip_bad && (init.is_err() || tc.height() != top_stored || ver != "ok" || meta_height(&store) != top_stored.to_string()) {
                violation(rep, CRASH_CLASS, &format!("a new TensorChain over a store left behind by a stop inside commit/append: initialize() does not end at the highest stored block {top_stored} with its height record saved and a verifying chain"), desc(&steps));
            }
            let gate = init.is_ok() && ver == "ok" && blocks_present(&store) == (0..=tc.height()).collect::<Vec<_>>();
            let mut all_ok = true;
            for step in 0..2u64 {
                let (k, v) = (10 + step, 100 + step);
                let imp = commit_put(&tc, k, v);
                all_ok &= imp.starts_with("ok");
                steps.push(format!("begin; put d{k} {v}; commit => {imp}; {}", state_line(&tc, &store)));
                if agree {
                    m.ask("begin");
                    m.ask(&format!("put {ws} {k} {v}"));
                    let a = m.ask(&format!("commit {ws} {}", 60 + step));
                    ws += 1;
                    agree = rep.compare_c("directed.append_crash", || desc(&steps), &imp, a.split(" txs=").next().unwrap_or(""))
                        && rep.compare_c("directed.append_crash", || desc(&steps), &state_line(&tc, &store), &m.ask("state"));
                }
                if step == 1 || second_restart {
                    let (t2, init) = open_tc(&store);
                    tc = t2;
                    steps.push(format!("restart => initialize() = {}, {}, tip_hash {}..", init.as_ref().map_or_else(|e| verr(e), |()| "ok".into()), state_line(&tc, &store), hex(&tc.tip_hash()[..6])));
                    if agree {
                        agree &= rep.compare_c("directed.append_crash", || desc(&steps), &state_line(&tc, &store), &m.ask(&format!("reopen {}", 70 + step)));
                    }
                    if !tip_bad {
                        if let Some(w) = tip_mismatch(tc.height(), tc.tip_hash(), &store) {
                            tip_bad = true;
                            violation(rep, TIP_CLASS, &format!("after a restart (new TensorChain over the store + initialize()): {w}"), desc(&steps));
                        }
                    }
                }
            }
            if gate && all_ok {
                let ver = vres(tc.verify());
                let links = broken_links(&store, tc.height());
                if ver != "ok" || !links.is_empty() {
                    violation(rep, AFTER_RESTART_CLASS, &format!("verify() was Ok right after the restart over a store holding exactly the blocks 0..=height(); two further workspaces committed through begin / put / commit, both Ok, and the chain does not verify: verify() = {ver}; {}", links.join("; ")), desc(&steps));
                } else {
                    rep.hit("directed.append_crash.chain_after_restart_verifies");
                }
            }
            rep.hit(if agree { "directed.append_crash.model_followed_to_the_end" } else if model_ws.is_some() { "directed.append_crash.real_only_after_disagreement" } else { "directed.append_crash.real_only" });
            rep.case("directed.append_crash", Some(label));
            desc(&steps)
        };
        for n in 1..=3u64 {
            for second_restart in [false, true] {
                // (4a)
                let store = TensorStore::new();
                let (tc, _) = open_tc(&store);
                m.ask("init 1000 0 10 0");
                let mut history = Vec::new();
                for i in 1..n {
                    history.push(format!("begin; put d{i} {i}; commit => {}", commit_put(&tc, i, i)));
                    m.ask("begin");
                    m.ask(&format!("put {} {i} {i}", i - 1));
                    m.ask(&format!("commit {} {i}", i - 1));
                }
                let meta_before = store.get("chain:meta").unwrap();
                history.push(format!("begin; put d{n} {n}; commit => {}", commit_put(&tc, n, n)));
                m.ask("begin");
                m.ask(&format!("put {} {n} {n}", n - 1));
                m.ask(&format!("commit {} {n}", n - 1));
                store.put("chain:meta", meta_before).unwrap();
                m.ask(&format!("nsetmeta {}", n - 1));
                drop(tc);
                rep.hit("directed.append_crash.block_stored_height_not_saved");
                let d = after_crash(&mut rep, &mut m, store, format!("the process stops inside the append of block {n}: block record {n} stored, chain:meta still names height {} (the pre-append record put back)", n - 1), &history, second_restart, Some(n), &format!("4a {n} {second_restart}"));
                if n == 2 && !second_restart {
                    rep.sample(d);
                }
            }
            // (4b)
            let store = TensorStore::new();
            let (tc, _) = open_tc(&store);
            let mut history = Vec::new();
            for i in 1..n {
                history.push(format!("begin; put d{i} {i}; commit => {}", commit_put(&tc, i, i)));
            }
            let tc = Arc::new(tc);
            let w = tc.begin().unwrap();
            w.add_operation(Tx::Put(n, n).real()).unwrap();
            history.push(format!("begin; put d{n} {n}; commit (interrupted)"));
            let tc2 = tc.clone();
            let points = crash_points(&store, Box::new(move || {
                let _ = tc2.commit(&w);
            }));
            rep.hit_n("directed.append_crash.commit_crash_points", points.len() as u64);
            for (j, pt) in points.iter().enumerate() {
                let written = dump_changes(&points[0].dump, &pt.dump);
                let block_stored = pt.dump.contains_key(&format!("chain:block:{n}"));
                let k = if !block_stored { 0 } else if meta_of_dump(&pt.dump) == Some(n) { 2 } else { 1 };
                rep.hit(&format!("directed.append_crash.point.k{k}"));
                for second_restart in [false, true] {
                    // the model has the states from "block record stored" on (`commitCrashInAppend`)
                    let model_ws = if k >= 1 {
                        m.ask("init 1000 0 10 0");
                        for i in 1..n {
                            m.ask("begin");
                            m.ask(&format!("put {} {i} {i}", i - 1));
                            m.ask(&format!("commit {} {i}", i - 1));
                        }
                        m.ask("begin");
                        m.ask(&format!("put {} {n} {n}", n - 1));
                        let a = m.ask(&format!("ncrash {} {n} {k}", n - 1));
                        rep.compare_c("directed.append_crash", || json!({"history": history, "at": format!("ncrash {} {n} {k}", n - 1)}), "ok", &a);
                        Some(n)
                    } else {
                        None
                    };
                    let copy = TensorStore::new();
                    copy.restore_from_bytes(&pt.image).unwrap();
                    after_crash(&mut rep, &mut m, copy, format!("the process stops inside the commit of block {n} before its store call `{}` (point {j} of {}; written so far: {})", pt.before, points.len(), if written.is_empty() { "nothing".to_string() } else { written.join(", ") }), &history, second_restart, model_ws, &format!("4b {n} {j} {second_restart}"));
                }
            }
        }
    }
    lap("directed");
    // ---------------- stream T: ONE TRANSACTION of a stored block altered.  A chain is built through the public
    // interface — a `TensorChain` (one workspace per block: begin / add_operation / commit, checked with `verify()`)
    // or a `Chain` with registered validator keys (one signed block per `append`, checked with `verify_chain()`) —,
    // it verifies, then exactly one transaction of one STORED block is replaced by a different transaction (value,
    // key or kind changed, or a copy of a sibling; the number of transactions and the header stay) and the chain is
    // verified again.  Blocks of 1..=17 transactions with EVERY position altered, then random sizes up to 40 in chains
    // of 1-3 blocks (altered block at the tip or below it), positions biased to the tail.  Directed cases run first,
    // independent of the seed: blocks of 5, 6, 9, 10, 11, 12, 13 transactions — the sizes at which some INNER level
    // of the Merkle tree has an odd number of nodes — with their LAST transactions altered, last first.  The model
    // follows every step (`verifyChain` over the altered store: `err tx_root`).  Property oracles on the real
    // objects alone, shrunk over the transaction lists:
    //  (a) verification after the alteration must fail                                           [ALTERED_TX_CLASS]
    //  (b) the altered block's `compute_tx_root()` differs from the original's, `verify_tx_root()` is false
    //                                                                                             [ALTERED_LEAF_CLASS]
    // Lean: every_transaction_influences_tx_root, altered_transaction_detected (Props5).
    {
        let mut r = root.fork("tamper.tx");
        let mut cases: Vec<(String, bool, Vec<TxItem>, Tx)> = Vec::new();
        let puts = |h: usize, n: usize, mark: Option<usize>| -> Vec<TxItem> {
            (0..n).map(|i| TxItem { block: h, tx: Tx::Put(i as u64, (100 * h + i + 1) as u64), altered: mark == Some(i) }).collect()
        };
        for n in [5usize, 6, 9, 10, 11, 12, 13] {
            for pos in (n / 2..n).rev() {
                for public in [true, false] {
                    // block 1 holds the n transactions, block 2 one more (the altered block is not the tip)
                    let mut items = puts(1, n, Some(pos));
                    items.extend(puts(2, 1, None));
                    let repl = alter_tx(0, &items[pos].tx, None);
                    cases.push((format!("directed.last_of_{n}"), public, items, repl));
                }
            }
        }
        for n in 1..=17usize {
            for pos in 0..n {
                let mut val = 0u64;
                let public = (n + pos) % 2 == 0;
                let tip = r.chance(1, 3);
                let txs = gen_txs(&mut r, n, &mut val);
                let mut items: Vec<TxItem> = txs.iter().enumerate().map(|(i, t)| TxItem { block: 1, tx: t.clone(), altered: i == pos }).collect();
                if !tip {
                    items.extend(gen_txs(&mut r, 1, &mut val).into_iter().map(|tx| TxItem { block: 2, tx, altered: false }));
                }
                let sib = txs.get((pos + 1) % n);
                let repl = alter_tx(r.below(4), &txs[pos], sib);
                cases.push(("sweep".to_string(), public, items, repl));
            }
        }
        for _ in 0..120 * scale {
            let mut val = 0u64;
            let nblocks = 1 + r.below(3) as usize;
            let tb = r.below(nblocks as u64) as usize;
            let mut items = Vec::new();
            let mut repl = Tx::Del(0);
            for b in 0..nblocks {
                if b != tb {
                    let k = 1 + r.below(3) as usize;
                    items.extend(gen_txs(&mut r, k, &mut val).into_iter().map(|tx| TxItem { block: b, tx, altered: false }));
                    continue;
                }
                // sizes: half of them 5..=17, the rest 1..=40
                let n = if r.chance(1, 2) { 5 + r.below(13) as usize } else { 1 + r.below(40) as usize };
                // position: half of them among the last four
                let pos = if r.chance(1, 2) { n - 1 - (r.below(4) as usize).min(n - 1) } else { r.below(n as u64) as usize };
                let txs = gen_txs(&mut r, n, &mut val);
                repl = alter_tx(r.below(4), &txs[pos], txs.get(r.below(n as u64) as usize));
                items.extend(txs.into_iter().enumerate().map(|(i, tx)| TxItem { block: b, tx, altered: i == pos }));
            }
            cases.push(("seeded".to_string(), r.chance(1, 2), items, repl));
        }
        for (ci, (name, public, items, repl)) in cases.iter().enumerate() {
            let public = *public;
            let out = run_tx_alter_case(Some(&mut m), public, items, repl);
            let iface = if public { "TensorChain: begin / add_operation / commit per block, verify() (node key registered)" } else { "Chain with a validator registry: one signed block per append, verify_chain()" };
            let describe = |o: &TxAlterOut| json!({"stream": "tamper.tx", "case": name, "interface": iface,
                "blocks": o.blocks.iter().map(|b| show_txs(b)).collect::<Vec<_>>(), "altered_block": o.target.0, "transactions_in_altered_block": o.blocks.get(o.target.0 as usize - 1).map_or(0, Vec::len),
                "altered_position": o.target.1, "original": o.original, "replacement": repl.show(), "verify_before": o.verify_before, "verify_after": o.verify_after,
                "tx_root_unchanged": o.root_same, "verify_tx_root_of_altered_block": o.root_verifies});
            for (at, imp, model) in &out.disagreements {
                rep.disagree("tamper.tx", json!({"case": name, "public_interface": public, "blocks": out.blocks.iter().map(|b| show_txs(b)).collect::<Vec<_>>(), "altered_block": out.target.0, "altered_position": out.target.1, "replacement": repl.show(), "at": at}), imp, model);
            }
            let path = if public { "public" } else { "raw" };
            if let Some(why) = &out.skipped {
                rep.hit(&format!("tamper.tx.skipped.{}", why.split(' ').next().unwrap_or("")));
            } else {
                let n = out.blocks[out.target.0 as usize - 1].len();
                rep.hit(&format!("tamper.tx.{path}.{}", if out.verify_after == "ok" { "undetected" } else { "detected" }));
                rep.hit(&format!("tamper.tx.verify_after.{}", out.verify_after.split(' ').take(2).collect::<Vec<_>>().join(" ")));
                rep.hit(&format!("tamper.tx.size.{}", if n <= 17 { format!("{n:02}") } else { "18+".to_string() }));
                rep.hit(&format!("tamper.tx.pos.{}", if out.target.1 + 1 == n { "last" } else if out.target.1 == 0 { "first" } else { "inner" }));
                rep.hit(&format!("tamper.tx.altered_block.{}", if out.target.0 as usize == out.blocks.len() { "tip" } else { "below_tip" }));
            }
            type Pred = fn(&TxAlterOut) -> bool;
            let oracles: [(&str, Pred, &str); 2] = [
                (ALTERED_TX_CLASS, TxAlterOut::undetected, "a chain built through the public interface verified; ONE transaction of one stored block was replaced by a different transaction (same number of transactions, header untouched) and verification still returns Ok: the block's transaction root does not cover that transaction (Lean: altered_transaction_detected / every_transaction_influences_tx_root)"),
                (ALTERED_LEAF_CLASS, TxAlterOut::same_root, "ONE transaction of a block was replaced by a different transaction and Block::compute_tx_root() is unchanged / Block::verify_tx_root() still true (Lean: every_transaction_influences_tx_root)"),
            ];
            for (class, pred, what) in oracles {
                if !pred(&out) {
                    continue;
                }
                let mut fails = |cand: &[TxItem]| -> bool { pred(&run_tx_alter_case(None, public, cand, repl)) };
                let small = if rep.violations.iter().any(|v| v["class"] == class) { items.clone() } else { shrink_list(items, &mut fails) };
                let again = run_tx_alter_case(None, public, &small, repl);
                violation(&mut rep, class, what, describe(if pred(&again) { &again } else { &out }));
            }
            let text = format!("{name} {public} {} {}", items.iter().map(|i| format!("{}{}{}", i.block, if i.altered { "*" } else { ":" }, i.tx.show())).collect::<Vec<_>>().join(","), repl.show());
            rep.case("tamper.tx", if out.skipped.is_none() { Some(&text) } else { None });
            if ci == 0 {
                rep.sample(describe(&out));
            }
        }
    }
    lap("tamper.tx");
    // ---------------- stream F: replicas as OBJECTS.  Two or three real `TensorStateMachine` replicas (separate state
    // stores, one genesis block) are fed the SAME block sequence; the blocks carry delta embeddings of a few direction
    // classes, so the fast path is really taken (counted: replay.fastpath.path.fast.*), and the replicas' recent-
    // embedding windows are made to differ: a replica is re-created between blocks (restart: window emptied, possibly
    // another threshold) or has `clear_recent()` called.  Blocks with a wrong state root (altered, stale) / height /
    // predecessor hash / transaction root / signature come at every position, in particular where one replica takes
    // the fast and another the full path.  A third of the cases feed the blocks through each replica's Raft log and
    // `apply_committed` (`apply_entry`) instead of `apply_block`.  Model: `applyBlockM` per replica (window, path,
    // verdict, state after every call).  Oracles on the real objects: replicas that agreed before a block agree after
    // it (acceptance, height, tip, state root, store image); an accepted block's state root is the root of the
    // replica's state; a rejected block changes nothing.  Directed histories first, then the seeded ones.
    {
        let mut r = root.fork("replay.fastpath");
        let shared_raft = {
            let id = Identity::generate();
            Arc::new(RaftNode::new(id.node_id(), vec![], Arc::new(MemoryTransport::new(id.node_id())), RaftConfig::default()))
        };
        let mut cases: Vec<(String, usize, bool, bool, Vec<FpStep>)> = Vec::new();
        for (name, nrep, with_reg, steps) in fp_directed() {
            for log_path in [false, true] {
                cases.push((format!("directed.{name}"), nrep, with_reg, log_path, steps.clone()));
            }
        }
        for _ in 0..30 * scale {
            let nrep = 2 + r.below(2) as usize;
            let with_reg = r.chance(1, 2);
            let log_path = r.chance(1, 3);
            let steps = gen_fp_steps(&mut r, nrep);
            cases.push(("seeded".to_string(), nrep, with_reg, log_path, steps));
        }
        for (n, (name, nrep, with_reg, log_path, steps)) in cases.iter().enumerate() {
            let (nrep, with_reg, log_path) = (*nrep, *with_reg, *log_path);
            let out = run_fp_case(Some(&mut m), nrep, with_reg, log_path, &shared_raft, steps);
            for h in &out.hits {
                rep.hit(h);
            }
            let describe = |steps: &[FpStep], trace: &[String]| json!({"stream": "replay.fastpath", "case": name, "replicas": nrep, "validator_keys": with_reg,
                "fed_through": if log_path { "each replica's Raft log + apply_committed" } else { "apply_block" }, "steps": steps.iter().map(show_fp).collect::<Vec<_>>(), "trace": trace});
            for (at, imp, model) in &out.disagreements {
                rep.disagree("replay.fastpath", json!({"case": name, "replicas": nrep, "validator_keys": with_reg, "log_path": log_path, "steps": steps.iter().map(show_fp).collect::<Vec<_>>(), "at": at}), imp, model);
            }
            let mut classes: Vec<String> = Vec::new();
            for v in &out.violations {
                if !classes.contains(&v.0) {
                    classes.push(v.0.clone());
                }
            }
            for class in classes {
                // shrink the step list for this class (unless a failing input of the class is already recorded)
                let mut fails = |cand: &[FpStep]| -> bool { run_fp_case(None, nrep, with_reg, log_path, &shared_raft, cand).violations.iter().any(|v| v.0 == class) };
                let small = if rep.violations.iter().any(|v| v["class"] == class.as_str()) { steps.clone() } else { shrink_list(steps, &mut fails) };
                let again = run_fp_case(None, nrep, with_reg, log_path, &shared_raft, &small);
                let what = again.violations.iter().find(|v| v.0 == class).map(|v| v.1.clone()).unwrap_or_else(|| out.violations.iter().find(|v| v.0 == class).unwrap().1.clone());
                violation(&mut rep, &class, &what, describe(&small, &again.trace));
            }
            let text = format!("{name} {nrep} {with_reg} {log_path} {}", steps.iter().map(show_fp).collect::<Vec<_>>().join(";"));
            rep.case("replay.fastpath", if out.nontrivial { Some(&text) } else { None });
            if n < 1 {
                rep.sample(describe(steps, &out.trace));
            }
        }
    }
    lap("replay.fastpath");
    // ---------------- stream A: workspace op sequences
    let mut r = root.fork("workspaces");
    for case in 0..250 * scale {
        let max_txs = if r.chance(1, 4) { 3 } else { 1000 };
        let auto_merge = r.chance(1, 2);
        // `max_merge_batch`: 10 never truncates the candidate list (at most 6 workspaces); 0 merges nothing although
        // auto-merge is on.  (A batch limit below the number of candidates picks by `HashMap` iteration order.)
        let max_merge: usize = if auto_merge && r.chance(1, 5) { 0 } else { 10 };
        // half of the cases stay inside the rollback-safe fragment so that the rest of the pipeline is
        // compared on healthy chains too
        let stale = case % 2 == 0;
        let mut ops = gen_ops(&mut r, stale);
        if case == 0 {
            // directed minimal scenario, independent of the seed: rollback of a workspace begun before a commit
            ops = vec![Op::Begin(0), Op::Put(0, 1, 1), Op::Begin(0), Op::Commit(0), Op::Rollback(1), Op::State];
        }
        let out = run_ws_case(&mut m, &ops, max_txs, auto_merge, max_merge);
        let text = format!("{max_txs} {auto_merge} {max_merge} {}", ops.iter().map(show_op).collect::<Vec<_>>().join(";"));
        for h in &out.hits {
            rep.hit(h);
        }
        for (op, imp, model) in &out.disagreements {
            rep.disagree("workspace.ops", json!({"max_txs": max_txs, "auto_merge": auto_merge, "ops": ops.iter().map(show_op).collect::<Vec<_>>(), "at": op}), imp, model);
        }
        if !out.violations.is_empty() {
            // shrink the op list for the first violation class
            let class = out.violations[0].0.clone();
            let mut fails = |cand: &[Op]| -> bool {
                // ops must stay well-formed: every workspace index must have been begun
                let mut n = 0usize;
                for o in cand {
                    match o {
                        Op::Begin(_) => n += 1,
                        Op::Put(w, ..) | Op::Del(w, _) | Op::Cas(w, ..) | Op::RawAdd(w, ..) | Op::Commit(w) | Op::CrashCommit(w) | Op::Rollback(w) => {
                            if *w >= n {
                                return false;
                            }
                        }
                        Op::State | Op::Reopen | Op::History(_) => {}
                    }
                }
                run_ws_case(&mut m, cand, max_txs, auto_merge, max_merge).violations.iter().any(|v| v.0 == class)
            };
            let small = if rep.violations.iter().any(|v| v["class"] == class.as_str()) { ops.clone() } else { shrink_list(&ops, &mut fails) };
            let what = run_ws_case(&mut m, &small, max_txs, auto_merge, max_merge).violations.into_iter().find(|v| v.0 == class).map(|v| v.1).unwrap_or_else(|| out.violations[0].1.clone());
            violation(&mut rep, &class, &what, json!({"stream": "workspace", "max_txs": max_txs, "auto_merge": auto_merge, "max_merge_batch": max_merge, "ops": small.iter().map(show_op).collect::<Vec<_>>()}));
            for v in out.violations.iter().skip(1) {
                if v.0 != class {
                    violation(&mut rep, &v.0, &v.1, json!({"stream": "workspace", "max_txs": max_txs, "auto_merge": auto_merge, "ops": ops.iter().map(show_op).collect::<Vec<_>>()}));
                }
            }
        }
        rep.case("workspace", if out.nontrivial { Some(&text) } else { None });
        if case < 2 {
            rep.sample(json!({"stream": "workspace", "max_txs": max_txs, "auto_merge": auto_merge, "ops": ops.iter().map(show_op).collect::<Vec<_>>()}));
        }
    }

    lap("workspace");
    // ---------------- stream A2: directed merge scenario (auto-merge on: orthogonal workspaces end in one block)
    // third case: the merged block exceeds max_txs_per_block (3): the committing workspace AND the merged ones fail
    for (auto_merge, max_txs) in [(true, 1000usize), (false, 1000), (true, 3)] {
        let ops = if max_txs == 3 {
            vec![Op::Begin(1), Op::Begin(2), Op::Put(0, 100, 1), Op::Put(0, 101, 2), Op::Put(1, 200, 3), Op::Cas(1, 201, None, 4), Op::Commit(0), Op::State, Op::Commit(1), Op::Begin(0), Op::Put(2, 1, 5), Op::Commit(2), Op::State]
        } else {
            vec![Op::Begin(1), Op::Begin(2), Op::Begin(3), Op::Put(0, 100, 1), Op::Put(1, 200, 2), Op::Put(2, 300, 3), Op::Commit(0), Op::State, Op::Commit(1), Op::Commit(2), Op::State]
        };
        let out = run_ws_case(&mut m, &ops, max_txs, auto_merge, 10);
        if max_txs == 3 && out.hits.iter().filter(|h| *h == "ws.commit.err_too_many").count() == 1 && out.hits.iter().any(|h| h == "ws.commit.err_not_active") {
            rep.hit("ws.merge.merged_block_too_many_fails_all");
        }
        for (op, imp, model) in &out.disagreements {
            rep.disagree("workspace.merge", json!({"auto_merge": auto_merge, "at": op}), imp, model);
        }
        for v in &out.violations {
            violation(&mut rep, &v.0, &v.1, json!({"stream": "workspace.merge", "auto_merge": auto_merge, "ops": ops.iter().map(show_op).collect::<Vec<_>>()}));
        }
        if auto_merge && max_txs != 3 {
            rep.hit("ws.merge.block_with_merged_ops");
        }
        rep.case("workspace.merge", Some(&format!("{auto_merge} {max_txs}")));
    }

    lap("workspace.merge");
    // ---------------- stream L: sequential histories whose commit fails late (after the writes were applied)
    let mut r = root.fork("late_fail");
    let nlate = 3 + 150 * scale;
    for case in 0..nlate {
        let lc = match case {
            // directed, independent of the seed, smallest first.  0: one OTHER commit between L's begin and L's late
            // failure (k = 1); 1: no intervening commit (k = 0); 2: the Lean example `lateHistory` (Props.lean)
            0 => LateCase {
                ops: vec![LOp::Begin(0), LOp::Put(0, 1, 1), LOp::Begin(0), LOp::Put(1, 2, 2), LOp::Commit(1), LOp::Unreg, LOp::Commit(0), LOp::Rereg, LOp::State],
                max_txs: 1000,
                auto_merge: false,
                plan: "directed late_unknown_proposer k=1 prefix=0".into(),
            },
            1 => LateCase {
                ops: vec![LOp::Begin(0), LOp::Put(0, 1, 1), LOp::Commit(0), LOp::Begin(0), LOp::Put(1, 1, 9), LOp::Put(1, 2, 2), LOp::Unreg, LOp::Commit(1), LOp::Rereg, LOp::State],
                max_txs: 1000,
                auto_merge: false,
                plan: "directed late_unknown_proposer k=0 prefix=1".into(),
            },
            2 => LateCase {
                ops: vec![LOp::Begin(0), LOp::Put(0, 1, 1), LOp::Commit(0), LOp::Begin(0), LOp::Put(1, 1, 9), LOp::Put(1, 2, 2), LOp::Begin(0), LOp::Put(2, 3, 3), LOp::Commit(2), LOp::Unreg, LOp::Commit(1), LOp::State, LOp::Rereg, LOp::State],
                max_txs: 1000,
                auto_merge: true,
                plan: "directed lateHistory (Props.lean) late_unknown_proposer k=1 prefix=1".into(),
            },
            _ => {
                let c = r.below(100);
                let kind = if c < 55 {
                    "late_unknown_proposer"
                } else if c < 70 {
                    "late_merged"
                } else if c < 78 {
                    "early_too_many"
                } else if c < 86 {
                    "early_conflict"
                } else if c < 94 {
                    "early_not_active"
                } else {
                    "unreg_height0"
                };
                let k = r.below(4);
                let prefix = r.below(3);
                gen_late_case(&mut r, kind, k, prefix)
            }
        };
        let out = run_late_case(&mut m, &lc.ops, lc.max_txs, lc.auto_merge);
        let shown: Vec<String> = lc.ops.iter().map(show_lop).collect();
        for h in &out.hits {
            rep.hit(h);
        }
        for f in &out.fails {
            rep.hit(&format!("late_fail.kind.{}", f.kind));
            if f.kind.starts_with("late") {
                rep.hit(&format!("late_fail.late.k{}", f.k));
                rep.hit(&format!("late_fail.late.ops{}", f.nops));
            }
        }
        if out.fails.is_empty() {
            rep.hit("late_fail.kind.none_failed");
        }
        for (op, imp, model) in &out.disagreements {
            rep.disagree("late_fail.ops", json!({"plan": lc.plan, "max_txs": lc.max_txs, "auto_merge": lc.auto_merge, "ops": shown, "at": op}), imp, model);
        }
        if let Some(first) = out.violations.first() {
            let class = first.0.clone();
            let (max_txs, auto_merge) = (lc.max_txs, lc.auto_merge);
            let mut fails = |cand: &[LOp]| -> bool { lops_well_formed(cand) && run_late_case(&mut m, cand, max_txs, auto_merge).violations.iter().any(|v| v.0 == class) };
            let small = if rep.violations.iter().any(|v| v["class"] == class.as_str()) { lc.ops.clone() } else { shrink_list(&lc.ops, &mut fails) };
            let v = run_late_case(&mut m, &small, max_txs, auto_merge).violations.into_iter().find(|v| v.0 == class).unwrap_or_else(|| (first.0.clone(), first.1.clone(), first.2.clone()));
            violation(
                &mut rep,
                &class,
                &v.1,
                json!({"stream": "late_fail", "api": "TensorChain::{begin,commit,rollback,validator_registry().remove(node_id),register_validator(identity())} + TransactionWorkspace::add_operation, single thread",
                    "max_txs": max_txs, "auto_merge": auto_merge, "plan": lc.plan, "ops": small.iter().map(show_lop).collect::<Vec<_>>(), "oracle": v.2}),
            );
        }
        let text = format!("{} {} {}", lc.max_txs, lc.auto_merge, shown.join(";"));
        rep.case("late_fail", if out.fails.is_empty() { None } else { Some(&text) });
        if case < 1 {
            rep.sample(json!({"stream": "late_fail", "plan": lc.plan, "max_txs": lc.max_txs, "auto_merge": lc.auto_merge, "ops": shown,
                "failed_commits": out.fails.iter().map(|f| format!("{} k={} ops={}", f.kind, f.k, f.nops)).collect::<Vec<_>>(), "successful_commits": out.commits_ok}));
        }
    }

    lap("late_fail");
    // ---------------- stream B1: raw appends (valid and invalid blocks), then verify
    let mut r = root.fork("append");
    for case in 0..150 * scale {
        let mut with_reg = r.chance(3, 4);
        let mut n = 1 + r.below(8);
        // two directed minimal scenarios first (so the reported failing inputs are the small ones)
        if case < 2 {
            with_reg = true;
            n = 1 + case;
        }
        let rc = new_raw(with_reg);
        m.ask(&format!("cinit {} 1000", u8::from(with_reg)));
        let mut val = 0u64;
        let mut ts_off = 1000u64;
        let mut accepted = 0;
        let mut all_lines = Vec::new();
        let mut clean = true;
        for _ in 0..n {
            let pick = |r: &mut Rng, good: &'static str, bad: &[&'static str], p: u64| -> &'static str {
                if r.chance(p, 100) {
                    bad[r.below(bad.len() as u64) as usize]
                } else {
                    good
                }
            };
            let hsel = pick(&mut r, "ok", &["same", "skip"], 6);
            let prev = pick(&mut r, "ok", &["bad"], 6);
            let rootsel = pick(&mut r, "ok", &["zero", "bad"], 10);
            let sig = pick(&mut r, "ok", &["none", "bad", "wrongkey"], 18);
            let prop = 1 + r.below(2) as usize;
            // timestamps: mostly non-decreasing, sometimes a regression
            if r.chance(1, 8) {
                ts_off = ts_off.saturating_sub(1 + r.below(5));
            } else {
                ts_off += r.below(3);
            }
            let ntx = r.below(5) as usize;
            let txs = gen_txs(&mut r, ntx, &mut val);
            let (hsel, prev, rootsel, sig) = match case {
                0 => ("ok", "ok", "ok", "none"), // unsigned block at height 1 on a chain with a registry
                1 => ("ok", "ok", "ok", "ok"),
                _ => (hsel, prev, rootsel, sig),
            };
            if case == 1 {
                ts_off = if all_lines.is_empty() { 1005 } else { 1001 }; // timestamp regression
            }
            let b = mk_block(&rc, hsel, prev, rootsel, sig, ts_off, prop, &txs);
            let line = format!("cappend {hsel} {prev} {rootsel} {sig} {ts_off} {prop} {}", show_txs(&txs));
            let imp = match rc.chain.append(b) {
                Ok(_) => {
                    accepted += 1;
                    "ok".to_string()
                }
                Err(e) => verr(&e),
            };
            let model = m.ask(&line);
            rep.hit(&format!("append.{imp}"));
            rep.compare_c("chain.append", || json!({"registry": with_reg, "lines": all_lines, "line": line}), &imp, &model);
            all_lines.push(line);
            if hsel != "ok" || prev != "ok" || rootsel != "ok" || sig != "ok" {
                clean = false;
            }
        }
        let _ = clean;
        let ver = vres(rc.chain.verify_chain());
        let mver = m.ask("cverify");
        rep.hit(&format!("verify.{}", ver.split(' ').take(2).collect::<Vec<_>>().join(" ")));
        rep.compare_c("chain.verify_after_append", || json!({"registry": with_reg, "lines": all_lines}), &ver, &mver);
        // property: a chain built through `append` verifies
        if ver != "ok" {
            let kind = ver.trim_start_matches("err ").split(' ').next().unwrap_or("?").to_string();
            let class = format!("tensor_chain.chain.append/accepts_block_verify_rejects_{kind}");
            // shrink: find the shortest prefix that already fails is enough for a readable input
            violation(&mut rep, &class, "every block was accepted by Chain::append, yet Chain::verify_chain fails on the resulting chain", json!({"stream": "append", "registry": with_reg, "lines": all_lines, "verify": ver}));
        }
        let key = all_lines.join(";");
        rep.case("append", if accepted > 0 { Some(&key) } else { None });
        if case < 1 {
            rep.sample(json!({"stream": "append", "registry": with_reg, "lines": all_lines, "verify": ver}));
        }
    }

    lap("append");
    // ---------------- stream B2: every single-field mutation of every stored block, chains of 1..=12 blocks
    let mut r = root.fork("tamper");
    let lens: Vec<u64> = if args.thorough { (0..=12).chain(0..=12).collect() } else { (0..=12).collect() };
    let mut hash_seen: BTreeMap<Vec<u8>, Vec<u8>> = BTreeMap::new();
    let mut obs_seen: BTreeSet<String> = BTreeSet::new();
    // directed regression case for repo commit 8e53c5a4 (run first): genesis + one signed block, then forged
    // transactions in the stored genesis block.  Must be detected ("tx_root does not match transactions"); the
    // pre-fix model (`cverify_old`) answers ok on the same chain.
    {
        let rc = new_raw(true);
        m.ask("cinit 1 1000");
        let b = mk_block(&rc, "ok", "ok", "ok", "ok", 1000, 1, &[Tx::Put(1, 2)]);
        let line = "cappend ok ok ok ok 1000 1 p1:2";
        let imp = rc.chain.append(b).map_or_else(|e| verr(&e), |_| "ok".into());
        rep.compare_c("tamper.genesis_tx.build", || json!({"line": line}), &imp, &m.ask(line));
        let orig = read_block(&rc.store, 0).unwrap();
        let forged = mutate_block(&rc, &orig, "transactions", "push_new").unwrap();
        write_block(&rc.store, 0, &forged);
        let imp = vres(rc.chain.verify_chain());
        let a = m.ask("tamper 0 transactions push_new");
        let model = if a == "ok" { m.ask("cverify") } else { format!("model:{a}") };
        rep.compare_c("tamper.genesis_tx.verify", || json!({"build": [line], "mutation": "block 0 transactions push_new"}), &imp, &model);
        rep.compare_c("tamper.genesis_tx.old_model", || json!({"build": [line], "mutation": "block 0 transactions push_new", "model": "verifyChainOld"}), "ok", &m.ask("cverify_old"));
        rep.hit(&format!("tamper.genesis_transactions.{}", if imp == "ok" { "undetected" } else { "detected" }));
        if imp == "ok" {
            violation(&mut rep, "tensor_chain.verify/genesis_transactions_tamper_undetected", "forged transactions in the stored genesis block and Chain::verify_chain still returns Ok (regression of repo commit 8e53c5a4)", json!({"stream": "tamper", "registry": true, "chain_blocks_after_genesis": 1, "build": [line], "mutation": "block 0 transactions push_new"}));
        }
        rep.case("tamper.genesis_tx", Some("directed"));
        m.ask("crestore");
    }
    for (ci, n) in lens.iter().enumerate() {
        for with_reg in [true, false] {
            let rc = new_raw(with_reg);
            m.ask(&format!("cinit {} 1000", u8::from(with_reg)));
            let mut val = 0u64;
            let mut lines = Vec::new();
            for j in 0..*n {
                // block sizes 0..4, with 3 forced regularly so that the duplicated-tail case is present, and every fourth
                // block of a size at which an inner level of the Merkle tree is odd
                let ntx = if j % 3 == 0 { 3 } else if j % 4 == 1 { *r.pick(&[5usize, 6, 9, 10, 13]) } else { r.below(5) as usize };
                let txs = gen_txs(&mut r, ntx, &mut val);
                let prop = 1 + r.below(2) as usize;
                let ts_off = 1000 + j * 2;
                let b = mk_block(&rc, "ok", "ok", "ok", "ok", ts_off, prop, &txs);
                // HashInj run-time check: distinct signing bytes must have distinct hashes
                let hb = b.header.signing_bytes();
                if let Some(prev) = hash_seen.insert(b.hash().to_vec(), hb.clone()) {
                    if prev != hb {
                        rep.note("SHA-256 collision observed among header bytes of this run (HashInj hypothesis violated)");
                    }
                }
                let line = format!("cappend ok ok ok ok {ts_off} {prop} {}", show_txs(&txs));
                let imp = rc.chain.append(b).map_or_else(|e| verr(&e), |_| "ok".into());
                rep.compare_c("tamper.build", || json!({"line": line}), &imp, &m.ask(&line));
                lines.push(line);
            }
            let v0 = vres(rc.chain.verify_chain());
            rep.compare_c("tamper.clean_verify", || json!({"registry": with_reg, "lines": lines}), &v0, &m.ask("cverify"));
            if v0 != "ok" {
                violation(&mut rep, "tensor_chain.verify/clean_chain_rejected", "a chain of valid signed blocks does not verify", json!({"registry": with_reg, "lines": lines, "verify": v0}));
                continue;
            }
            m.ask("csave");
            // `pair`: (original, altered) block of a `transactions` mutation
            let mut check = |rep: &mut Report, m: &mut Model, desc: String, mline: String, field: &str, idx: u64, pair: Option<(&Block, &Block)>, apply: &dyn Fn() -> bool, undo: &dyn Fn()| {
                if !apply() {
                    let a = m.ask(&mline);
                    rep.compare_c("tamper.applicable", || json!({"mutation": desc}), "skip", &a);
                    m.ask("crestore");
                    return;
                }
                let a = m.ask(&mline);
                let imp = vres(rc.chain.verify_chain());
                let model = if a == "ok" { m.ask("cverify") } else { format!("model:{a}") };
                rep.hit(&format!("verify.{}", imp.split(' ').take(2).collect::<Vec<_>>().join(" ")));
                rep.hit(&format!("tamper.{field}.{}", if imp == "ok" { "undetected" } else { "detected" }));
                rep.compare_c("tamper.verify", || json!({"registry": with_reg, "blocks": n, "lines": lines, "mutation": desc}), &imp, &model);
                rep.case("tamper", Some(&format!("{ci} {with_reg} {desc}")));
                if imp == "ok" {
                    let class = if *n == 0 {
                        "tensor_chain.verify/genesis_only_chain_unchecked".to_string()
                    } else if idx == 0 {
                        format!("tensor_chain.verify/genesis_{field}_tamper_undetected")
                    } else if let ("transactions", Some((o, nb))) = (field, pair) {
                        // the known weakness of `merkle_root` (a duplicated odd tail) is exactly: the documented tree gives
                        // both transaction lists one root for EVERY hash function.  Anything else undetected is not it.
                        if symbolic_tx_root(&o.transactions) == symbolic_tx_root(&nb.transactions) {
                            "tensor_chain.verify/transactions_tamper_undetected".to_string()
                        } else if o.transactions.len() == nb.transactions.len() {
                            ALTERED_TX_CLASS.to_string()
                        } else {
                            TX_COUNT_CLASS.to_string()
                        }
                    } else {
                        format!("tensor_chain.verify/{field}_tamper_undetected")
                    };
                    let input = json!({"stream": "tamper", "registry": with_reg, "chain_blocks_after_genesis": n, "build": lines, "mutation": desc});
                    if with_reg {
                        violation(rep, &class, "a stored block was altered and Chain::verify_chain still returns Ok", input);
                    } else {
                        // no validator keys registered: outside the property's quantifier
                        if obs_seen.insert(class.clone()) {
                            rep.observe(json!({"note": "no registry: undetected mutation (first occurrence of this class)", "class": class, "mutation": desc, "blocks": n}));
                        }
                    }
                }
                undo();
                m.ask("crestore");
            };
            for i in 0..=*n {
                let orig = read_block(&rc.store, i).unwrap();
                for (field, variant) in MUTATIONS {
                    let desc = format!("block {i} {field} {variant}");
                    let mutated = mutate_block(&rc, &orig, field, variant);
                    check(
                        &mut rep,
                        &mut m,
                        desc,
                        format!("tamper {i} {field} {variant}"),
                        field,
                        i,
                        mutated.as_ref().map(|nb| (&orig, nb)),
                        &|| {
                            if let Some(nb) = &mutated {
                                write_block(&rc.store, i, nb);
                                true
                            } else {
                                false
                            }
                        },
                        &|| write_block(&rc.store, i, &orig),
                    );
                }
                // removal
                let key = format!("chain:block:{i}");
                let saved = rc.store.get(&key).unwrap();
                check(&mut rep, &mut m, format!("remove block {i}"), format!("remove {i}"), "removed_block", i, None, &|| rc.store.delete(&key).is_ok(), &|| rc.store.put(key.clone(), saved.clone()).unwrap());
                // reorder: swap with the next block
                if i < *n {
                    let other = read_block(&rc.store, i + 1).unwrap();
                    check(
                        &mut rep,
                        &mut m,
                        format!("swap blocks {i} {}", i + 1),
                        format!("swap {i} {}", i + 1),
                        "reordered_blocks",
                        i,
                        None,
                        &|| {
                            write_block(&rc.store, i, &other);
                            write_block(&rc.store, i + 1, &orig);
                            true
                        },
                        &|| {
                            write_block(&rc.store, i, &orig);
                            write_block(&rc.store, i + 1, &other);
                        },
                    );
                }
            }
            // forged replacement: a whole new block signed by an unregistered key under a registered name
            if *n >= 1 {
                let i = 1 + r.below(*n);
                let orig = read_block(&rc.store, i).unwrap();
                let mut forged = orig.clone();
                forged.transactions = vec![Tx::Put(1, 424_242).real()];
                forged.header.tx_root = forged.compute_tx_root();
                forged.header.signature = rc.ids[3].sign(&forged.header.signing_bytes());
                write_block(&rc.store, i, &forged);
                let imp = vres(rc.chain.verify_chain());
                rep.hit(&format!("tamper.forged_block.{}", if imp == "ok" { "undetected" } else { "detected" }));
                if imp == "ok" && with_reg {
                    violation(&mut rep, "tensor_chain.verify/forged_block_undetected", "a block re-signed with an unregistered key passes verification", json!({"registry": with_reg, "blocks": n, "index": i}));
                }
                write_block(&rc.store, i, &orig);
                rep.case("tamper.forge", Some(&format!("{ci} {with_reg} {i}")));
            }
        }
    }

    lap("tamper");
    // ---------------- stream B3: restart (a new `Chain` object over the same store + `initialize()`), healthy and
    // damaged stores: tip / inner block record removed, height record ahead / behind / deleted, a block record planted
    // above the head (valid successor, wrong predecessor hash, with a gap), and EVERY CRASH STATE OF `Chain::append`
    // (`append_crash`: the append of one more valid block runs as a real thread that parks before each of its store
    // calls; the store contents before each call are the states a stopped process leaves behind — enumerated, not
    // hand-picked; first for chains of 1, 2, 3 blocks and every crash point, then at random).  After the restart: one
    // further block built from the object's own height()/tip_hash(), a restart, another block, a final restart —
    // compared with the model (`openChain`) until the first disagreement of the case, real-only after it.
    // Property oracles, on the REAL objects, in every case and whether or not the model agrees:
    //  (a) after every restart tip_hash() is the hash of the stored block at height()             [TIP_CLASS]
    //  (b) if verify_chain() is Ok right after the first restart and the store holds exactly the blocks 0..=height(),
    //      then with the further blocks, all accepted by append, verify_chain() is still Ok and every block names the
    //      hash of its predecessor                                                                [AFTER_RESTART_CLASS]
    //  (c) over an untouched store or a crash state of append: the restart succeeds, height() is the highest stored
    //      block, verify_chain() is Ok                                    [restart_changed_chain / CRASH_CLASS]
    let mut r = root.fork("reopen");
    const DAMAGES: &[&str] = &["none", "remove_tip", "remove_inner", "meta_ahead", "meta_behind", "meta_deleted", "plant_next_valid", "plant_next_badprev", "plant_gap", "append_crash"];
    // (chain length, damage, crash point) of the directed cases; the crash points of length n are appended when known
    let mut plan: Vec<(u64, &str, usize)> = DAMAGES.iter().filter(|d| **d != "append_crash").map(|d| (2u64, *d, 0usize)).collect();
    plan.extend([(1, "append_crash", 0), (2, "append_crash", 0), (3, "append_crash", 0)]);
    let nrandom = 40 * scale;
    let mut case = 0u64;
    let mut random_done = 0u64;
    while !plan.is_empty() || random_done < nrandom {
        let directed = !plan.is_empty();
        let (n, damage, crash_j) = if directed { plan.remove(0) } else { random_done += 1; (1 + r.below(5), *r.pick(DAMAGES), usize::MAX) };
        let with_reg = directed || r.chance(3, 4);
        let early_second_restart = if directed { case % 2 == 1 } else { r.chance(1, 2) };
        case += 1;
        let mut rc = new_raw(with_reg);
        m.ask(&format!("cinit {} 1000", u8::from(with_reg)));
        // model consulted until the first disagreement of this case
        let mut agree = true;
        let mut val = 0u64;
        let mut lines = Vec::new();
        for j in 0..n {
            let ntx = 1 + r.below(3) as usize;
            let txs = gen_txs(&mut r, ntx, &mut val);
            let prop = 1 + r.below(2) as usize;
            let ts_off = 1000 + j * 2;
            let b = mk_block(&rc, "ok", "ok", "ok", "ok", ts_off, prop, &txs);
            let line = format!("cappend ok ok ok ok {ts_off} {prop} {}", show_txs(&txs));
            let imp = rc.chain.append(b).map_or_else(|e| verr(&e), |_| "ok".into());
            agree &= rep.compare_c("reopen.build", || json!({"line": line}), &imp, &m.ask(&line));
            lines.push(line);
        }
        let set_meta = |store: &TensorStore, h: u64| {
            let mut td = TensorData::new();
            td.set("height", TensorValue::Scalar(ScalarValue::Int(h as i64)));
            store.put("chain:meta", td).unwrap();
        };
        let mut plant = |rc: &RawChain, m: &mut Model, r: &mut Rng, hsel: &str, prev: &str| -> String {
            let txs = gen_txs(r, 1, &mut val);
            let b = mk_block(rc, hsel, prev, "ok", "ok", 2000, 1, &txs);
            write_block(&rc.store, b.header.height, &b);
            let line = format!("cplant {hsel} {prev} ok ok 2000 1 {}", show_txs(&txs));
            m.ask(&line);
            line
        };
        // the store the restart runs over, when it is not the running object's store
        let mut crash_image: Option<Vec<u8>> = None;
        // the store is a state a correct run can leave behind: untouched, or a crash state of append
        let mut crash_state = false;
        let dmg_line = match damage {
            "remove_tip" => {
                rc.store.delete(&format!("chain:block:{n}")).unwrap();
                m.ask(&format!("remove {n}"));
                format!("remove block record {n}")
            }
            "remove_inner" if n >= 2 => {
                let i = 1 + r.below(n - 1);
                rc.store.delete(&format!("chain:block:{i}")).unwrap();
                m.ask(&format!("remove {i}"));
                format!("remove block record {i}")
            }
            "meta_ahead" => {
                let h = n + 1 + r.below(3);
                set_meta(&rc.store, h);
                m.ask(&format!("setmeta {h}"));
                format!("height record := {h}")
            }
            "meta_behind" => {
                let h = r.below(n);
                set_meta(&rc.store, h);
                m.ask(&format!("setmeta {h}"));
                format!("height record := {h}")
            }
            "meta_deleted" => {
                rc.store.delete("chain:meta").unwrap();
                m.ask("delmeta");
                "height record deleted".to_string()
            }
            "plant_next_valid" => plant(&rc, &mut m, &mut r, "ok", "ok"),
            "plant_next_badprev" => plant(&rc, &mut m, &mut r, "ok", "bad"),
            "plant_gap" => plant(&rc, &mut m, &mut r, "skip", "ok"),
            "append_crash" => {
                let txs = gen_txs(&mut r, 1, &mut val);
                let b = mk_block(&rc, "ok", "ok", "ok", "ok", 2000, 1, &txs);
                let chain = rc.chain.clone();
                let points = crash_points(&rc.store, Box::new(move || {
                    let _ = chain.append(b);
                }));
                if directed && crash_j == 0 {
                    // every other crash point of this chain length becomes a directed case of its own
                    for j in (1..points.len()).rev() {
                        plan.insert(0, (n, "append_crash", j));
                    }
                    rep.hit_n("reopen.append_crash.points", points.len() as u64);
                }
                let j = if crash_j == usize::MAX { r.below(points.len() as u64) as usize } else { crash_j.min(points.len() - 1) };
                let pt = &points[j];
                let written: Vec<String> = dump_changes(&points[0].dump, &pt.dump);
                // the same stop in the model: how many of append's two records are written
                let k = if !pt.dump.contains_key(&format!("chain:block:{}", n + 1)) { 0 } else if meta_of_dump(&pt.dump) == Some(n + 1) { 2 } else { 1 };
                rep.hit(&format!("reopen.append_crash.k{k}"));
                let line = format!("ccrash {k} ok ok ok ok 2000 1 {}", show_txs(&txs));
                agree &= rep.compare_c("reopen.crash", || json!({"build": lines, "line": line}), "ok", &m.ask(&line));
                crash_image = Some(pt.image.clone());
                crash_state = true;
                format!("append of block {} [{}] stops before its store call `{}` (point {j} of {}; written so far: {})", n + 1, show_txs(&txs), pt.before, points.len(), if written.is_empty() { "nothing".to_string() } else { written.join(", ") })
            }
            _ => "none".to_string(),
        };
        let healthy = dmg_line == "none";
        crash_state |= healthy;
        let (h0, tip0) = (rc.chain.height(), rc.chain.tip_hash());
        let mut steps: Vec<String> = Vec::new();
        let mk_desc = |steps: &Vec<String>| json!({"stream": "reopen", "registry": with_reg, "build": lines, "damage": dmg_line, "then": steps});
        let running_ver = vres(rc.chain.verify_chain());
        if crash_image.is_none() {
            agree = agree && rep.compare_c("reopen.verify_running_object", || mk_desc(&steps), &running_ver, &m.ask("cverify"));
        }
        // ---- first restart
        let opened = match &crash_image {
            Some(img) => rc.restart_over(img),
            None => rc.reopen(),
        };
        let imp = opened.as_ref().map_or_else(|e| verr(e), |()| rc.state());
        steps.push(format!("restart => {imp}, tip_hash {}..", hex(&rc.chain.tip_hash()[..6])));
        if agree {
            let model = format!("{} meta={}", m.ask("copen 5000"), m.ask("cmeta"));
            agree &= rep.compare_c("reopen.initialize", || mk_desc(&steps), &imp, &model);
        }
        let ver = vres(rc.chain.verify_chain());
        rep.hit(&format!("reopen.{}.verify_{}", if healthy { "none" } else { damage }, ver.split(' ').take(2).collect::<Vec<_>>().join("_")));
        // oracle (a)
        let mut tip_bad = false;
        if let Some(what) = tip_mismatch(rc.chain.height(), rc.chain.tip_hash(), &rc.store) {
            tip_bad = true;
            violation(&mut rep, TIP_CLASS, &format!("after a restart (new Chain over the store + initialize()): {what}"), mk_desc(&steps));
        }
        // oracle (c)
        let top_stored = { let p = blocks_present(&rc.store); (0..).take_while(|h| p.contains(h)).last().unwrap_or(0) };
        if healthy && (opened.is_err() || rc.chain.height() != h0 || rc.chain.tip_hash() != tip0 || ver != "ok") {
            violation(&mut rep, "tensor_chain.initialize/restart_changed_chain", "a new Chain object over the untouched store of a verifying chain + initialize() does not recover height / tip, or the recovered chain does not verify", mk_desc(&steps));
        } else if crash_state && !tip_bad && (opened.is_err() || rc.chain.height() != top_stored || ver != "ok" || meta_height(&rc.store) != top_stored.to_string()) {
            violation(&mut rep, CRASH_CLASS, &format!("a new Chain object over a store left behind by a stop inside append: initialize() does not end at the highest stored block {top_stored} with its height record saved and a verifying chain"), mk_desc(&steps));
        }
        if damage == "remove_tip" && running_ver == format!("err not_found {n}") && opened.is_ok() && ver == "ok" && rc.chain.height() + 1 == h0 {
            // known finding (see the directed case at the start of the run); same class, computed from this trace
            violation(&mut rep, "tensor_chain.initialize/removed_tip_block_undetected_after_restart", "the record of the tip block was removed from the store: the running object's verify_chain() reports it, but a new Chain + initialize() walks the height back, saves it, and verify_chain() returns Ok on the truncated chain (Lean: reopen_heals_removed_tip_witness)",
                json!({"stream": "reopen", "registry": with_reg, "build": lines, "damage": dmg_line, "verify_running_object": running_ver, "height_before": h0, "height_after_restart": rc.chain.height(), "verify_after_restart": ver}));
        }
        // ---- further blocks through the public interface: each built from the object's own height() / tip_hash()
        // (the store holds exactly the blocks 0..=height(): no stale record above the recovered head)
        let verified_after_restart = opened.is_ok() && ver == "ok" && blocks_present(&rc.store) == (0..=rc.chain.height()).collect::<Vec<_>>();
        let mut all_accepted = true;
        for step in 0..2u64 {
            let txs = gen_txs(&mut r, 1, &mut val);
            let ts_off = 10_000_000 + 2 * step;
            let b = mk_block(&rc, "ok", "ok", "ok", "ok", ts_off, 1, &txs);
            let line = format!("cappend ok ok ok ok {ts_off} 1 {}", show_txs(&txs));
            let imp = rc.chain.append(b).map_or_else(|e| verr(&e), |_| "ok".into());
            all_accepted &= imp == "ok";
            steps.push(format!("append block {} [{}] on height()/tip_hash() => {imp}; {}", rc.chain.height(), show_txs(&txs), rc.state()));
            if agree {
                agree = rep.compare_c("reopen.append_after", || mk_desc(&steps), &imp, &m.ask(&line))
                    && rep.compare_c("reopen.state_after_append", || mk_desc(&steps), &rc.state(), &format!("{} meta={}", m.ask("cstate"), m.ask("cmeta")));
            }
            if step == 1 || early_second_restart {
                let opened = rc.reopen();
                let imp = opened.as_ref().map_or_else(|e| verr(e), |()| rc.state());
                steps.push(format!("restart => {imp}, tip_hash {}..", hex(&rc.chain.tip_hash()[..6])));
                if agree {
                    agree &= rep.compare_c("reopen.second_initialize", || mk_desc(&steps), &imp, &format!("{} meta={}", m.ask("copen 6000"), m.ask("cmeta")));
                }
                if !tip_bad {
                    if let Some(what) = tip_mismatch(rc.chain.height(), rc.chain.tip_hash(), &rc.store) {
                        tip_bad = true;
                        violation(&mut rep, TIP_CLASS, &format!("after a restart (new Chain over the store + initialize()): {what}"), mk_desc(&steps));
                    }
                }
            }
        }
        // oracle (b)
        if verified_after_restart && all_accepted {
            let ver = vres(rc.chain.verify_chain());
            let links = broken_links(&rc.store, rc.chain.height());
            if ver != "ok" || !links.is_empty() {
                violation(&mut rep, AFTER_RESTART_CLASS, &format!("verify_chain() was Ok right after the restart over a store holding exactly the blocks 0..=height(); two further blocks, each built from the restarted object's own height() and tip_hash() and accepted by append, and the chain does not verify: verify_chain() = {ver}; {}", links.join("; ")), mk_desc(&steps));
            }
        }
        rep.hit(if agree { "reopen.model_followed_to_the_end" } else { "reopen.real_only_after_disagreement" });
        rep.case("reopen", Some(&format!("{case} {with_reg} {} {dmg_line} {early_second_restart}", lines.join(";"))));
        if case <= 1 || (directed && damage == "append_crash" && n == 2) {
            rep.sample(mk_desc(&steps));
        }
    }

    lap("reopen");
    // ---------------- stream C: merkle root, the duplicated-tail pair on the real Block
    {
        let a = Tx::Put(1, 1).real();
        let b = Tx::Put(2, 2).real();
        let c = Tx::Put(3, 3).real();
        let mut b3 = Block::new(BlockHeader::default(), vec![a.clone(), b.clone(), c.clone()]);
        b3.header.tx_root = b3.compute_tx_root();
        let mut b4 = b3.clone();
        b4.transactions.push(c.clone());
        let same = b3.verify_tx_root() && b4.verify_tx_root();
        let model = m.ask("txroot_eq p1:1,p2:2,p3:3 p1:1,p2:2,p3:3,p3:3");
        rep.compare_c("merkle.duplicate_tail", || json!({"a": "p1:1,p2:2,p3:3", "b": "p1:1,p2:2,p3:3,p3:3"}), if same { "equal" } else { "different" }, &model);
        rep.case("merkle", Some("dup-tail"));
        if same {
            violation(&mut rep, "tensor_chain.block.merkle/duplicate_tail_same_root", "Block::verify_tx_root accepts [a,b,c] and [a,b,c,c] under the same tx_root", json!({"stream": "merkle", "txs_a": "p1:1,p2:2,p3:3", "txs_b": "p1:1,p2:2,p3:3,p3:3", "tx_root": hex(&b3.header.tx_root)}));
        }
    }
    let mut r = root.fork("merkle");
    for _ in 0..400 * scale {
        let mut val = 0;
        let n = r.below(18) as usize;
        let a = gen_txs(&mut r, n, &mut val);
        let mut b = a.clone();
        let kind = r.below(8);
        match kind {
            0 => {
                if let Some(l) = b.last().cloned() {
                    b.push(l);
                }
            }
            1 => {
                b.pop();
            }
            2 => {
                if b.len() >= 2 {
                    b.swap(0, 1);
                }
            }
            3 => b.push(Tx::Put(77, 77)),
            4 => {
                if let Some(l) = b.last().cloned() {
                    b.push(l.clone());
                    b.push(l);
                }
            }
            // one transaction replaced: anywhere / among the last four
            6 | 7 if n > 0 => {
                let pos = if kind == 6 { r.below(n as u64) as usize } else { n - 1 - (r.below(4) as usize).min(n - 1) };
                b[pos] = alter_tx(r.below(4), &a[pos], a.get(r.below(n as u64) as usize));
            }
            _ => {}
        }
        let ba = Block::new(BlockHeader::default(), a.iter().map(Tx::real).collect());
        let bb = Block::new(BlockHeader::default(), b.iter().map(Tx::real).collect());
        let imp = if ba.compute_tx_root() == bb.compute_tx_root() { "equal" } else { "different" };
        rep.hit(&format!("merkle.mut{kind}.{imp}"));
        // oracle (implementation only; Lean: txRoot_inj_of_length_eq / every_transaction_influences_tx_root): two
        // different transaction lists of ONE length never share a root
        if imp == "equal" && a != b && a.len() == b.len() {
            violation(&mut rep, ALTERED_LEAF_CLASS, "two different transaction lists of the same length have the same Block::compute_tx_root()", json!({"stream": "merkle", "txs_a": show_txs(&a), "txs_b": show_txs(&b), "transactions": a.len()}));
        }
        rep.compare_c("merkle.eq", || json!({"a": show_txs(&a), "b": show_txs(&b)}), imp, &m.ask(&format!("txroot_eq {} {}", show_txs(&a), show_txs(&b))));
        let mkey = format!("{} {}", show_txs(&a), show_txs(&b));
        rep.case("merkle", if a.len() >= 2 { Some(&mkey) } else { None });
    }

    lap("merkle");
    // ---------------- stream D: replay on two replicas, both store configurations
    let mut r = root.fork("replay");
    for case in 0..20 * scale {
        for shared in [false, true] {
            let id = Identity::generate();
            let mk_replica = |genesis_from: Option<&TensorStore>| -> (Arc<Chain>, TensorStore, TensorStateMachine, TensorStore) {
                let chain_store = TensorStore::new();
                if let Some(src) = genesis_from {
                    for k in ["chain:block:0", "chain:meta"] {
                        chain_store.put(k, src.get(k).unwrap()).unwrap();
                    }
                }
                let graph = Arc::new(GraphEngine::with_store(chain_store.clone()));
                let chain = Arc::new(Chain::new(graph, id.node_id()));
                chain.initialize().unwrap();
                let state = if shared { chain_store.clone() } else { TensorStore::new() };
                let transport = Arc::new(MemoryTransport::new(id.node_id()));
                let raft = Arc::new(RaftNode::new(id.node_id(), vec![], transport, RaftConfig::default()));
                let sm = TensorStateMachine::new(chain.clone(), raft, state.clone());
                (chain, chain_store, sm, state)
            };
            let (c1, cs1, sm1, st1) = mk_replica(None);
            let (c2, _cs2, sm2, st2) = mk_replica(Some(&cs1));
            let nblocks = 1 + r.below(6);
            let mut val = 0;
            let mut applied = 0;
            let mut desc = Vec::new();
            for j in 0..nblocks {
                let ntx = 1 + r.below(4) as usize;
                let txs = gen_txs(&mut r, ntx, &mut val);
                desc.push(show_txs(&txs));
                // the proposer (replica 1) computes the state root by applying the block to a copy of its state store
                let temp = TensorStore::new();
                temp.restore_from_bytes(&st1.snapshot_bytes().unwrap()).unwrap();
                for t in &txs {
                    apply_transaction_to_store(&temp, &t.real()).unwrap();
                }
                let root1 = compute_state_root(&temp).unwrap();
                let block = c1.new_block().add_transactions(txs.iter().map(Tx::real)).with_state_root(root1).sign_and_build(&id);
                let r1 = sm1.apply_block(&block);
                if shared {
                    // the graph records written beside a block carry a wall-clock `_created_at` (ms): make sure the
                    // two replicas do not apply within the same millisecond, so the outcome does not depend on timing
                    std::thread::sleep(std::time::Duration::from_millis(3));
                }
                let r2 = sm2.apply_block(&block);
                let s1 = compute_state_root(&st1).unwrap();
                let s2 = compute_state_root(&st2).unwrap();
                let cfgname = if shared { "shared" } else { "separate" };
                rep.hit(&format!("replay.{cfgname}.proposer_{}", if r1.is_ok() { "ok" } else { "rejected" }));
                rep.hit(&format!("replay.{cfgname}.replica_{}", if r2.is_ok() { "ok" } else { "rejected" }));
                let input = json!({"stream": "replay", "config": cfgname, "blocks": desc, "failing_block_index": j,
                    "proposer": r1.as_ref().map_or_else(|e| e.to_string(), |()| "ok".into()), "replica": r2.as_ref().map_or_else(|e| e.to_string(), |()| "ok".into()),
                    "data_images_equal": data_image(&st1) == data_image(&st2), "differing_store_keys": store_diff(&st1, &st2)});
                if r1.is_err() {
                    violation(&mut rep, &format!("tensor_chain.state_machine.apply_block/{cfgname}_store_proposer_rejects_own_block"), "the proposer's own replica rejects the block whose state root it computed on a copy of its store", input);
                    break;
                } else if r2.is_err() {
                    violation(&mut rep, &format!("tensor_chain.state_machine.apply_block/{cfgname}_store_replica_state_root_mismatch"), "a second replica bootstrapped from the same genesis rejects a block the first replica accepted", input);
                    break;
                } else if s1 != s2 {
                    violation(&mut rep, &format!("tensor_chain.state_root/{cfgname}_store_replicas_disagree"), "both replicas accepted the same blocks but their state roots differ", input);
                    break;
                }
                applied += 1;
                let _ = c2.height();
            }
            let rkey = format!("{case} {shared} {}", desc.join("|"));
            rep.case("replay", if applied > 0 { Some(&rkey) } else { None });
            // model: same blocks on two replicas with equal stores give equal roots (separate config, equal genesis)
            if case == 0 {
                m.ask(&format!("rinit {} 5 5", u8::from(shared)));
                rep.compare_c("replay.model_roots", || json!({"shared": shared}), "roots equal", &m.ask("rroots"));
            }
        }
    }

    lap("replay");
    // ---------------- stream D2: replica verdicts.  2-3 `TensorStateMachine` replicas with separate state stores,
    // bootstrapped from one genesis block, with and without validator keys; a sequence of blocks built on replica 0's
    // head, each check of `apply_block` / `Chain::append` individually violated in some of them (state root altered or
    // stale, height, predecessor hash, transaction root, signature), blocks applied twice, a replica that misses a
    // block and lags.  Every verdict and every replica state is compared with the model (`applyBlock`); oracles on
    // the implementation alone: a rejected block leaves the replica untouched; replicas in agreement give the same
    // verdict and end with the same state root.
    let mut r = root.fork("replay.verdicts");
    // `apply_block` never touches the Raft node: one (costly to create) node serves every replica of this stream
    let shared_raft = {
        let id = Identity::generate();
        Arc::new(RaftNode::new(id.node_id(), vec![], Arc::new(MemoryTransport::new(id.node_id())), RaftConfig::default()))
    };
    // the first two cases are directed (every defect once, in a fixed order, with and without validator keys)
    const PLAN: &[usize] = &[9, 6, 8, 4, 5, 0, 1, 2, 3, 7, 9];
    for case in 0..2 + 18 * scale {
        let directed = case < 2;
        let nrep = if directed { 3 } else { 2 + r.below(2) as usize };
        let with_reg = if directed { case == 0 } else { r.chance(1, 2) };
        let ids: Vec<Identity> = (0..4).map(|_| Identity::generate()).collect();
        let reg = Arc::new(ValidatorRegistry::new());
        reg.register(&ids[1]);
        reg.register(&ids[2]);
        struct Rep {
            chain: Arc<Chain>,
            chain_store: TensorStore,
            sm: TensorStateMachine,
            state: TensorStore,
        }
        let mut reps: Vec<Rep> = Vec::new();
        for i in 0..nrep {
            let chain_store = TensorStore::new();
            if i > 0 {
                for k in ["chain:block:0", "chain:meta"] {
                    chain_store.put(k, reps[0].chain_store.get(k).unwrap()).unwrap();
                }
            }
            let graph = Arc::new(GraphEngine::with_store(chain_store.clone()));
            let chain = Arc::new(if with_reg { Chain::with_registry(graph, ids[1].node_id(), reg.clone()) } else { Chain::new(graph, ids[1].node_id()) });
            chain.initialize().unwrap();
            let state = TensorStore::new();
            let sm = TensorStateMachine::new(chain.clone(), shared_raft.clone(), state.clone());
            reps.push(Rep { chain, chain_store, sm, state });
        }
        let base_ts = read_block(&reps[0].chain_store, 0).unwrap().header.timestamp;
        m.ask(&format!("rnew {nrep} {} 1000", u8::from(with_reg)));
        let rstate = |x: &Rep| format!("h={} verify={} blocks={} data={}", x.chain.height(), vres(x.chain.verify_chain()), show_heights(&blocks_present(&x.chain_store)), show_image(&data_image(&x.state)));
        let nblocks = if directed { PLAN.len() as u64 } else { 2 + r.below(6) };
        let mut val = 0u64;
        let mut script: Vec<String> = Vec::new();
        let mut accepted = 0u64;
        let mut rejected = 0u64;
        for j in 0..nblocks {
            let (mut hsel, mut prev, mut rootsel, mut sroot, mut sig) = ("ok", "ok", "ok", "ok", "ok");
            if directed || r.chance(2, 5) {
                match if directed { PLAN[j as usize] as u64 } else { r.below(9) } {
                    0 => hsel = "same",
                    1 => hsel = "skip",
                    2 => prev = "bad",
                    3 => rootsel = "bad",
                    4 => sroot = "bad",
                    5 => sroot = "stale",
                    6 => sig = "none",
                    7 => sig = "bad",
                    8 => sig = "wrongkey",
                    _ => {}
                }
            }
            let ntx = 1 + r.below(4) as usize;
            let txs = gen_txs(&mut r, ntx, &mut val);
            let prop = 1 + r.below(2) as usize;
            let ts_off = 1000 + 2 * j;
            // the proposer (replica 0) computes the state root on a copy of its state store
            let temp = TensorStore::new();
            temp.restore_from_bytes(&reps[0].state.snapshot_bytes().unwrap()).unwrap();
            let stale_root = compute_state_root(&temp).unwrap();
            for t in &txs {
                apply_transaction_to_store(&temp, &t.real()).unwrap();
            }
            let mut state_root = compute_state_root(&temp).unwrap();
            match sroot {
                "bad" => flip(&mut state_root),
                "stale" => state_root = stale_root,
                _ => {}
            }
            let b = mk_block_on(&reps[0].chain, &ids, base_ts, state_root, hsel, prev, rootsel, sig, ts_off, prop, &txs);
            let line = format!("rblock 0 {hsel} {prev} {rootsel} {sroot} {sig} {ts_off} {prop} {}", show_txs(&txs));
            m.ask(&line);
            script.push(line);
            let skipper = if !directed && nrep > 2 && hsel == "ok" && r.chance(1, 8) { Some(nrep - 1) } else { None };
            let rounds = if r.chance(1, 6) { 2 } else { 1 }; // second round: the same block applied again
            for round in 0..rounds {
                let mut pre_keys: Vec<(u64, [u8; 32], Dump)> = Vec::new();
                let mut verdicts: Vec<Option<String>> = Vec::new();
                for (i, x) in reps.iter().enumerate() {
                    let pre = (x.chain.height(), x.chain.tip_hash(), store_dump(&x.state));
                    if skipper == Some(i) {
                        script.push(format!("(replica {i} misses this block)"));
                        pre_keys.push(pre);
                        verdicts.push(None);
                        continue;
                    }
                    let pre_blocks = blocks_present(&x.chain_store);
                    let res = x.sm.apply_block(&b);
                    let imp = res.as_ref().map_or_else(|e| verr(e), |()| "ok".into());
                    let desc = json!({"stream": "replay.verdicts", "registry": with_reg, "replicas": nrep, "script": script, "replica": i, "round": round});
                    rep.compare_c("replay.verdict", || desc.clone(), &imp, &m.ask(&format!("rapply {i}")));
                    rep.compare_c("replay.state", || desc.clone(), &rstate(x), &m.ask(&format!("rstate {i}")));
                    rep.hit(&format!("replay.verdict.{}", imp.replace(' ', "_")));
                    if res.is_ok() {
                        accepted += 1;
                    } else {
                        rejected += 1;
                        let post = (x.chain.height(), x.chain.tip_hash(), store_dump(&x.state));
                        if post != pre || blocks_present(&x.chain_store) != pre_blocks {
                            violation(&mut rep, "tensor_chain.state_machine.apply_block/rejected_block_changed_replica", "apply_block returned an error but the replica's state store / chain height / tip / block records are not those of before the call", desc.clone());
                        }
                    }
                    script.push(format!("rapply {i} => {imp}"));
                    pre_keys.push(pre);
                    verdicts.push(Some(imp));
                }
                // determinism among replicas that were in agreement before the block
                for a in 0..nrep {
                    for c in a + 1..nrep {
                        if let (Some(va), Some(vc)) = (&verdicts[a], &verdicts[c]) {
                            if pre_keys[a] == pre_keys[c] {
                                let ra = compute_state_root(&reps[a].state).unwrap();
                                let rc2 = compute_state_root(&reps[c].state).unwrap();
                                if va != vc || ra != rc2 {
                                    violation(&mut rep, "tensor_chain.state_machine.apply_block/agreeing_replicas_differ", "two replicas with the same state store contents, height and tip gave different verdicts on the same block, or end with different state roots",
                                        json!({"stream": "replay.verdicts", "registry": with_reg, "script": script, "replicas": [a, c], "verdicts": [va, vc], "roots_equal": ra == rc2}));
                                }
                            }
                        }
                    }
                }
            }
        }
        rep.compare_c("replay.roots", || json!({"script": script}), if reps.iter().all(|x| compute_state_root(&x.state).unwrap() == compute_state_root(&reps[0].state).unwrap()) { "roots equal" } else { "roots differ" }, &m.ask("rrootsall"));
        let vkey = format!("{case} {}", script.join(";"));
        rep.case("replay.verdicts", if accepted > 0 && rejected > 0 { Some(&vkey) } else { None });
        if case < 1 {
            rep.sample(json!({"stream": "replay.verdicts", "registry": with_reg, "replicas": nrep, "script": script}));
        }
    }

    lap("replay.verdicts");
    // ---------------- stream V (implementation only): EVERY `Transaction` variant (Put, Delete, Embed, NodeCreate,
    // NodeDelete, EdgeCreate, TableInsert, TableUpdate, TableDelete, CompareAndSwap) through the workspace pipeline:
    // successful commits, commits that fail late (own key unregistered), fresh rollbacks, restarts.  Oracles: a failed
    // commit / a fresh rollback / a restart leaves height, tip, every block and EVERY key of the store as they were;
    // after a successful commit the chain verifies, is one block longer, and the keys written by transactions are
    // exactly what replaying all blocks of the chain on an empty store gives (the model's `DataInv`, on the real store).
    let mut r = root.fork("variants");
    for case in 0..40 * scale {
        let store = TensorStore::new();
        let cfg = ChainConfig::new("n");
        let mut tc = TensorChain::with_identity(store.clone(), cfg.clone(), node_identity());
        tc.initialize().unwrap();
        let me = tc.node_id().clone();
        let mut script: Vec<String> = Vec::new();
        let mut val = 0u64;
        let mut committed = 0u64;
        // once a key under the reserved prefix was let into a workspace of this chain, every later oracle failure of the
        // case is a consequence of that (the class is computed from the trace)
        let mut tainted = false;
        for _ in 0..3 + r.below(6) {
            let w = tc.begin().unwrap();
            let mut ops = Vec::new();
            for _ in 0..1 + r.below(5) {
                let t = gen_variant(&mut r, &mut val);
                w.add_operation(t.clone()).unwrap();
                ops.push(format!("{t:?}"));
                rep.hit(&format!("variants.op.{}", format!("{t:?}").split(' ').next().unwrap_or("")));
            }
            // keys under the reserved `chain:` prefix, any shape, any kind: never accepted (repo commit b368f92a)
            let mut reserved_accepted: Vec<String> = Vec::new();
            if r.chance(1, 3) {
                for _ in 0..1 + r.below(2) {
                    let h = tc.height();
                    let key = match r.below(8) {
                        0 => "chain:meta".to_string(),
                        1 => "chain:".to_string(),
                        2 => format!("chain:k{}", r.below(3)),
                        3 => "chain:block:".to_string(),
                        4 => format!("chain:block:{}", h + 1),
                        _ => format!("chain:block:{}", r.below(h + 1)),
                    };
                    let kind = *r.pick(&["put", "del", "cas"]);
                    val += 1;
                    let res = w.add_operation(reserved_tx(kind, &key, val));
                    ops.push(format!("{kind} {key} => {}", res.as_ref().map_or_else(|e| verr(e), |()| "ok".into())));
                    if res.is_ok() {
                        reserved_accepted.push(format!("{kind} {key}"));
                    } else {
                        rep.hit("variants.reserved.refused");
                    }
                }
            }
            let mode = match r.below(10) {
                0..=5 => "commit",
                6 => "rollback",
                7 | 8 if tc.height() >= 1 => "late_fail",
                9 => "restart_commit",
                _ => "commit",
            };
            script.push(format!("begin; {}; {mode}", ops.join("; ")));
            let input = |script: &Vec<String>| json!({"stream": "variants", "script": script});
            if !reserved_accepted.is_empty() {
                tainted = true;
                violation(&mut rep, NAMESPACE_CLASS, &format!("add_operation accepted operations on keys under the reserved chain: prefix (regression of repo commit b368f92a): {reserved_accepted:?}"), input(&script));
            }
            let before = chain_snap(&tc, &store);
            match mode {
                "rollback" => {
                    let res = tc.rollback(&w);
                    let after = chain_snap(&tc, &store);
                    if res.is_err() || after != before {
                        violation(&mut rep, if tainted { NAMESPACE_CLASS } else { "tensor_chain.rollback/fresh_rollback_changed_state" }, &format!("rollback of a workspace begun right before (no commit in between) = {:?}: {}", res.map_err(|e| e.to_string()), snap_diff(&before, &after).join("; ")), input(&script));
                    }
                }
                "late_fail" => {
                    let _ = tc.validator_registry().remove(&me);
                    let res = tc.commit(&w);
                    tc.register_validator(tc.identity());
                    let after = chain_snap(&tc, &store);
                    rep.hit(&format!("variants.late_fail.{}", if res.is_err() { "failed" } else { "committed" }));
                    if res.is_ok() || after != before || tc.verify().is_err() {
                        violation(&mut rep, if tainted { NAMESPACE_CLASS } else { "tensor_chain.commit/failed_commit_not_atomic" }, &format!("commit with the node's key unregistered = {:?}; chain/store before vs after: {}", res.map(|_| ()).map_err(|e| e.to_string()), snap_diff(&before, &after).join("; ")), input(&script));
                    }
                }
                _ => {
                    if mode == "restart_commit" {
                        tc = TensorChain::with_identity(store.clone(), cfg.clone(), node_identity());
                        let init = tc.initialize();
                        let after = chain_snap(&tc, &store);
                        if init.is_err() || after != before {
                            violation(&mut rep, if tainted { NAMESPACE_CLASS } else { "tensor_chain.initialize/restart_changed_chain" }, &format!("restart = {:?}: {}", init.map_err(|e| e.to_string()), snap_diff(&before, &after).join("; ")), input(&script));
                        }
                    }
                    let res = tc.commit(&w);
                    let replayed = TensorStore::new();
                    for h in 0..=tc.height() {
                        if let Ok(Some(b)) = tc.get_block(h) {
                            for t in &b.transactions {
                                let _ = apply_transaction_to_store(&replayed, t);
                            }
                        }
                    }
                    let (have, want) = (user_dump(&store), user_dump(&replayed));
                    // the chain's own records after a successful commit: the old ones untouched, the new block record,
                    // the height record rewritten (Lean: chain_records_change_only_through_append)
                    let after = chain_snap(&tc, &store);
                    let chain_changes = chain_record_changes(&before.dump, &after.dump);
                    let chain_ok = res.is_err() || chain_changes == vec![format!("chain:block:{} NEW", before.height + 1), "chain:meta changed".to_string()];
                    if tainted && (res.is_err() || tc.height() != before.height + 1 || tc.verify().is_err() || !chain_ok || have != want) {
                        violation(&mut rep, NAMESPACE_CLASS, &format!("a workspace that was allowed to hold {reserved_accepted:?} was committed: commit = {:?}, height {} -> {}, verify = {}, chain records: {chain_changes:?}", res.as_ref().map(|_| ()).map_err(|e| e.to_string()), before.height, tc.height(), vres(tc.verify())), input(&script));
                    } else if !chain_ok {
                        violation(&mut rep, if tainted { NAMESPACE_CLASS } else { "tensor_chain.commit/chain_record_changed_outside_append" }, &format!("a successful commit changed chain records other than the new block record and the height record: {chain_changes:?}"), input(&script));
                    } else if res.is_err() || tc.height() != before.height + 1 || tc.verify().is_err() {
                        violation(&mut rep, if tainted { NAMESPACE_CLASS } else { "tensor_chain.commit/sequential_commit_not_atomic" }, &format!("commit = {:?}, height {} -> {}, verify = {}", res.as_ref().map(|_| ()).map_err(|e| e.to_string()), before.height, tc.height(), vres(tc.verify())), input(&script));
                    } else if have != want {
                        let keys: Vec<String> = have.keys().chain(want.keys()).filter(|k| have.get(*k) != want.get(*k)).cloned().collect::<BTreeSet<_>>().into_iter().collect();
                        violation(&mut rep, if tainted { NAMESPACE_CLASS } else { "tensor_chain.commit/store_not_replay_of_chain" }, &format!("after a successful commit the keys written by transactions differ from the replay of the chain's blocks on an empty store: {keys:?}"), input(&script));
                    } else {
                        committed += 1;
                    }
                }
            }
        }
        let vkey = format!("{case} {}", script.join(" | "));
        rep.case("variants", if committed > 0 { Some(&vkey) } else { None });
        if case < 1 {
            rep.sample(json!({"stream": "variants", "script": script, "height": tc.height(), "user_keys": user_dump(&store).keys().cloned().collect::<Vec<_>>()}));
        }
    }
    lap("variants");
    // ---------------- stream F: real commit threads under the deterministic scheduler (tensor_store::verif::yield_point)
    // F0: one commit alone: its yield sequence against the model's atomic step list
    {
        let c = conc_setup(0, false, false, false, false);
        let w = c.tc.begin().unwrap();
        // the two compare-and-swaps: one succeeds (read + write), one fails (read only)
        let ops = [Tx::Put(1, 1), Tx::Del(7), Tx::Put(2, 5), Tx::Cas(1, Some(1), 9), Tx::Cas(3, Some(4), 8)];
        for o in &ops {
            w.add_operation(o.real()).unwrap();
        }
        let c = Conc { wss: vec![w], plan: vec![ops.to_vec()], ..c };
        m.ask("init 1000 0 10 0");
        m.ask("begin");
        for o in &ops {
            match o {
                Tx::Put(k, v) => m.ask(&format!("put 0 {k} {v}")),
                Tx::Del(k) => m.ask(&format!("del 0 {k}")),
                Tx::Cas(k, e, v) => m.ask(&format!("cas 0 {k} {} {v}", e.map_or("-".to_string(), |e| e.to_string()))),
            };
        }
        let want = m.ask("ctrace 0");
        let (results, trace) = run_unit_script(&c, &[]);
        rep.compare_c("sched.solo_yield_sequence", || json!({"ops": show_txs(&ops), "trace": trace.iter().map(|s| format!("{} {}", s.site, s.key)).collect::<Vec<_>>()}), &thread_trace(&trace, 0), &want);
        let mres = m.ask("commit 0 5");
        rep.compare_c("sched.solo_result", || json!({"ops": show_txs(&ops)}), if results[0].is_ok() { "ok" } else { "err" }, mres.split(' ').next().unwrap_or(""));
        rep.compare_c("sched.solo_state", || json!({"ops": show_txs(&ops)}), &state_line(&c.tc, &c.store), &m.ask("state"));
        rep.case("sched.solo", Some("solo"));
        rep.sample(json!({"stream": "sched.solo", "ops": show_txs(&ops), "yield_sequence": trace.iter().map(|s| format!("{} {}", s.site, s.key)).collect::<Vec<_>>(), "canonical": thread_trace(&trace, 0)}));
    }
    lap("sched.solo");
    // F1: unit scripts. The first two are the Lean witnesses (`concurrent_commit_witness`: A A B B C C D D with the
    // loser restoring; `concurrent_commit_order_witness`: thread 0 up to apply, thread 1 completely, thread 0's rest);
    // the rest are seeded random scripts. Real results and final state are compared with the model run under the
    // same schedule; the oracle is evaluated on the implementation.
    let mut r = root.fork("sched.units");
    for case in 0..(2 + 60 * scale) {
        let (script, conflicting, prefix): (Vec<(usize, u8)>, bool, bool) = match case {
            0 => (vec![(0, UA), (1, UA), (0, UB), (1, UB), (0, UC), (1, UC), (0, UD), (1, UD)], false, true),
            1 => (vec![(0, UA), (0, UB), (1, UA), (1, UB), (1, UC), (1, UD), (0, UC), (0, UD)], true, true),
            _ => (gen_unit_script(&mut r), r.chance(1, 2), r.chance(1, 2)),
        };
        let c = conc_setup(2, false, conflicting, false, prefix);
        // model set-up
        m.ask("init 1000 0 10 0");
        let base = if prefix {
            m.ask("begin");
            m.ask("put 0 50 5000");
            m.ask("commit 0 1");
            1
        } else {
            0
        };
        let mut want_traces = Vec::new();
        for (t, ops) in c.plan.iter().enumerate() {
            m.ask("begin");
            for o in ops {
                if let Tx::Put(k, v) = o {
                    m.ask(&format!("put {} {k} {v}", base + t));
                }
            }
            want_traces.push(m.ask(&format!("ctrace {}", base + t)));
        }
        let (results, trace) = run_unit_script(&c, &script);
        let msched = model_schedule(&script);
        let mres = m.ask(&format!("sched {},{} 5 {msched}", base, base + 1));
        let mres: Vec<String> = mres.split(" | ").map(|x| if x.starts_with("ok") { "ok".to_string() } else { x.replace("append_", "") }).collect();
        let ires: Vec<String> = results.iter().map(|x| x.as_ref().map_or_else(|e| e.clone(), |_| "ok".into())).collect();
        let imp = format!("{} ; {}", ires.join(" | "), state_line(&c.tc, &c.store));
        let model = format!("{} ; {}", mres.join(" | "), m.ask("state"));
        let desc = json!({"script": show_script(&script), "model_schedule": msched, "conflicting_keys": conflicting, "sequential_prefix_block": prefix});
        rep.compare_c("sched.units", || desc.clone(), &imp, &model);
        // per-thread yield sequence up to the state root against the model's step list (the append part depends on
        // the schedule: a thread that loses never writes)
        for t in 0..2 {
            let got = thread_trace(&trace, t);
            rep.compare_c("sched.units_yield_sequence", || desc.clone(), got.split(" append=").next().unwrap_or(""), want_traces[t].split(" append=").next().unwrap_or(""));
        }
        let (vios, mut input, oks) = conc_oracle(&c, &results);
        input["scheduler"] = json!("deterministic (tensor_store::verif::yield_point), unit script");
        input["script"] = json!(show_script(&script));
        input["blocked_on_lock_steps"] = json!(trace.iter().filter(|s| !s.blocked.is_empty()).count());
        for v in &vios {
            violation(&mut rep, v.0, v.1, input.clone());
        }
        rep.hit(&format!("sched.units.oks{oks}.{}", if vios.is_empty() { "clean" } else { vios[0].0.rsplit('/').next().unwrap_or("") }));
        if case == 0 {
            rep.hit(if vios.iter().any(|v| v.0 == "tensor_chain.commit/concurrent_commit_lost") { "sched.witness.commit_lost.reproduced" } else { "sched.witness.commit_lost.NOT_reproduced" });
        }
        if case == 1 {
            rep.hit(if vios.iter().any(|v| v.0 == "tensor_chain.commit/concurrent_store_diverges_from_chain") { "sched.witness.store_diverges.reproduced" } else { "sched.witness.store_diverges.NOT_reproduced" });
        }
        let ukey = format!("{} {conflicting} {prefix}", show_script(&script));
        rep.case("sched.units", if oks > 0 { Some(&ukey) } else { None });
        if case < 2 {
            rep.sample(input);
        }
    }
    lap("sched.units");
    // F2: seeded random schedules at single-store-call granularity, 2-3 threads (finer than the model's atomic
    // steps: oracle only, same classes as above)
    let mut r = root.fork("sched.raw");
    for case in 0..30 * scale {
        let nthreads = 2 + r.below(2) as usize;
        let conflicting = r.chance(1, 2);
        let c = conc_setup(nthreads, r.chance(1, 3), conflicting, r.chance(1, 3), true);
        let results: Arc<Mutex<Vec<Option<CommitOut>>>> = Arc::new(Mutex::new(vec![None; nthreads]));
        let tasks = commit_tasks(&c, &results);
        let mut rr = r.fork(&format!("case{case}"));
        let trace = run_threads(tasks, move |_, parked| rr.below(parked.len() as u64) as usize);
        let results: Vec<CommitOut> = results.lock().unwrap().iter().map(|x| x.clone().unwrap_or_else(|| Err("no result".into()))).collect();
        let (vios, mut input, oks) = conc_oracle(&c, &results);
        input["scheduler"] = json!("deterministic (tensor_store::verif::yield_point), PRNG per store call");
        input["schedule_threads"] = json!(trace.iter().map(|s| s.thread.to_string()).collect::<Vec<_>>().join(""));
        for v in &vios {
            violation(&mut rep, v.0, v.1, input.clone());
        }
        rep.hit(&format!("sched.raw.threads{nthreads}.oks{oks}.{}", if vios.is_empty() { "clean" } else { vios[0].0.rsplit('/').next().unwrap_or("") }));
        let rkey = format!("{case} {}", input["schedule_threads"]);
        rep.case("sched.raw", if oks > 0 { Some(&rkey) } else { None });
    }

    lap("sched.raw");
    // ---------------- stream E: 2-4 real threads committing concurrently (oracle only)
    // The first DIRECTED_MAX indices are one directed scenario (2 threads, plain workspaces, disjoint keys) retried
    // until the lost-commit interleaving has been produced once (bounded; the OS schedules the threads), then skipped.
    const DIRECTED_MAX: u64 = 300;
    let mut r = root.fork("concurrent");
    let mut lost_seen = false;
    let mut directed_attempts = 0u64;
    for idx in 0..DIRECTED_MAX + 40 * scale {
        let directed = idx < DIRECTED_MAX;
        if directed && lost_seen {
            continue;
        }
        let case = idx.saturating_sub(DIRECTED_MAX);
        let (nthreads, auto_merge, conflicting, directional) =
            if directed { (2usize, false, false, false) } else { (2 + r.below(3) as usize, r.chance(1, 2), r.chance(1, 2), r.chance(1, 2)) };
        if directed {
            directed_attempts += 1;
        }
        let c = conc_setup(nthreads, auto_merge, conflicting, directional, true);
        let barrier = Arc::new(Barrier::new(nthreads));
        let handles: Vec<_> = c
            .wss
            .iter()
            .cloned()
            .map(|w| {
                let tc = c.tc.clone();
                let b = barrier.clone();
                std::thread::spawn(move || {
                    b.wait();
                    tc.commit(&w).map_err(|e| verr(&e))
                })
            })
            .collect();
        let results: Vec<CommitOut> = handles.into_iter().map(|h| h.join().unwrap_or_else(|_| Err("panic".into()))).collect();
        let (vios, mut input, oks) = conc_oracle(&c, &results);
        input["scheduler"] = json!("free-running OS threads");
        let lost = vios.iter().any(|v| v.0 == "tensor_chain.commit/concurrent_commit_lost");
        if directed {
            // only the attempt that shows the race is counted as a case (attempts needed vary with the OS scheduler)
            if lost {
                lost_seen = true;
                rep.hit("concurrent.directed.reproduced");
                for v in &vios {
                    violation(&mut rep, v.0, v.1, input.clone());
                }
                rep.case("concurrent", Some("directed 2 threads"));
                rep.observe(json!({"note": "free-running directed concurrent scenario: attempts until the lost-commit interleaving appeared", "attempts": directed_attempts, "bound": DIRECTED_MAX}));
            } else if idx + 1 == DIRECTED_MAX {
                rep.observe(json!({"note": "free-running directed concurrent scenario: lost-commit interleaving not produced within the bound", "attempts": directed_attempts}));
            }
            continue;
        }
        rep.hit(&format!("concurrent.threads{nthreads}.oks{oks}"));
        for v in &vios {
            violation(&mut rep, v.0, v.1, input.clone());
        }
        let ckey = format!("{case} {nthreads} {auto_merge} {conflicting} {directional} {:?}", results.iter().map(Result::is_ok).collect::<Vec<_>>());
        rep.case("concurrent", if oks > 0 { Some(&ckey) } else { None });
        if idx == DIRECTED_MAX {
            rep.sample(input);
        }
    }

    lap("concurrent");
    // ---------------- observation outside the quantifier: multi-field boundary ambiguity of signing_bytes
    {
        let h1 = BlockHeader { quantized_codes: vec![0x4141; 4], timestamp: 0x4242_4242_4242_4242, proposer: String::new(), ..BlockHeader::default() };
        let h2 = BlockHeader { quantized_codes: vec![], timestamp: 0x4141_4141_4141_4141, proposer: "BBBBBBBB".into(), ..BlockHeader::default() };
        if h1 != h2 && h1.hash() == h2.hash() {
            rep.observe(json!({"note": "BlockHeader::hash / signing_bytes concatenate variable-length fields without length prefixes: two different headers (codes/timestamp/proposer shifted) share hash and signing bytes; multi-field, so outside the single-field tamper quantifier", "hash": hex(&h1.hash())}));
        }
    }

    rep.note("SHA-256 / ed25519 / bitcode are opaque in the model (hypotheses HashInjOn, SigSound); the model driver uses injective encodings");
    rep.note("concurrent commits: real threads without a scheduler hook, so the interleaving is whatever the OS produces (oracle only); the counter-interleaving itself is a Lean theorem");
    rep.note("graph nodes/edges written by Chain::append are not modelled");
    rep.write(&args.out);
}
